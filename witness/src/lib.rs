//! Compile-fail witnesses for C20 (run by `./check C20 --tier thorough` with `cargo +nightly test --doc`).
//! Each failing witness is paired with a compiling twin that differs only by the offending line, so a
//! witness that fails for the wrong reason (a typo in a path) is detected by its twin failing too.

/// Twin: rendering works through a *shared* reference, any number of times (so `scheme`/`io_map` take `&self`).
/// ```
/// let (opt, exp) = lipe_find_parser::parse("-name x -print0").unwrap();
/// let compiled = lipe_find_parser::compile(&exp, &opt).unwrap();
/// let shared = &compiled;
/// let a = shared.scheme("/dev/a");
/// let b = shared.scheme("/dev/a");
/// let _table = shared.io_map();
/// assert_eq!(a, b);
/// ```
pub struct RenderThroughSharedReference;

/// The parts of a compiled expression cannot be read (let alone replaced) by a caller: private field.
/// ```compile_fail,E0616
/// let (opt, exp) = lipe_find_parser::parse("-name x -print0").unwrap();
/// let compiled = lipe_find_parser::compile(&exp, &opt).unwrap();
/// let _ = &compiled.policy_body;
/// ```
pub struct PolicyBodyIsPrivate;

/// The destination table cannot be replaced between two renders: private field.
/// ```compile_fail,E0616
/// let (opt, exp) = lipe_find_parser::parse("-name x -print0").unwrap();
/// let mut compiled = lipe_find_parser::compile(&exp, &opt).unwrap();
/// compiled.io_map = None;
/// ```
pub struct TableIsPrivate;

/// The table handed out is a copy: mutating it does not touch the compiled expression.
/// ```
/// let (opt, exp) = lipe_find_parser::parse("-name x -print0").unwrap();
/// let compiled = lipe_find_parser::compile(&exp, &opt).unwrap();
/// let mut copy = compiled.io_map().unwrap();
/// copy.clear();
/// assert!(!compiled.io_map().unwrap().is_empty());
/// ```
pub struct TableIsReturnedByValue;
