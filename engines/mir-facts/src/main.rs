//! E2 — mir-facts: a rustc_private driver used as RUSTC_WORKSPACE_WRAPPER.  For the crate named in
//! MIR_FACTS_CRATE it writes one JSON fact file (MIR_FACTS_OUT) with, per MIR body: resolved call
//! edges (callee path, generic args, span, macro backtrace), Assert terminators, int casts; plus local
//! ADTs with `is_freeze`, statics, and unsafe blocks.  Other crates are compiled normally.
#![feature(rustc_private)]

extern crate rustc_driver;
extern crate rustc_hir;
extern crate rustc_interface;
extern crate rustc_middle;
extern crate rustc_span;

use rustc_driver::Compilation;
use rustc_hir::def::DefKind;
use rustc_middle::mir::visit::Visitor;
use rustc_middle::mir::{AssertKind, ConstOperand, Location, Operand, Rvalue, StatementKind, TerminatorKind};
use rustc_middle::ty::{self, Instance, TyCtxt, TypingEnv};
use std::fmt::Write as _;

struct Facts;

/// collects every fn item / closure mentioned as a *value* (passed to a combinator, stored, …)
struct FnRefs<'tcx> {
    tcx: TyCtxt<'tcx>,
    tenv: TypingEnv<'tcx>,
    refs: Vec<String>,
}
impl<'tcx> Visitor<'tcx> for FnRefs<'tcx> {
    fn visit_const_operand(&mut self, c: &ConstOperand<'tcx>, _loc: Location) {
        let ty = c.const_.ty();
        match ty.kind() {
            ty::FnDef(did, args) => {
                self.refs.push(self.tcx.def_path_str(*did));
                if let Ok(Some(inst)) = Instance::try_resolve(self.tcx, self.tenv, *did, args) {
                    self.refs.push(self.tcx.def_path_str(inst.def_id()));
                }
            }
            ty::Closure(did, _) => self.refs.push(self.tcx.def_path_str(*did)),
            _ => {}
        }
    }
}

fn esc(s: &str) -> String {
    let mut o = String::new();
    for c in s.chars() {
        match c {
            '"' => o.push_str("\\\""),
            '\\' => o.push_str("\\\\"),
            '\n' => o.push_str("\\n"),
            '\t' => o.push_str("\\t"),
            c if (c as u32) < 0x20 => {
                let _ = write!(o, "\\u{:04x}", c as u32);
            }
            c => o.push(c),
        }
    }
    o
}

fn span_info(tcx: TyCtxt<'_>, sp: rustc_span::Span) -> (String, usize, Vec<String>, bool) {
    let sm = tcx.sess.source_map();
    let mut macros = vec![];
    for ex in sp.macro_backtrace() {
        macros.push(ex.kind.descr());
    }
    let root = sp.source_callsite();
    let loc = sm.lookup_char_pos(root.lo());
    let file = match &loc.file.name {
        rustc_span::FileName::Real(r) => r.local_path().map(|p| p.to_string_lossy().to_string()).unwrap_or_else(|| format!("{:?}", r)),
        other => format!("{:?}", other),
    };
    (file, loc.line, macros, sp.from_expansion())
}

fn operand_desc<'tcx>(op: &Operand<'tcx>) -> String {
    match op {
        Operand::Constant(c) => format!("const {}", c.const_),
        Operand::Copy(p) | Operand::Move(p) => format!("{:?}", p),
        #[allow(unreachable_patterns)]
        _ => "?".to_string(),
    }
}

impl rustc_driver::Callbacks for Facts {
    fn after_analysis<'tcx>(&mut self, _c: &rustc_interface::interface::Compiler, tcx: TyCtxt<'tcx>) -> Compilation {
        let out_path = match std::env::var("MIR_FACTS_OUT") {
            Ok(p) => p,
            Err(_) => return Compilation::Continue,
        };
        let mut out = String::new();
        out.push_str("{\"bodies\":[");
        let mut first = true;
        for ldid in tcx.mir_keys(()) {
            let did = ldid.to_def_id();
            let kind = tcx.def_kind(did);
            match kind {
                DefKind::Fn | DefKind::AssocFn | DefKind::Closure => {}
                _ => continue,
            }
            let body = tcx.optimized_mir(did);
            let path = tcx.def_path_str(did);
            let (file, line, _, _) = span_info(tcx, tcx.def_span(did));
            let tenv = TypingEnv::post_analysis(tcx, did);
            if !first {
                out.push(',');
            }
            first = false;
            let vis = if matches!(kind, DefKind::Fn | DefKind::AssocFn) { format!("{:?}", tcx.visibility(did)) } else { String::new() };
            let _ = write!(
                out,
                "{{\"path\":\"{}\",\"kind\":\"{:?}\",\"file\":\"{}\",\"line\":{},\"vis\":\"{}\",\"calls\":[",
                esc(&path),
                kind,
                esc(&file),
                line,
                esc(&vis)
            );
            let mut cf = true;
            let mut asserts = String::new();
            let mut casts = String::new();
            let mut closures = String::new();
            for bb in body.basic_blocks.iter() {
                for st in &bb.statements {
                    if let StatementKind::Assign(b) = &st.kind {
                        let (_, rv) = &**b;
                        match rv {
                            Rvalue::Cast(ck, op, ty) => {
                                let from = op.ty(&body.local_decls, tcx);
                                if from.is_integral() && ty.is_integral() || (from.is_char() && ty.is_integral()) {
                                    let (f, l, m, _) = span_info(tcx, st.source_info.span);
                                    if !casts.is_empty() {
                                        casts.push(',');
                                    }
                                    let _ = write!(casts, "{{\"from\":\"{}\",\"to\":\"{}\",\"kind\":\"{:?}\",\"file\":\"{}\",\"line\":{},\"macros\":{:?},\"operand\":\"{}\"}}", from, ty, std::mem::discriminant(ck), esc(&f), l, m, esc(&operand_desc(op)));
                                }
                            }
                            Rvalue::Aggregate(ak, _) => {
                                if let rustc_middle::mir::AggregateKind::Closure(cd, _) = &**ak {
                                    if !closures.is_empty() {
                                        closures.push(',');
                                    }
                                    let _ = write!(closures, "\"{}\"", esc(&tcx.def_path_str(*cd)));
                                }
                            }
                            _ => {}
                        }
                    }
                }
                let term = bb.terminator();
                match &term.kind {
                    TerminatorKind::Call { func, args, .. } => {
                        let fty = func.ty(&body.local_decls, tcx);
                        let (f, l, m, exp) = span_info(tcx, term.source_info.span);
                        let mut callee = format!("{}", fty);
                        let mut resolved = String::new();
                        let mut gargs = String::new();
                        let mut virt = false;
                        let mut krate = String::new();
                        if let ty::FnDef(cdid, cargs) = fty.kind() {
                            callee = tcx.def_path_str(*cdid);
                            gargs = format!("{:?}", cargs);
                            krate = tcx.crate_name(cdid.krate).to_string();
                            if let Ok(Some(inst)) = Instance::try_resolve(tcx, tenv, *cdid, cargs) {
                                resolved = tcx.def_path_str(inst.def_id());
                                if matches!(inst.def, ty::InstanceKind::Virtual(..)) {
                                    virt = true;
                                }
                            }
                        }
                        let argtys: Vec<String> = args.iter().map(|a| format!("{}", a.node.ty(&body.local_decls, tcx))).collect();
                        if !cf {
                            out.push(',');
                        }
                        cf = false;
                        let _ = write!(
                            out,
                            "{{\"callee\":\"{}\",\"resolved\":\"{}\",\"generics\":\"{}\",\"crate\":\"{}\",\"virtual\":{},\"file\":\"{}\",\"line\":{},\"macros\":{:?},\"expn\":{},\"argtys\":{:?}}}",
                            esc(&callee),
                            esc(&resolved),
                            esc(&gargs),
                            esc(&krate),
                            virt,
                            esc(&f),
                            l,
                            m,
                            exp,
                            argtys
                        );
                    }
                    TerminatorKind::Assert { msg, cond, .. } => {
                        let (f, l, m, _) = span_info(tcx, term.source_info.span);
                        let (k, ops) = match &**msg {
                            AssertKind::Overflow(op, a, b) => (format!("Overflow({:?})", op), format!("{} ; {}", operand_desc(a), operand_desc(b))),
                            AssertKind::OverflowNeg(a) => ("OverflowNeg".to_string(), operand_desc(a)),
                            AssertKind::BoundsCheck { .. } => ("BoundsCheck".to_string(), String::new()),
                            AssertKind::DivisionByZero(a) => ("DivisionByZero".to_string(), operand_desc(a)),
                            AssertKind::RemainderByZero(a) => ("RemainderByZero".to_string(), operand_desc(a)),
                            AssertKind::MisalignedPointerDereference { .. } => ("MisalignedPointerDereference".to_string(), String::new()),
                            AssertKind::NullPointerDereference => ("NullPointerDereference".to_string(), String::new()),
                            AssertKind::InvalidEnumConstruction(_) => ("InvalidEnumConstruction".to_string(), String::new()),
                            other => (format!("{:?}", std::mem::discriminant(other)), String::new()),
                        };
                        if !asserts.is_empty() {
                            asserts.push(',');
                        }
                        let _ = write!(asserts, "{{\"kind\":\"{}\",\"operands\":\"{}\",\"cond\":\"{}\",\"file\":\"{}\",\"line\":{},\"macros\":{:?}}}", esc(&k), esc(&ops), esc(&operand_desc(cond)), esc(&f), l, m);
                    }
                    _ => {}
                }
            }
            let mut fr = FnRefs { tcx, tenv, refs: vec![] };
            fr.visit_body(body);
            fr.refs.sort();
            fr.refs.dedup();
            let refs: Vec<String> = fr.refs.iter().map(|r| format!("\"{}\"", esc(r))).collect();
            let _ = write!(out, "],\"asserts\":[{}],\"casts\":[{}],\"closures\":[{}],\"fnrefs\":[{}]}}", asserts, casts, closures, refs.join(","));
        }
        out.push_str("],\"adts\":[");
        let mut af = true;
        for id in tcx.hir_crate_items(()).definitions() {
            let did = id.to_def_id();
            match tcx.def_kind(did) {
                DefKind::Struct | DefKind::Enum | DefKind::Union => {
                    let ty = tcx.type_of(did).instantiate_identity().skip_norm_wip();
                    let tenv = TypingEnv::post_analysis(tcx, did);
                    let freeze = ty.is_freeze(tcx, tenv);
                    if !af {
                        out.push(',');
                    }
                    af = false;
                    let _ = write!(out, "{{\"path\":\"{}\",\"freeze\":{},\"generic\":{}}}", esc(&tcx.def_path_str(did)), freeze, tcx.generics_of(did).count() > 0);
                }
                _ => {}
            }
        }
        out.push_str("],\"statics\":[");
        let mut sf = true;
        for id in tcx.hir_crate_items(()).definitions() {
            let did = id.to_def_id();
            if let DefKind::Static { mutability, .. } = tcx.def_kind(did) {
                if !sf {
                    out.push(',');
                }
                sf = false;
                let ty = tcx.type_of(did).instantiate_identity().skip_norm_wip();
                let tenv = TypingEnv::post_analysis(tcx, did);
                let _ = write!(out, "{{\"path\":\"{}\",\"mut\":{},\"freeze\":{},\"ty\":\"{}\"}}", esc(&tcx.def_path_str(did)), mutability.is_mut(), ty.is_freeze(tcx, tenv), esc(&format!("{}", ty)));
            }
        }
        let _ = write!(out, "],\"crate\":\"{}\",\"debug_assertions\":{},\"overflow_checks\":{}}}", tcx.crate_name(rustc_span::def_id::LOCAL_CRATE), tcx.sess.opts.debug_assertions, tcx.sess.overflow_checks());
        std::fs::write(&out_path, out).expect("write facts");
        Compilation::Continue
    }
}

fn main() {
    let mut args: Vec<String> = std::env::args().collect();
    // invoked as RUSTC_WORKSPACE_WRAPPER: argv[1] is the real rustc
    if args.len() > 1 && (args[1].ends_with("rustc") || args[1].contains("/rustc")) {
        args.remove(1);
    }
    let want = std::env::var("MIR_FACTS_CRATE").unwrap_or_default();
    let mut is_target = false;
    let mut i = 0;
    while i < args.len() {
        if args[i] == "--crate-name" && i + 1 < args.len() && args[i + 1] == want {
            is_target = true;
        }
        i += 1;
    }
    // only the library target of the crate (not examples / tests)
    let is_lib = args.iter().any(|a| a == "lib" || a.starts_with("lib,") || a == "--crate-type=lib") || args.windows(2).any(|w| w[0] == "--crate-type" && w[1].contains("lib"));
    if is_target && is_lib {
        rustc_driver::run_compiler(&args, &mut Facts);
    } else {
        struct Nop;
        impl rustc_driver::Callbacks for Nop {}
        rustc_driver::run_compiler(&args, &mut Nop);
    }
}
