//! Conditional compilation: evaluate `#[cfg(..)]`, `#[cfg_attr(..)]` and `cfg!(..)` under ONE stated configuration and
//! leave the program that configuration compiles.
//!
//! * `#[cfg(test)]` (exactly) is not evaluated: such items stay, flagged `test`, as before (the rules ignore them).
//! * every other predicate is evaluated with `test` false (the library as its users and integration tests see it);
//!   an item, field, variant, arm, statement, struct-expression field or parameter whose predicate is false is removed,
//!   a true predicate's attribute is removed, `cfg_attr(p, a, b)` becomes `#[a] #[b]` or nothing, `cfg!(p)` becomes a literal.
//! * every predicate met is recorded (text, value, unknown keys, file, line, what it stood on) and exported, so that the
//!   rule layer knows which configuration keys the source distinguishes and can run once per relevant configuration.

use quote::ToTokens;
use std::collections::BTreeSet;
use syn::punctuated::Punctuated;
use syn::spanned::Spanned;
use syn::visit_mut::{self, VisitMut};
use syn::Token;

#[derive(Clone, Debug)]
pub struct CfgRec {
    pub pred: String,
    pub value: bool,
    pub unknown: Vec<String>,
    pub keys: Vec<String>,
    pub file: String,
    pub line: usize,
    pub on: String,
    pub in_test: bool,
}

#[derive(Clone, Debug, Default)]
pub struct Config {
    /// `key` (value None) or `key = "value"`
    pub set: BTreeSet<(String, Option<String>)>,
}

const KNOWN_KEYS: &[&str] = &[
    "test", "debug_assertions", "target_arch", "target_os", "target_family", "unix", "windows", "target_pointer_width", "target_endian",
    "target_env", "target_vendor", "feature", "panic", "target_has_atomic", "doc", "doctest", "miri", "proc_macro", "overflow_checks",
    "target_feature", "target_abi", "target_thread_local", "ub_checks", "fmt_debug", "relocation_model", "clippy", "rustfmt",
];

impl Config {
    pub fn parse_line(&mut self, line: &str) {
        let line = line.trim();
        if line.is_empty() {
            return;
        }
        if let Some((k, v)) = line.split_once('=') {
            self.set.insert((k.trim().to_string(), Some(v.trim().trim_matches('"').to_string())));
        } else {
            self.set.insert((line.to_string(), None));
        }
    }

    fn eval(&self, m: &syn::Meta, keys: &mut Vec<String>, unknown: &mut Vec<String>) -> bool {
        match m {
            syn::Meta::Path(p) => {
                let k = p.to_token_stream().to_string().replace(' ', "");
                keys.push(k.clone());
                if !KNOWN_KEYS.contains(&k.as_str()) {
                    unknown.push(k.clone());
                }
                self.set.contains(&(k, None))
            }
            syn::Meta::NameValue(nv) => {
                let k = nv.path.to_token_stream().to_string().replace(' ', "");
                keys.push(k.clone());
                if !KNOWN_KEYS.contains(&k.as_str()) {
                    unknown.push(k.clone());
                }
                let v = match &nv.value {
                    syn::Expr::Lit(l) => match &l.lit {
                        syn::Lit::Str(s) => s.value(),
                        other => other.to_token_stream().to_string(),
                    },
                    other => other.to_token_stream().to_string(),
                };
                self.set.contains(&(k, Some(v)))
            }
            syn::Meta::List(l) => {
                let op = l.path.to_token_stream().to_string();
                let inner: Vec<syn::Meta> = l
                    .parse_args_with(Punctuated::<syn::Meta, Token![,]>::parse_terminated)
                    .map(|p| p.into_iter().collect())
                    .unwrap_or_default();
                match op.as_str() {
                    "all" => {
                        let mut r = true;
                        for i in &inner {
                            r &= self.eval(i, keys, unknown);
                        }
                        r
                    }
                    "any" => {
                        let mut r = false;
                        for i in &inner {
                            r |= self.eval(i, keys, unknown);
                        }
                        r
                    }
                    "not" => inner.first().map(|i| !self.eval(i, keys, unknown)).unwrap_or(false),
                    other => {
                        unknown.push(other.to_string());
                        false
                    }
                }
            }
        }
    }
}

pub struct Strip<'a> {
    pub cfg: &'a Config,
    pub file: String,
    pub recs: &'a mut Vec<CfgRec>,
    pub in_test: bool,
}

fn is_plain_test(a: &syn::Attribute) -> bool {
    a.path().is_ident("cfg") && a.meta.to_token_stream().to_string().replace(' ', "") == "cfg(test)"
}

impl<'a> Strip<'a> {
    /// Decide the attributes of one node: None = the node is compiled out; Some(attrs) = the attributes it keeps.
    fn decide(&mut self, attrs: &[syn::Attribute], on: &str) -> Option<Vec<syn::Attribute>> {
        let mut keep = Vec::new();
        let mut alive = true;
        let mut work: Vec<syn::Attribute> = attrs.to_vec();
        work.reverse();
        while let Some(a) = work.pop() {
            if is_plain_test(&a) {
                keep.push(a);
                continue;
            }
            if a.path().is_ident("cfg") {
                if let Ok(m) = a.parse_args::<syn::Meta>() {
                    let (mut keys, mut unknown) = (vec![], vec![]);
                    let v = self.cfg.eval(&m, &mut keys, &mut unknown);
                    self.recs.push(CfgRec {
                        pred: m.to_token_stream().to_string().replace(' ', ""),
                        value: v,
                        unknown,
                        keys,
                        file: self.file.clone(),
                        line: a.span().start().line,
                        on: on.to_string(),
                        in_test: self.in_test,
                    });
                    if !v {
                        alive = false;
                    }
                    continue;
                }
                keep.push(a);
                continue;
            }
            if a.path().is_ident("cfg_attr") {
                if let Ok(parts) = a.parse_args_with(Punctuated::<syn::Meta, Token![,]>::parse_terminated) {
                    let parts: Vec<syn::Meta> = parts.into_iter().collect();
                    if let Some((p, rest)) = parts.split_first() {
                        let (mut keys, mut unknown) = (vec![], vec![]);
                        let v = self.cfg.eval(p, &mut keys, &mut unknown);
                        self.recs.push(CfgRec {
                            pred: p.to_token_stream().to_string().replace(' ', ""),
                            value: v,
                            unknown,
                            keys,
                            file: self.file.clone(),
                            line: a.span().start().line,
                            on: format!("cfg_attr on {on}: {}", rest.iter().map(|r| r.to_token_stream().to_string()).collect::<Vec<_>>().join(", ")),
                            in_test: self.in_test,
                        });
                        if v {
                            for r in rest.iter().rev() {
                                let mut na = a.clone();
                                na.meta = r.clone();
                                work.push(na);
                            }
                        }
                        continue;
                    }
                }
                keep.push(a);
                continue;
            }
            keep.push(a);
        }
        if alive {
            Some(keep)
        } else {
            None
        }
    }

    fn filter_items(&mut self, items: &mut Vec<syn::Item>) {
        let old = std::mem::take(items);
        for mut it in old {
            let name = item_name(&it);
            if let Some(at) = item_attrs(&mut it) {
                match self.decide(&at.clone(), &name) {
                    None => continue,
                    Some(k) => *at = k,
                }
            }
            items.push(it);
        }
    }
}

fn item_name(it: &syn::Item) -> String {
    match it {
        syn::Item::Const(x) => format!("const {}", x.ident),
        syn::Item::Enum(x) => format!("enum {}", x.ident),
        syn::Item::Fn(x) => format!("fn {}", x.sig.ident),
        syn::Item::Impl(x) => format!("impl {}", x.self_ty.to_token_stream().to_string().replace(' ', "")),
        syn::Item::Macro(x) => format!("macro {}", x.ident.as_ref().map(|i| i.to_string()).unwrap_or_else(|| x.mac.path.to_token_stream().to_string())),
        syn::Item::Mod(x) => format!("mod {}", x.ident),
        syn::Item::Static(x) => format!("static {}", x.ident),
        syn::Item::Struct(x) => format!("struct {}", x.ident),
        syn::Item::Trait(x) => format!("trait {}", x.ident),
        syn::Item::Type(x) => format!("type {}", x.ident),
        syn::Item::Use(x) => format!("use {}", x.tree.to_token_stream().to_string().replace(' ', "")),
        syn::Item::ExternCrate(x) => format!("extern crate {}", x.ident),
        _ => "item".to_string(),
    }
}

fn item_attrs(it: &mut syn::Item) -> Option<&mut Vec<syn::Attribute>> {
    Some(match it {
        syn::Item::Const(x) => &mut x.attrs,
        syn::Item::Enum(x) => &mut x.attrs,
        syn::Item::ExternCrate(x) => &mut x.attrs,
        syn::Item::Fn(x) => &mut x.attrs,
        syn::Item::ForeignMod(x) => &mut x.attrs,
        syn::Item::Impl(x) => &mut x.attrs,
        syn::Item::Macro(x) => &mut x.attrs,
        syn::Item::Mod(x) => &mut x.attrs,
        syn::Item::Static(x) => &mut x.attrs,
        syn::Item::Struct(x) => &mut x.attrs,
        syn::Item::Trait(x) => &mut x.attrs,
        syn::Item::TraitAlias(x) => &mut x.attrs,
        syn::Item::Type(x) => &mut x.attrs,
        syn::Item::Union(x) => &mut x.attrs,
        syn::Item::Use(x) => &mut x.attrs,
        _ => return None,
    })
}

fn expr_attrs(e: &mut syn::Expr) -> Option<&mut Vec<syn::Attribute>> {
    use syn::Expr::*;
    Some(match e {
        Array(x) => &mut x.attrs,
        Assign(x) => &mut x.attrs,
        Async(x) => &mut x.attrs,
        Await(x) => &mut x.attrs,
        Binary(x) => &mut x.attrs,
        Block(x) => &mut x.attrs,
        Break(x) => &mut x.attrs,
        Call(x) => &mut x.attrs,
        Cast(x) => &mut x.attrs,
        Closure(x) => &mut x.attrs,
        Const(x) => &mut x.attrs,
        Continue(x) => &mut x.attrs,
        Field(x) => &mut x.attrs,
        ForLoop(x) => &mut x.attrs,
        Group(x) => &mut x.attrs,
        If(x) => &mut x.attrs,
        Index(x) => &mut x.attrs,
        Infer(x) => &mut x.attrs,
        Let(x) => &mut x.attrs,
        Lit(x) => &mut x.attrs,
        Loop(x) => &mut x.attrs,
        Macro(x) => &mut x.attrs,
        Match(x) => &mut x.attrs,
        MethodCall(x) => &mut x.attrs,
        Paren(x) => &mut x.attrs,
        Path(x) => &mut x.attrs,
        Range(x) => &mut x.attrs,
        Reference(x) => &mut x.attrs,
        Repeat(x) => &mut x.attrs,
        Return(x) => &mut x.attrs,
        Struct(x) => &mut x.attrs,
        Try(x) => &mut x.attrs,
        TryBlock(x) => &mut x.attrs,
        Tuple(x) => &mut x.attrs,
        Unary(x) => &mut x.attrs,
        Unsafe(x) => &mut x.attrs,
        While(x) => &mut x.attrs,
        Yield(x) => &mut x.attrs,
        _ => return None,
    })
}

macro_rules! filter_punct {
    ($self:ident, $p:expr, $on:expr) => {{
        let old = std::mem::take($p);
        for mut x in old.into_iter() {
            match $self.decide(&x.attrs.clone(), $on) {
                None => continue,
                Some(k) => x.attrs = k,
            }
            $p.push(x);
        }
    }};
}

impl<'a> VisitMut for Strip<'a> {
    fn visit_file_mut(&mut self, f: &mut syn::File) {
        self.filter_items(&mut f.items);
        visit_mut::visit_file_mut(self, f);
    }

    fn visit_item_mod_mut(&mut self, m: &mut syn::ItemMod) {
        let was = self.in_test;
        if m.attrs.iter().any(is_plain_test) {
            self.in_test = true;
        }
        if let Some((_, items)) = &mut m.content {
            self.filter_items(items);
        }
        visit_mut::visit_item_mod_mut(self, m);
        self.in_test = was;
    }

    fn visit_item_fn_mut(&mut self, f: &mut syn::ItemFn) {
        let was = self.in_test;
        if f.attrs.iter().any(|a| is_plain_test(a) || a.path().is_ident("test")) {
            self.in_test = true;
        }
        visit_mut::visit_item_fn_mut(self, f);
        self.in_test = was;
    }

    fn visit_item_impl_mut(&mut self, im: &mut syn::ItemImpl) {
        let old = std::mem::take(&mut im.items);
        for mut it in old {
            let (attrs, name): (Option<&mut Vec<syn::Attribute>>, String) = match &mut it {
                syn::ImplItem::Const(x) => (Some(&mut x.attrs), format!("const {}", x.ident)),
                syn::ImplItem::Fn(x) => (Some(&mut x.attrs), format!("fn {}", x.sig.ident)),
                syn::ImplItem::Type(x) => (Some(&mut x.attrs), format!("type {}", x.ident)),
                syn::ImplItem::Macro(x) => (Some(&mut x.attrs), "macro".to_string()),
                _ => (None, String::new()),
            };
            if let Some(at) = attrs {
                match self.decide(&at.clone(), &name) {
                    None => continue,
                    Some(k) => *at = k,
                }
            }
            im.items.push(it);
        }
        visit_mut::visit_item_impl_mut(self, im);
    }

    fn visit_item_trait_mut(&mut self, tr: &mut syn::ItemTrait) {
        let old = std::mem::take(&mut tr.items);
        for mut it in old {
            let (attrs, name): (Option<&mut Vec<syn::Attribute>>, String) = match &mut it {
                syn::TraitItem::Const(x) => (Some(&mut x.attrs), format!("const {}", x.ident)),
                syn::TraitItem::Fn(x) => (Some(&mut x.attrs), format!("fn {}", x.sig.ident)),
                syn::TraitItem::Type(x) => (Some(&mut x.attrs), format!("type {}", x.ident)),
                syn::TraitItem::Macro(x) => (Some(&mut x.attrs), "macro".to_string()),
                _ => (None, String::new()),
            };
            if let Some(at) = attrs {
                match self.decide(&at.clone(), &name) {
                    None => continue,
                    Some(k) => *at = k,
                }
            }
            tr.items.push(it);
        }
        visit_mut::visit_item_trait_mut(self, tr);
    }

    fn visit_fields_named_mut(&mut self, f: &mut syn::FieldsNamed) {
        filter_punct!(self, &mut f.named, "field");
        visit_mut::visit_fields_named_mut(self, f);
    }

    fn visit_fields_unnamed_mut(&mut self, f: &mut syn::FieldsUnnamed) {
        filter_punct!(self, &mut f.unnamed, "field");
        visit_mut::visit_fields_unnamed_mut(self, f);
    }

    fn visit_item_enum_mut(&mut self, e: &mut syn::ItemEnum) {
        filter_punct!(self, &mut e.variants, "variant");
        visit_mut::visit_item_enum_mut(self, e);
    }

    fn visit_expr_struct_mut(&mut self, e: &mut syn::ExprStruct) {
        filter_punct!(self, &mut e.fields, "field value");
        visit_mut::visit_expr_struct_mut(self, e);
    }

    fn visit_expr_match_mut(&mut self, e: &mut syn::ExprMatch) {
        let old = std::mem::take(&mut e.arms);
        for mut a in old {
            match self.decide(&a.attrs.clone(), "match arm") {
                None => continue,
                Some(k) => a.attrs = k,
            }
            e.arms.push(a);
        }
        visit_mut::visit_expr_match_mut(self, e);
    }

    fn visit_signature_mut(&mut self, s: &mut syn::Signature) {
        let old = std::mem::take(&mut s.inputs);
        for mut a in old.into_iter() {
            let at = match &mut a {
                syn::FnArg::Receiver(r) => &mut r.attrs,
                syn::FnArg::Typed(t) => &mut t.attrs,
            };
            match self.decide(&at.clone(), "parameter") {
                None => continue,
                Some(k) => *at = k,
            }
            s.inputs.push(a);
        }
        visit_mut::visit_signature_mut(self, s);
    }

    fn visit_block_mut(&mut self, b: &mut syn::Block) {
        let old = std::mem::take(&mut b.stmts);
        for mut st in old {
            let dead = match &mut st {
                syn::Stmt::Local(l) => match self.decide(&l.attrs.clone(), "let statement") {
                    None => true,
                    Some(k) => {
                        l.attrs = k;
                        false
                    }
                },
                syn::Stmt::Item(it) => {
                    let name = item_name(it);
                    match item_attrs(it) {
                        Some(at) => match self.decide(&at.clone(), &name) {
                            None => true,
                            Some(k) => {
                                *at = k;
                                false
                            }
                        },
                        None => false,
                    }
                }
                syn::Stmt::Expr(e, _) => match expr_attrs(e) {
                    Some(at) => match self.decide(&at.clone(), "statement") {
                        None => true,
                        Some(k) => {
                            *at = k;
                            false
                        }
                    },
                    None => false,
                },
                syn::Stmt::Macro(m) => match self.decide(&m.attrs.clone(), "macro statement") {
                    None => true,
                    Some(k) => {
                        m.attrs = k;
                        false
                    }
                },
            };
            if !dead {
                b.stmts.push(st);
            }
        }
        visit_mut::visit_block_mut(self, b);
    }

    fn visit_expr_mut(&mut self, e: &mut syn::Expr) {
        visit_mut::visit_expr_mut(self, e);
        // an attribute on an expression that is not a statement (a call argument, a tuple element): a false predicate cannot be
        // expressed by removal here; record it as not evaluated (unknown) so that the rule layer fails closed
        if let syn::Expr::Macro(m) = e {
            if m.mac.path.is_ident("cfg") {
                if let Ok(meta) = m.mac.parse_body::<syn::Meta>() {
                    let (mut keys, mut unknown) = (vec![], vec![]);
                    let v = self.cfg.eval(&meta, &mut keys, &mut unknown);
                    self.recs.push(CfgRec {
                        pred: meta.to_token_stream().to_string().replace(' ', ""),
                        value: v,
                        unknown,
                        keys,
                        file: self.file.clone(),
                        line: m.span().start().line,
                        on: "cfg!".to_string(),
                        in_test: self.in_test,
                    });
                    let lit: syn::Expr = if v { syn::parse_quote!(true) } else { syn::parse_quote!(false) };
                    *e = lit;
                }
            }
        }
    }
}
