//! E1 — ast-extract: faithful Rust-syntax → JSON translation of a crate's source tree.
//!
//! * walks the module tree from `src/lib.rs` (fails if a `mod x;` file is missing),
//! * keeps *both* arms of every `cfg` split (attributes are exported, nothing is evaluated),
//! * expands the crate's own simple `macro_rules!` (all-`$x:expr` arms, selected by arity) with the
//!   definitions found in the source, and parses the arguments of `format!`-like macros,
//!   `matches!`, `vec!`; everything else is exported with its raw tokens,
//! * attaches a line number to every node (information only; rules never key on it).
//!
//! The analyses themselves live in the python rule layer (`/verif/vlib`).

mod cfgstrip;

use proc_macro2::{Delimiter, Group, TokenStream, TokenTree};
use syn::visit_mut::VisitMut;
use quote::ToTokens;
use std::collections::BTreeMap;
use std::fmt::Write as _;
use std::path::{Path, PathBuf};
use syn::punctuated::Punctuated;
use syn::spanned::Spanned;
use syn::Token;

// ------------------------------------------------------------------ JSON
#[derive(Clone, Debug)]
enum J {
    Null,
    Bool(bool),
    Num(String),
    Str(String),
    Arr(Vec<J>),
    Obj(Vec<(&'static str, J)>),
}

fn s<T: AsRef<str>>(x: T) -> J {
    J::Str(x.as_ref().to_string())
}

impl J {
    fn write(&self, out: &mut String) {
        match self {
            J::Null => out.push_str("null"),
            J::Bool(b) => out.push_str(if *b { "true" } else { "false" }),
            J::Num(n) => out.push_str(n),
            J::Str(st) => {
                out.push('"');
                for c in st.chars() {
                    match c {
                        '"' => out.push_str("\\\""),
                        '\\' => out.push_str("\\\\"),
                        '\n' => out.push_str("\\n"),
                        '\r' => out.push_str("\\r"),
                        '\t' => out.push_str("\\t"),
                        c if (c as u32) < 0x20 => {
                            let _ = write!(out, "\\u{:04x}", c as u32);
                        }
                        c => out.push(c),
                    }
                }
                out.push('"');
            }
            J::Arr(v) => {
                out.push('[');
                for (i, e) in v.iter().enumerate() {
                    if i > 0 {
                        out.push(',');
                    }
                    e.write(out);
                }
                out.push(']');
            }
            J::Obj(v) => {
                out.push('{');
                for (i, (k, e)) in v.iter().enumerate() {
                    if i > 0 {
                        out.push(',');
                    }
                    let _ = write!(out, "\"{}\":", k);
                    e.write(out);
                }
                out.push('}');
            }
        }
    }
}

fn toks<T: ToTokens>(t: &T) -> String {
    // canonical token string without the spaces proc-macro2 inserts
    let raw = t.to_token_stream().to_string();
    compact(&raw)
}

fn compact(raw: &str) -> String {
    // remove spaces except between two identifier characters
    let cs: Vec<char> = raw.chars().collect();
    let mut out = String::new();
    let isid = |c: char| c.is_alphanumeric() || c == '_' || c == '\'' || c == '"';
    for i in 0..cs.len() {
        if cs[i] == ' ' {
            let p = if i > 0 { cs[i - 1] } else { ' ' };
            let n = if i + 1 < cs.len() { cs[i + 1] } else { ' ' };
            if isid(p) && isid(n) {
                out.push(' ');
            }
        } else {
            out.push(cs[i]);
        }
    }
    out
}

fn line<T: Spanned>(t: &T) -> J {
    J::Num(t.span().start().line.to_string())
}

// ------------------------------------------------------------------ macro_rules
#[derive(Clone)]
struct MacroArm {
    params: Vec<String>, // all `$x:expr`, comma separated
    body: TokenStream,
}
#[derive(Clone, Default)]
struct MacroDef {
    arms: Vec<MacroArm>,
    simple: bool,
    raw: String,
    general: Option<Vec<GenArm>>,
}

struct Ctx {
    macros: BTreeMap<String, MacroDef>,
    depth: usize,
    config: cfgstrip::Config,
    recs: Vec<cfgstrip::CfgRec>,
    cur_file: String,
    cur_test: bool,
}

impl Ctx {
    /// code that only exists after macro expansion is conditionally compiled like any other
    fn strip_expr(&mut self, e: &mut syn::Expr) {
        let cfg = self.config.clone();
        let mut st = cfgstrip::Strip { cfg: &cfg, file: self.cur_file.clone(), recs: &mut self.recs, in_test: self.cur_test };
        st.visit_expr_mut(e);
    }
    fn strip_block(&mut self, b: &mut syn::Block) {
        let cfg = self.config.clone();
        let mut st = cfgstrip::Strip { cfg: &cfg, file: self.cur_file.clone(), recs: &mut self.recs, in_test: self.cur_test };
        st.visit_block_mut(b);
    }
    fn strip_file(&mut self, f: &mut syn::File) {
        let cfg = self.config.clone();
        let mut st = cfgstrip::Strip { cfg: &cfg, file: self.cur_file.clone(), recs: &mut self.recs, in_test: self.cur_test };
        st.visit_file_mut(f);
    }
}

fn parse_macro_rules(ts: TokenStream) -> MacroDef {
    // ( pattern ) => { body } ; ...
    let mut def = MacroDef { arms: vec![], simple: true, raw: compact(&ts.to_string()), general: parse_general_arms(ts.clone()) };
    let tts: Vec<TokenTree> = ts.into_iter().collect();
    let mut i = 0;
    while i < tts.len() {
        let pat = match &tts[i] {
            TokenTree::Group(g) => g.clone(),
            _ => {
                def.simple = false;
                return def;
            }
        };
        // => is two puncts
        if i + 3 >= tts.len() + 0 && i + 3 > tts.len() {
            def.simple = false;
            return def;
        }
        let body = match tts.get(i + 3) {
            Some(TokenTree::Group(g)) => g.clone(),
            _ => {
                def.simple = false;
                return def;
            }
        };
        i += 4;
        if let Some(TokenTree::Punct(p)) = tts.get(i) {
            if p.as_char() == ';' {
                i += 1;
            }
        }
        // pattern: $a:expr, $b:expr ...
        let mut params = vec![];
        let pt: Vec<TokenTree> = pat.stream().into_iter().collect();
        let mut k = 0;
        let mut ok = true;
        while k < pt.len() {
            match (&pt.get(k), &pt.get(k + 1), &pt.get(k + 2), &pt.get(k + 3)) {
                (
                    Some(TokenTree::Punct(d)),
                    Some(TokenTree::Ident(name)),
                    Some(TokenTree::Punct(c)),
                    Some(TokenTree::Ident(frag)),
                ) if d.as_char() == '$' && c.as_char() == ':' && frag == "expr" => {
                    params.push(name.to_string());
                    k += 4;
                    if let Some(TokenTree::Punct(p)) = pt.get(k) {
                        if p.as_char() == ',' {
                            k += 1;
                        } else {
                            ok = false;
                            break;
                        }
                    }
                }
                _ => {
                    ok = false;
                    break;
                }
            }
        }
        if !ok {
            def.simple = false;
            return def;
        }
        def.arms.push(MacroArm { params, body: body.stream() });
    }
    def
}

// ------------------------------------------------------------------ general macro-by-example
// Used when the arity-selected all-`expr` fast path does not apply: matchers with fragments of any kind, literal tokens,
// nested groups and `$( … ) sep rep` repetitions; the first arm that matches the whole input is transcribed.
#[derive(Clone, Debug)]
enum Mt {
    Tok(TokenTree),
    Group(Delimiter, Vec<Mt>),
    Var(String, String),
    Rep(Vec<Mt>, Option<TokenTree>, char),
}

#[derive(Clone, Debug)]
enum Bind {
    Leaf(TokenStream),
    Seq(Vec<BTreeMap<String, Bind>>),
}

#[derive(Clone)]
struct GenArm {
    matcher: Vec<Mt>,
    body: TokenStream,
}

fn parse_matcher(ts: TokenStream) -> Option<Vec<Mt>> {
    let tts: Vec<TokenTree> = ts.into_iter().collect();
    let mut out = vec![];
    let mut i = 0;
    while i < tts.len() {
        match &tts[i] {
            TokenTree::Punct(p) if p.as_char() == '$' => match tts.get(i + 1) {
                Some(TokenTree::Ident(name)) => {
                    // $name:frag
                    match (tts.get(i + 2), tts.get(i + 3)) {
                        (Some(TokenTree::Punct(c)), Some(TokenTree::Ident(frag))) if c.as_char() == ':' => {
                            out.push(Mt::Var(name.to_string(), frag.to_string()));
                            i += 4;
                        }
                        _ => return None,
                    }
                }
                Some(TokenTree::Group(g)) if g.delimiter() == Delimiter::Parenthesis => {
                    let inner = parse_matcher(g.stream())?;
                    // optional separator, then the repetition operator
                    let mut k = i + 2;
                    let mut sep = None;
                    let is_op = |t: Option<&TokenTree>| matches!(t, Some(TokenTree::Punct(p)) if matches!(p.as_char(), '*' | '+' | '?'));
                    if !is_op(tts.get(k)) || (is_op(tts.get(k)) && is_op(tts.get(k + 1)) && !matches!(tts.get(k), Some(TokenTree::Punct(p)) if p.as_char() == '?')) {
                        if !is_op(tts.get(k)) {
                            sep = tts.get(k).cloned();
                            k += 1;
                        }
                    }
                    let op = match tts.get(k) {
                        Some(TokenTree::Punct(p)) if matches!(p.as_char(), '*' | '+' | '?') => p.as_char(),
                        _ => return None,
                    };
                    out.push(Mt::Rep(inner, sep, op));
                    i = k + 1;
                }
                _ => return None,
            },
            TokenTree::Group(g) => {
                out.push(Mt::Group(g.delimiter(), parse_matcher(g.stream())?));
                i += 1;
            }
            t => {
                out.push(Mt::Tok(t.clone()));
                i += 1;
            }
        }
    }
    Some(out)
}

fn parse_general_arms(ts: TokenStream) -> Option<Vec<GenArm>> {
    let tts: Vec<TokenTree> = ts.into_iter().collect();
    let mut arms = vec![];
    let mut i = 0;
    while i < tts.len() {
        let pat = match &tts[i] {
            TokenTree::Group(g) => g.clone(),
            _ => return None,
        };
        match (tts.get(i + 1), tts.get(i + 2)) {
            (Some(TokenTree::Punct(a)), Some(TokenTree::Punct(b))) if a.as_char() == '=' && b.as_char() == '>' => {}
            _ => return None,
        }
        let body = match tts.get(i + 3) {
            Some(TokenTree::Group(g)) => g.clone(),
            _ => return None,
        };
        i += 4;
        if let Some(TokenTree::Punct(p)) = tts.get(i) {
            if p.as_char() == ';' {
                i += 1;
            }
        }
        arms.push(GenArm { matcher: parse_matcher(pat.stream())?, body: body.stream() });
    }
    Some(arms)
}

fn tok_eq(a: &TokenTree, b: &TokenTree) -> bool {
    match (a, b) {
        (TokenTree::Punct(x), TokenTree::Punct(y)) => x.as_char() == y.as_char(),
        (TokenTree::Ident(x), TokenTree::Ident(y)) => x == y,
        (TokenTree::Literal(x), TokenTree::Literal(y)) => x.to_string() == y.to_string(),
        _ => false,
    }
}

fn parse_frag(frag: &str, input: syn::parse::ParseStream) -> syn::Result<TokenStream> {
    use syn::ext::IdentExt;
    Ok(match frag {
        "expr" => input.parse::<syn::Expr>()?.to_token_stream(),
        "ty" => input.parse::<syn::Type>()?.to_token_stream(),
        "ident" => input.call(syn::Ident::parse_any)?.to_token_stream(),
        "path" => input.parse::<syn::Path>()?.to_token_stream(),
        "pat" => syn::Pat::parse_multi_with_leading_vert(input)?.to_token_stream(),
        "pat_param" => syn::Pat::parse_single(input)?.to_token_stream(),
        "literal" => {
            let neg: Option<Token![-]> = input.parse()?;
            let l: syn::Lit = input.parse()?;
            let mut t = TokenStream::new();
            neg.to_tokens(&mut t);
            l.to_tokens(&mut t);
            t
        }
        "tt" => input.parse::<TokenTree>()?.to_token_stream(),
        "meta" => input.parse::<syn::Meta>()?.to_token_stream(),
        "block" => input.parse::<syn::Block>()?.to_token_stream(),
        "item" => input.parse::<syn::Item>()?.to_token_stream(),
        "stmt" => input.parse::<syn::Stmt>()?.to_token_stream(),
        "vis" => input.parse::<syn::Visibility>()?.to_token_stream(),
        "lifetime" => input.parse::<syn::Lifetime>()?.to_token_stream(),
        _ => return Err(input.error("unknown fragment")),
    })
}

fn match_seq(ms: &[Mt], input: syn::parse::ParseStream, b: &mut BTreeMap<String, Bind>) -> syn::Result<()> {
    use syn::parse::discouraged::Speculative;
    for (idx, m) in ms.iter().enumerate() {
        match m {
            Mt::Tok(t) => {
                let got: TokenTree = input.parse()?;
                if !tok_eq(t, &got) {
                    return Err(syn::Error::new(got.span(), "token mismatch"));
                }
            }
            Mt::Group(d, inner) => {
                let got: TokenTree = input.parse()?;
                match got {
                    TokenTree::Group(g) if g.delimiter() == *d => {
                        let mut bb = BTreeMap::new();
                        syn::parse::Parser::parse2(
                            |i2: syn::parse::ParseStream| {
                                match_seq(inner, i2, &mut bb)?;
                                if !i2.is_empty() {
                                    return Err(i2.error("trailing tokens"));
                                }
                                Ok(())
                            },
                            g.stream(),
                        )?;
                        b.extend(bb);
                    }
                    other => return Err(syn::Error::new(other.span(), "group mismatch")),
                }
            }
            Mt::Var(name, frag) => {
                let t = parse_frag(frag, input)?;
                b.insert(name.clone(), Bind::Leaf(t));
            }
            Mt::Rep(inner, sep, op) => {
                let mut rounds: Vec<BTreeMap<String, Bind>> = vec![];
                loop {
                    if *op == '?' && rounds.len() == 1 {
                        break;
                    }
                    if input.is_empty() {
                        break;
                    }
                    let fork = input.fork();
                    if !rounds.is_empty() {
                        if let Some(sp) = sep {
                            match fork.parse::<TokenTree>() {
                                Ok(got) if tok_eq(sp, &got) => {}
                                _ => break,
                            }
                        }
                    }
                    let mut bb = BTreeMap::new();
                    if match_seq(inner, &fork, &mut bb).is_err() {
                        break;
                    }
                    // the rest of the matcher must still be able to match: a one-round look-ahead is enough for the
                    // macros of one crate, and a wrong guess only makes this arm fail (never a wrong expansion)
                    let _ = idx;
                    input.advance_to(&fork);
                    rounds.push(bb);
                }
                if *op == '+' && rounds.is_empty() {
                    return Err(input.error("repetition needs one round"));
                }
                // every variable of the repetition is bound (to an empty sequence when there was no round)
                let mut names = vec![];
                collect_vars(inner, &mut names);
                for n in names {
                    b.insert(n, Bind::Seq(rounds.clone()));
                }
            }
        }
    }
    Ok(())
}

fn collect_vars(ms: &[Mt], out: &mut Vec<String>) {
    for m in ms {
        match m {
            Mt::Var(n, _) => out.push(n.clone()),
            Mt::Group(_, i) | Mt::Rep(i, _, _) => collect_vars(i, out),
            Mt::Tok(_) => {}
        }
    }
}

fn transcribe(body: TokenStream, b: &BTreeMap<String, Bind>) -> Option<TokenStream> {
    let tts: Vec<TokenTree> = body.into_iter().collect();
    let mut out = TokenStream::new();
    let mut i = 0;
    while i < tts.len() {
        match &tts[i] {
            TokenTree::Punct(p) if p.as_char() == '$' => match tts.get(i + 1) {
                Some(TokenTree::Ident(id)) => {
                    let name = id.to_string();
                    if name == "crate" {
                        out.extend(std::iter::once(TokenTree::Ident(proc_macro2::Ident::new("crate", id.span()))));
                    } else {
                        match b.get(&name) {
                            Some(Bind::Leaf(t)) => {
                                out.extend(std::iter::once(TokenTree::Group(Group::new(Delimiter::None, t.clone()))));
                            }
                            _ => return None,
                        }
                    }
                    i += 2;
                }
                Some(TokenTree::Group(g)) if g.delimiter() == Delimiter::Parenthesis => {
                    let mut k = i + 2;
                    let mut sep: Option<TokenTree> = None;
                    let is_op = |t: Option<&TokenTree>| matches!(t, Some(TokenTree::Punct(p)) if matches!(p.as_char(), '*' | '+' | '?'));
                    if !is_op(tts.get(k)) {
                        sep = tts.get(k).cloned();
                        k += 1;
                    }
                    if !is_op(tts.get(k)) {
                        return None;
                    }
                    // the sequence variables used inside drive the repetition
                    let mut used = vec![];
                    vars_used(g.stream(), &mut used);
                    let mut rounds: Option<&Vec<BTreeMap<String, Bind>>> = None;
                    for u in &used {
                        if let Some(Bind::Seq(r)) = b.get(u) {
                            rounds = Some(r);
                            break;
                        }
                    }
                    let rounds = rounds?;
                    for (ri, r) in rounds.iter().enumerate() {
                        if ri > 0 {
                            if let Some(sp) = &sep {
                                out.extend(std::iter::once(sp.clone()));
                            }
                        }
                        let mut bb = b.clone();
                        for (k2, v2) in r {
                            bb.insert(k2.clone(), v2.clone());
                        }
                        out.extend(transcribe(g.stream(), &bb)?);
                    }
                    i = k + 1;
                }
                _ => {
                    out.extend(std::iter::once(tts[i].clone()));
                    i += 1;
                }
            },
            TokenTree::Group(g) => {
                let mut ng = Group::new(g.delimiter(), transcribe(g.stream(), b)?);
                ng.set_span(g.span());
                out.extend(std::iter::once(TokenTree::Group(ng)));
                i += 1;
            }
            t => {
                out.extend(std::iter::once(t.clone()));
                i += 1;
            }
        }
    }
    Some(out)
}

fn vars_used(ts: TokenStream, out: &mut Vec<String>) {
    let tts: Vec<TokenTree> = ts.into_iter().collect();
    for (i, t) in tts.iter().enumerate() {
        match t {
            TokenTree::Punct(p) if p.as_char() == '$' => {
                if let Some(TokenTree::Ident(id)) = tts.get(i + 1) {
                    out.push(id.to_string());
                }
            }
            TokenTree::Group(g) => vars_used(g.stream(), out),
            _ => {}
        }
    }
}

/// Expansion of a call of one of the crate's own macros by the general engine; None when no arm matches.
fn expand_general(def: &MacroDef, tokens: TokenStream) -> Option<TokenStream> {
    let arms = def.general.as_ref()?;
    for arm in arms {
        let mut b = BTreeMap::new();
        let ok = syn::parse::Parser::parse2(
            |input: syn::parse::ParseStream| {
                match_seq(&arm.matcher, input, &mut b)?;
                if !input.is_empty() {
                    return Err(input.error("trailing tokens"));
                }
                Ok(())
            },
            tokens.clone(),
        )
        .is_ok();
        if ok {
            return transcribe(arm.body.clone(), &b);
        }
    }
    None
}

fn substitute(body: TokenStream, map: &BTreeMap<String, TokenStream>) -> TokenStream {
    let mut out = TokenStream::new();
    let tts: Vec<TokenTree> = body.into_iter().collect();
    let mut i = 0;
    while i < tts.len() {
        match &tts[i] {
            TokenTree::Punct(p) if p.as_char() == '$' => {
                if let Some(TokenTree::Ident(id)) = tts.get(i + 1) {
                    if let Some(rep) = map.get(&id.to_string()) {
                        let g = Group::new(Delimiter::None, rep.clone());
                        out.extend(std::iter::once(TokenTree::Group(g)));
                        i += 2;
                        continue;
                    }
                }
                out.extend(std::iter::once(tts[i].clone()));
                i += 1;
            }
            TokenTree::Group(g) => {
                let mut ng = Group::new(g.delimiter(), substitute(g.stream(), map));
                ng.set_span(g.span());
                out.extend(std::iter::once(TokenTree::Group(ng)));
                i += 1;
            }
            t => {
                out.extend(std::iter::once(t.clone()));
                i += 1;
            }
        }
    }
    out
}

// ------------------------------------------------------------------ conversion
fn attrs_j(attrs: &[syn::Attribute]) -> J {
    J::Arr(
        attrs
            .iter()
            .filter(|a| !a.path().is_ident("doc"))
            .map(|a| s(toks(&a.meta)))
            .collect(),
    )
}

fn docs_j(attrs: &[syn::Attribute]) -> J {
    let mut out = vec![];
    for a in attrs {
        if a.path().is_ident("doc") {
            if let syn::Meta::NameValue(nv) = &a.meta {
                if let syn::Expr::Lit(l) = &nv.value {
                    if let syn::Lit::Str(st) = &l.lit {
                        out.push(s(st.value()));
                    }
                }
            }
        }
    }
    J::Arr(out)
}

fn is_test(attrs: &[syn::Attribute]) -> bool {
    attrs.iter().any(|a| {
        let t = toks(&a.meta);
        t == "test" || t == "cfg(test)"
    })
}

fn vis_j(v: &syn::Visibility) -> J {
    s(match v {
        syn::Visibility::Public(_) => "pub".to_string(),
        syn::Visibility::Restricted(r) => format!("pub({})", toks(&r.path)),
        syn::Visibility::Inherited => "".to_string(),
    })
}

fn path_j(p: &syn::Path, qself: Option<&syn::QSelf>) -> Vec<(&'static str, J)> {
    let mut segs = vec![];
    let mut gens = vec![];
    for sg in &p.segments {
        segs.push(s(sg.ident.to_string()));
        let mut g = vec![];
        match &sg.arguments {
            syn::PathArguments::AngleBracketed(a) => {
                for ga in &a.args {
                    g.push(s(toks(ga)));
                }
            }
            syn::PathArguments::Parenthesized(a) => g.push(s(toks(a))),
            syn::PathArguments::None => {}
        }
        gens.push(J::Arr(g));
    }
    vec![
        ("segs", J::Arr(segs)),
        ("gen", J::Arr(gens)),
        ("qself", qself.map(|q| s(toks(&q.ty))).unwrap_or(J::Null)),
        ("global", J::Bool(p.leading_colon.is_some())),
    ]
}

fn lit_j(l: &syn::Lit) -> Vec<(&'static str, J)> {
    match l {
        syn::Lit::Str(v) => vec![("t", s("str")), ("v", s(v.value()))],
        syn::Lit::ByteStr(v) => vec![("t", s("bytestr")), ("v", s(String::from_utf8_lossy(&v.value())))],
        syn::Lit::Byte(v) => vec![("t", s("byte")), ("v", J::Num(v.value().to_string()))],
        syn::Lit::Char(v) => vec![("t", s("char")), ("v", s(v.value().to_string()))],
        syn::Lit::Int(v) => vec![
            ("t", s("int")),
            ("v", J::Num(v.base10_digits().to_string())),
            ("suffix", s(v.suffix())),
            ("src", s(v.to_string())),
        ],
        syn::Lit::Float(v) => vec![("t", s("float")), ("v", s(v.base10_digits())), ("suffix", s(v.suffix()))],
        syn::Lit::Bool(v) => vec![("t", s("bool")), ("v", J::Bool(v.value))],
        other => vec![("t", s("other")), ("v", s(toks(other)))],
    }
}

fn obj(k: &'static str, l: J, mut rest: Vec<(&'static str, J)>) -> J {
    let mut v = vec![("k", s(k)), ("l", l)];
    v.append(&mut rest);
    J::Obj(v)
}

fn pat_j(p: &syn::Pat, cx: &mut Ctx) -> J {
    let l = line(p);
    match p {
        syn::Pat::Ident(i) => obj(
            "ident",
            l,
            vec![
                ("name", s(i.ident.to_string())),
                ("by_ref", J::Bool(i.by_ref.is_some())),
                ("mut", J::Bool(i.mutability.is_some())),
                ("sub", i.subpat.as_ref().map(|(_, p)| pat_j(p, cx)).unwrap_or(J::Null)),
            ],
        ),
        syn::Pat::Wild(_) => obj("wild", l, vec![]),
        syn::Pat::Rest(_) => obj("rest", l, vec![]),
        syn::Pat::Tuple(t) => obj("tuple", l, vec![("elems", J::Arr(t.elems.iter().map(|e| pat_j(e, cx)).collect()))]),
        syn::Pat::TupleStruct(t) => {
            let mut v = path_j(&t.path, t.qself.as_ref());
            v.push(("elems", J::Arr(t.elems.iter().map(|e| pat_j(e, cx)).collect())));
            obj("tstruct", l, v)
        }
        syn::Pat::Path(pp) => obj("path", l, path_j(&pp.path, pp.qself.as_ref())),
        syn::Pat::Struct(st) => {
            let mut v = path_j(&st.path, st.qself.as_ref());
            v.push((
                "fields",
                J::Arr(
                    st.fields
                        .iter()
                        .map(|f| J::Obj(vec![("name", s(toks(&f.member))), ("pat", pat_j(&f.pat, cx))]))
                        .collect(),
                ),
            ));
            v.push(("rest", J::Bool(st.rest.is_some())));
            obj("struct", l, v)
        }
        syn::Pat::Lit(e) => obj("lit", l, lit_j(&e.lit)),
        syn::Pat::Or(o) => obj("or", l, vec![("cases", J::Arr(o.cases.iter().map(|c| pat_j(c, cx)).collect()))]),
        syn::Pat::Reference(r) => obj("ref", l, vec![("pat", pat_j(&r.pat, cx)), ("mut", J::Bool(r.mutability.is_some()))]),
        syn::Pat::Paren(pp) => pat_j(&pp.pat, cx),
        syn::Pat::Type(t) => obj("typed", l, vec![("pat", pat_j(&t.pat, cx)), ("ty", s(toks(&t.ty)))]),
        syn::Pat::Slice(sl) => obj("slice", l, vec![("elems", J::Arr(sl.elems.iter().map(|e| pat_j(e, cx)).collect()))]),
        syn::Pat::Range(r) => obj("range", l, vec![("src", s(toks(r)))]),
        other => obj("opaque", l, vec![("src", s(toks(other)))]),
    }
}

fn block_j(b: &syn::Block, cx: &mut Ctx) -> J {
    let mut stmts = vec![];
    for st in &b.stmts {
        stmts.push(stmt_j(st, cx));
    }
    obj("block", line(b), vec![("stmts", J::Arr(stmts))])
}

fn stmt_j(st: &syn::Stmt, cx: &mut Ctx) -> J {
    match st {
        syn::Stmt::Local(lc) => {
            let (init, els) = match &lc.init {
                Some(i) => (expr_j(&i.expr, cx), i.diverge.as_ref().map(|(_, e)| expr_j(e, cx)).unwrap_or(J::Null)),
                None => (J::Null, J::Null),
            };
            obj(
                "let",
                line(lc),
                vec![("pat", pat_j(&lc.pat, cx)), ("init", init), ("else", els), ("attrs", attrs_j(&lc.attrs))],
            )
        }
        syn::Stmt::Item(it) => obj("item", line(it), vec![("item", item_j(it, cx))]),
        syn::Stmt::Expr(e, semi) => obj("expr", line(e), vec![("e", expr_j(e, cx)), ("semi", J::Bool(semi.is_some()))]),
        syn::Stmt::Macro(m) => obj(
            "expr",
            line(m),
            vec![("e", macro_j(&m.mac, &m.attrs, cx)), ("semi", J::Bool(m.semi_token.is_some()))],
        ),
    }
}

fn parse_args(ts: TokenStream) -> Option<Vec<syn::Expr>> {
    let parser = Punctuated::<syn::Expr, Token![,]>::parse_terminated;
    syn::parse::Parser::parse2(parser, ts).ok().map(|p| p.into_iter().collect())
}

struct MatchesArgs {
    e: syn::Expr,
    pat: syn::Pat,
    guard: Option<syn::Expr>,
}
/// winnow's `dispatch!{ parser; pat (if guard)? => parser, .. }`
struct DispatchArgs {
    scrut: syn::Expr,
    arms: Vec<(syn::Pat, Option<syn::Expr>, syn::Expr)>,
}
impl syn::parse::Parse for DispatchArgs {
    fn parse(input: syn::parse::ParseStream) -> syn::Result<Self> {
        let scrut: syn::Expr = input.parse()?;
        input.parse::<syn::Token![;]>()?;
        let mut arms = vec![];
        while !input.is_empty() {
            let pat = syn::Pat::parse_multi_with_leading_vert(input)?;
            let guard = if input.peek(syn::Token![if]) {
                input.parse::<syn::Token![if]>()?;
                Some(input.parse::<syn::Expr>()?)
            } else {
                None
            };
            input.parse::<syn::Token![=>]>()?;
            let body: syn::Expr = input.parse()?;
            arms.push((pat, guard, body));
            if input.peek(syn::Token![,]) {
                input.parse::<syn::Token![,]>()?;
            }
        }
        Ok(DispatchArgs { scrut, arms })
    }
}
impl syn::parse::Parse for MatchesArgs {
    fn parse(input: syn::parse::ParseStream) -> syn::Result<Self> {
        let e: syn::Expr = input.parse()?;
        input.parse::<Token![,]>()?;
        let pat = syn::Pat::parse_multi_with_leading_vert(input)?;
        let guard = if input.peek(Token![if]) {
            input.parse::<Token![if]>()?;
            Some(input.parse()?)
        } else {
            None
        };
        let _ = input.parse::<Option<Token![,]>>();
        Ok(MatchesArgs { e, pat, guard })
    }
}

fn macro_j(m: &syn::Macro, attrs: &[syn::Attribute], cx: &mut Ctx) -> J {
    let l = line(m);
    let full = toks(&m.path);
    let name = m.path.segments.last().map(|x| x.ident.to_string()).unwrap_or_default();
    if name == "cfg" && m.path.segments.len() == 1 {
        let mut e: syn::Expr = syn::Expr::Macro(syn::ExprMacro { attrs: vec![], mac: m.clone() });
        cx.strip_expr(&mut e);
        if !matches!(e, syn::Expr::Macro(_)) {
            return expr_j(&e, cx);
        }
    }
    let mut v: Vec<(&'static str, J)> = vec![("name", s(&name)), ("path", s(&full)), ("attrs", attrs_j(attrs))];
    // 1. local macro_rules
    if m.path.segments.len() == 1 {
        if let Some(def) = cx.macros.get(&name).cloned() {
            if def.simple && cx.depth < 16 {
                if let Some(args) = parse_args(m.tokens.clone()) {
                    if let Some(arm) = def.arms.iter().find(|a| a.params.len() == args.len()) {
                        let mut map = BTreeMap::new();
                        for (p, a) in arm.params.iter().zip(args.iter()) {
                            map.insert(p.clone(), a.to_token_stream());
                        }
                        let body = substitute(arm.body.clone(), &map);
                        // try expression, then block
                        let parsed: Option<syn::Expr> = syn::parse2::<syn::Expr>(body.clone()).ok();
                        if let Some(mut e) = parsed {
                            cx.strip_expr(&mut e);
                            cx.depth += 1;
                            let ej = expr_j(&e, cx);
                            cx.depth -= 1;
                            v.push(("local", J::Bool(true)));
                            v.push(("arm", J::Num(def.arms.iter().position(|a| a.params.len() == args.len()).unwrap().to_string())));
                            v.push(("args", J::Arr(args.iter().map(|a| expr_j(a, cx)).collect())));
                            v.push(("expanded", ej));
                            return obj("macro", l, v);
                        }
                    }
                }
            }
            if cx.depth < 16 {
                if let Some(body) = expand_general(&def, m.tokens.clone()) {
                    // an expression, or a sequence of statements (exported as a block)
                    let ej = if let Ok(mut e) = syn::parse2::<syn::Expr>(body.clone()) {
                        cx.strip_expr(&mut e);
                        cx.depth += 1;
                        let r = expr_j(&e, cx);
                        cx.depth -= 1;
                        Some(r)
                    } else if let Ok(mut b) = syn::parse2::<syn::Block>(TokenTree::Group(Group::new(Delimiter::Brace, body.clone())).into()) {
                        cx.strip_block(&mut b);
                        cx.depth += 1;
                        let r = block_j(&b, cx);
                        cx.depth -= 1;
                        Some(r)
                    } else {
                        None
                    };
                    if let Some(ej) = ej {
                        v.push(("local", J::Bool(true)));
                        v.push(("general", J::Bool(true)));
                        v.push(("expanded", ej));
                        return obj("macro", l, v);
                    }
                }
            }
            v.push(("local", J::Bool(true)));
            v.push(("raw", s(compact(&m.tokens.to_string()))));
            return obj("macro", l, v);
        }
    }
    // 2. matches!
    if name == "matches" {
        if let Ok(ma) = syn::parse2::<MatchesArgs>(m.tokens.clone()) {
            v.push(("e", expr_j(&ma.e, cx)));
            v.push(("pat", pat_j(&ma.pat, cx)));
            v.push(("guard", ma.guard.as_ref().map(|g| expr_j(g, cx)).unwrap_or(J::Null)));
            return obj("macro", l, v);
        }
    }
    // 2b. winnow's dispatch!
    if name == "dispatch" {
        if let Ok(da) = syn::parse2::<DispatchArgs>(m.tokens.clone()) {
            v.push(("scrut", expr_j(&da.scrut, cx)));
            let mut arms = vec![];
            for (p, g, b) in &da.arms {
                arms.push(J::Obj(vec![
                    ("l", line(b)),
                    ("pat", pat_j(p, cx)),
                    ("guard", g.as_ref().map(|g| expr_j(g, cx)).unwrap_or(J::Null)),
                    ("body", expr_j(b, cx)),
                ]));
            }
            v.push(("arms", J::Arr(arms)));
            return obj("macro", l, v);
        }
    }
    // 3. expression-list macros
    if let Some(args) = parse_args(m.tokens.clone()) {
        v.push(("args", J::Arr(args.iter().map(|a| expr_j(a, cx)).collect())));
    }
    v.push(("raw", s(compact(&m.tokens.to_string()))));
    obj("macro", l, v)
}

fn expr_j(e: &syn::Expr, cx: &mut Ctx) -> J {
    let l = line(e);
    macro_rules! sub {
        ($x:expr) => {
            expr_j($x, cx)
        };
    }
    match e {
        syn::Expr::Group(g) => expr_j(&g.expr, cx),
        syn::Expr::Paren(p) => expr_j(&p.expr, cx),
        syn::Expr::Lit(li) => obj("lit", l, lit_j(&li.lit)),
        syn::Expr::Path(p) => obj("path", l, path_j(&p.path, p.qself.as_ref())),
        syn::Expr::Call(c) => obj(
            "call",
            l,
            vec![("f", sub!(&c.func)), ("args", J::Arr(c.args.iter().map(|a| sub!(a)).collect()))],
        ),
        syn::Expr::MethodCall(mc) => obj(
            "mcall",
            l,
            vec![
                ("recv", sub!(&mc.receiver)),
                ("m", s(mc.method.to_string())),
                (
                    "targs",
                    J::Arr(mc.turbofish.as_ref().map(|t| t.args.iter().map(|a| s(toks(a))).collect()).unwrap_or_default()),
                ),
                ("args", J::Arr(mc.args.iter().map(|a| sub!(a)).collect())),
            ],
        ),
        syn::Expr::Closure(c) => obj(
            "closure",
            l,
            vec![
                ("params", J::Arr(c.inputs.iter().map(|p| pat_j(p, cx)).collect())),
                ("body", sub!(&c.body)),
                ("move", J::Bool(c.capture.is_some())),
            ],
        ),
        syn::Expr::Match(m) => {
            let mut arms = vec![];
            for a in &m.arms {
                arms.push(J::Obj(vec![
                    ("l", line(a)),
                    ("pat", pat_j(&a.pat, cx)),
                    ("guard", a.guard.as_ref().map(|(_, g)| expr_j(g, cx)).unwrap_or(J::Null)),
                    ("body", expr_j(&a.body, cx)),
                    ("attrs", attrs_j(&a.attrs)),
                ]));
            }
            obj("match", l, vec![("scrut", sub!(&m.expr)), ("arms", J::Arr(arms))])
        }
        syn::Expr::Macro(m) => macro_j(&m.mac, &m.attrs, cx),
        syn::Expr::Block(b) => {
            let mut bj = block_j(&b.block, cx);
            if let J::Obj(ref mut v) = bj {
                v.push(("attrs", attrs_j(&b.attrs)));
            }
            bj
        }
        syn::Expr::Unsafe(b) => obj("unsafe", l, vec![("body", block_j(&b.block, cx))]),
        syn::Expr::If(i) => obj(
            "if",
            l,
            vec![
                ("cond", sub!(&i.cond)),
                ("then", block_j(&i.then_branch, cx)),
                ("else", i.else_branch.as_ref().map(|(_, e)| expr_j(e, cx)).unwrap_or(J::Null)),
            ],
        ),
        syn::Expr::Let(le) => obj("letexpr", l, vec![("pat", pat_j(&le.pat, cx)), ("e", sub!(&le.expr))]),
        syn::Expr::Binary(b) => obj(
            "binary",
            l,
            vec![("op", s(toks(&b.op))), ("lhs", sub!(&b.left)), ("rhs", sub!(&b.right))],
        ),
        syn::Expr::Unary(u) => obj("unary", l, vec![("op", s(toks(&u.op))), ("e", sub!(&u.expr))]),
        syn::Expr::Reference(r) => obj("ref", l, vec![("mut", J::Bool(r.mutability.is_some())), ("e", sub!(&r.expr))]),
        syn::Expr::Field(f) => obj("field", l, vec![("e", sub!(&f.base)), ("name", s(toks(&f.member)))]),
        syn::Expr::Tuple(t) => obj("tuple", l, vec![("elems", J::Arr(t.elems.iter().map(|a| sub!(a)).collect()))]),
        syn::Expr::Array(t) => obj("array", l, vec![("elems", J::Arr(t.elems.iter().map(|a| sub!(a)).collect()))]),
        syn::Expr::Try(t) => obj("try", l, vec![("e", sub!(&t.expr))]),
        syn::Expr::Return(r) => obj("return", l, vec![("e", r.expr.as_ref().map(|x| expr_j(x, cx)).unwrap_or(J::Null))]),
        syn::Expr::Range(r) => obj(
            "range",
            l,
            vec![
                ("from", r.start.as_ref().map(|x| expr_j(x, cx)).unwrap_or(J::Null)),
                ("to", r.end.as_ref().map(|x| expr_j(x, cx)).unwrap_or(J::Null)),
                ("closed", J::Bool(matches!(r.limits, syn::RangeLimits::Closed(_)))),
            ],
        ),
        syn::Expr::Struct(st) => {
            let mut v = path_j(&st.path, st.qself.as_ref());
            v.push((
                "fields",
                J::Arr(
                    st.fields
                        .iter()
                        .map(|f| J::Obj(vec![("name", s(toks(&f.member))), ("e", expr_j(&f.expr, cx))]))
                        .collect(),
                ),
            ));
            v.push(("rest", st.rest.as_ref().map(|r| expr_j(r, cx)).unwrap_or(J::Null)));
            obj("struct", l, v)
        }
        syn::Expr::Assign(a) => obj("assign", l, vec![("lhs", sub!(&a.left)), ("rhs", sub!(&a.right))]),
        syn::Expr::Index(i) => obj("index", l, vec![("e", sub!(&i.expr)), ("idx", sub!(&i.index))]),
        syn::Expr::Cast(c) => obj("cast", l, vec![("e", sub!(&c.expr)), ("ty", s(toks(&c.ty)))]),
        syn::Expr::ForLoop(f) => obj(
            "for",
            l,
            vec![("pat", pat_j(&f.pat, cx)), ("iter", sub!(&f.expr)), ("body", block_j(&f.body, cx))],
        ),
        syn::Expr::While(w) => obj("while", l, vec![("cond", sub!(&w.cond)), ("body", block_j(&w.body, cx))]),
        syn::Expr::Loop(lp) => obj("loop", l, vec![("body", block_j(&lp.body, cx))]),
        syn::Expr::Break(b) => obj("break", l, vec![("e", b.expr.as_ref().map(|x| expr_j(x, cx)).unwrap_or(J::Null))]),
        syn::Expr::Continue(_) => obj("continue", l, vec![]),
        syn::Expr::Repeat(r) => obj("repeat", l, vec![("e", sub!(&r.expr)), ("len", sub!(&r.len))]),
        other => obj("opaque", l, vec![("src", s(toks(other)))]),
    }
}

fn sig_j(sig: &syn::Signature, cx: &mut Ctx) -> Vec<(&'static str, J)> {
    let mut inputs = vec![];
    let mut selfk = J::Null;
    for a in &sig.inputs {
        match a {
            syn::FnArg::Receiver(r) => {
                selfk = s(format!(
                    "{}{}self",
                    if r.reference.is_some() { "&" } else { "" },
                    if r.mutability.is_some() { "mut " } else { "" }
                ));
            }
            syn::FnArg::Typed(t) => inputs.push(J::Obj(vec![("pat", pat_j(&t.pat, cx)), ("ty", s(toks(&t.ty)))])),
        }
    }
    vec![
        ("name", s(sig.ident.to_string())),
        ("self", selfk),
        ("inputs", J::Arr(inputs)),
        (
            "output",
            match &sig.output {
                syn::ReturnType::Default => s("()"),
                syn::ReturnType::Type(_, t) => s(toks(t)),
            },
        ),
        ("generics", s(toks(&sig.generics))),
        ("where", sig.generics.where_clause.as_ref().map(|w| s(toks(w))).unwrap_or(J::Null)),
        ("unsafe", J::Bool(sig.unsafety.is_some())),
    ]
}

fn fields_j(f: &syn::Fields) -> J {
    J::Arr(
        f.iter()
            .map(|fd| {
                J::Obj(vec![
                    ("name", fd.ident.as_ref().map(|i| s(i.to_string())).unwrap_or(J::Null)),
                    ("ty", s(toks(&fd.ty))),
                    ("vis", vis_j(&fd.vis)),
                    ("attrs", attrs_j(&fd.attrs)),
                ])
            })
            .collect(),
    )
}

fn use_flat(t: &syn::UseTree, prefix: &mut Vec<String>, out: &mut Vec<J>) {
    match t {
        syn::UseTree::Path(p) => {
            prefix.push(p.ident.to_string());
            use_flat(&p.tree, prefix, out);
            prefix.pop();
        }
        syn::UseTree::Name(n) => {
            let mut full = prefix.clone();
            full.push(n.ident.to_string());
            out.push(J::Obj(vec![
                ("path", J::Arr(full.iter().map(s).collect())),
                ("alias", s(n.ident.to_string())),
                ("glob", J::Bool(false)),
            ]));
        }
        syn::UseTree::Rename(r) => {
            let mut full = prefix.clone();
            full.push(r.ident.to_string());
            out.push(J::Obj(vec![
                ("path", J::Arr(full.iter().map(s).collect())),
                ("alias", s(r.rename.to_string())),
                ("glob", J::Bool(false)),
            ]));
        }
        syn::UseTree::Glob(_) => out.push(J::Obj(vec![
            ("path", J::Arr(prefix.iter().map(s).collect())),
            ("alias", J::Null),
            ("glob", J::Bool(true)),
        ])),
        syn::UseTree::Group(g) => {
            for it in &g.items {
                use_flat(it, prefix, out);
            }
        }
    }
}

/// Items of a module; a call of one of the crate's own macros in item position is followed by the items it expands to.
fn items_j(items: &[syn::Item], cx: &mut Ctx) -> Vec<J> {
    let mut out = vec![];
    for it in items {
        out.push(item_j(it, cx));
        if let syn::Item::Macro(m) = it {
            let name = m.mac.path.segments.last().map(|x| x.ident.to_string()).unwrap_or_default();
            if name != "macro_rules" && m.mac.path.segments.len() == 1 && cx.depth < 16 {
                if let Some(def) = cx.macros.get(&name).cloned() {
                    if let Some(body) = expand_general(&def, m.mac.tokens.clone()) {
                        if let Ok(mut f) = syn::parse2::<syn::File>(body) {
                            cx.strip_file(&mut f);
                            cx.depth += 1;
                            let sub = items_j(&f.items, cx);
                            cx.depth -= 1;
                            for mut j in sub {
                                if let J::Obj(ref mut v) = j {
                                    v.push(("from_macro", s(&name)));
                                    // positions inside a macro body are those of the definition: report the call site
                                    for kv in v.iter_mut() {
                                        if kv.0 == "l" {
                                            kv.1 = line(it);
                                        }
                                    }
                                }
                                out.push(j);
                            }
                        }
                    }
                }
            }
        }
    }
    out
}

fn item_j(it: &syn::Item, cx: &mut Ctx) -> J {
    let l = line(it);
    match it {
        syn::Item::Fn(f) => {
            let mut v = sig_j(&f.sig, cx);
            v.push(("vis", vis_j(&f.vis)));
            v.push(("attrs", attrs_j(&f.attrs)));
            v.push(("docs", docs_j(&f.attrs)));
            v.push(("test", J::Bool(is_test(&f.attrs))));
            v.push(("body", block_j(&f.block, cx)));
            v.push(("end", J::Num(f.block.span().end().line.to_string())));
            obj("fn", l, v)
        }
        syn::Item::Impl(im) => {
            let mut items = vec![];
            for ii in &im.items {
                match ii {
                    syn::ImplItem::Fn(f) => {
                        let mut v = sig_j(&f.sig, cx);
                        v.push(("vis", vis_j(&f.vis)));
                        v.push(("attrs", attrs_j(&f.attrs)));
                        v.push(("docs", docs_j(&f.attrs)));
                        v.push(("test", J::Bool(is_test(&f.attrs))));
                        v.push(("body", block_j(&f.block, cx)));
                        v.push(("end", J::Num(f.block.span().end().line.to_string())));
                        items.push(obj("fn", line(f), v));
                    }
                    syn::ImplItem::Const(c) => items.push(obj(
                        "const",
                        line(c),
                        vec![
                            ("name", s(c.ident.to_string())),
                            ("vis", vis_j(&c.vis)),
                            ("ty", s(toks(&c.ty))),
                            ("e", expr_j(&c.expr, cx)),
                        ],
                    )),
                    other => items.push(obj("opaque", line(other), vec![("src", s(toks(other)))])),
                }
            }
            obj(
                "impl",
                l,
                vec![
                    ("trait", im.trait_.as_ref().map(|(_, p, _)| s(toks(p))).unwrap_or(J::Null)),
                    ("self_ty", s(toks(&im.self_ty))),
                    ("generics", s(toks(&im.generics))),
                    ("where", im.generics.where_clause.as_ref().map(|w| s(toks(w))).unwrap_or(J::Null)),
                    ("attrs", attrs_j(&im.attrs)),
                    ("unsafe", J::Bool(im.unsafety.is_some())),
                    ("test", J::Bool(is_test(&im.attrs))),
                    ("items", J::Arr(items)),
                ],
            )
        }
        syn::Item::Enum(en) => obj(
            "enum",
            l,
            vec![
                ("name", s(en.ident.to_string())),
                ("vis", vis_j(&en.vis)),
                ("attrs", attrs_j(&en.attrs)),
                ("generics", s(toks(&en.generics))),
                (
                    "variants",
                    J::Arr(
                        en.variants
                            .iter()
                            .map(|v| {
                                J::Obj(vec![
                                    ("name", s(v.ident.to_string())),
                                    ("l", line(v)),
                                    ("fields", fields_j(&v.fields)),
                                    ("attrs", attrs_j(&v.attrs)),
                                    ("docs", docs_j(&v.attrs)),
                                ])
                            })
                            .collect(),
                    ),
                ),
            ],
        ),
        syn::Item::Struct(st) => obj(
            "struct",
            l,
            vec![
                ("name", s(st.ident.to_string())),
                ("vis", vis_j(&st.vis)),
                ("attrs", attrs_j(&st.attrs)),
                ("generics", s(toks(&st.generics))),
                ("tuple", J::Bool(matches!(st.fields, syn::Fields::Unnamed(_)))),
                ("fields", fields_j(&st.fields)),
            ],
        ),
        syn::Item::Trait(tr) => {
            let mut items = vec![];
            for ti in &tr.items {
                if let syn::TraitItem::Fn(f) = ti {
                    let mut v = sig_j(&f.sig, cx);
                    v.push(("default", f.default.as_ref().map(|b| block_j(b, cx)).unwrap_or(J::Null)));
                    items.push(obj("fn", line(f), v));
                }
            }
            obj(
                "trait",
                l,
                vec![("name", s(tr.ident.to_string())), ("vis", vis_j(&tr.vis)), ("items", J::Arr(items))],
            )
        }
        syn::Item::Mod(m) => {
            let inline = m.content.as_ref().map(|(_, its)| J::Arr(items_j(its, cx)));
            obj(
                "mod",
                l,
                vec![
                    ("name", s(m.ident.to_string())),
                    ("vis", vis_j(&m.vis)),
                    ("attrs", attrs_j(&m.attrs)),
                    ("test", J::Bool(is_test(&m.attrs))),
                    ("inline", inline.unwrap_or(J::Null)),
                ],
            )
        }
        syn::Item::Use(u) => {
            let mut out = vec![];
            use_flat(&u.tree, &mut vec![], &mut out);
            obj("use", l, vec![("vis", vis_j(&u.vis)), ("attrs", attrs_j(&u.attrs)), ("names", J::Arr(out))])
        }
        syn::Item::Const(c) => obj(
            "const",
            l,
            vec![
                ("name", s(c.ident.to_string())),
                ("vis", vis_j(&c.vis)),
                ("ty", s(toks(&c.ty))),
                ("e", expr_j(&c.expr, cx)),
            ],
        ),
        syn::Item::Static(c) => obj(
            "static",
            l,
            vec![
                ("name", s(c.ident.to_string())),
                ("vis", vis_j(&c.vis)),
                ("ty", s(toks(&c.ty))),
                ("mut", J::Bool(matches!(c.mutability, syn::StaticMutability::Mut(_)))),
                ("e", expr_j(&c.expr, cx)),
            ],
        ),
        syn::Item::Type(t) => obj(
            "type",
            l,
            vec![("name", s(t.ident.to_string())), ("vis", vis_j(&t.vis)), ("ty", s(toks(&t.ty))), ("generics", s(toks(&t.generics)))],
        ),
        syn::Item::Macro(m) => {
            let name = m.mac.path.segments.last().map(|x| x.ident.to_string()).unwrap_or_default();
            if name == "macro_rules" {
                let def = parse_macro_rules(m.mac.tokens.clone());
                obj(
                    "macro_rules",
                    l,
                    vec![
                        ("name", m.ident.as_ref().map(|i| s(i.to_string())).unwrap_or(J::Null)),
                        ("simple", J::Bool(def.simple)),
                        (
                            "arms",
                            J::Arr(
                                def.arms
                                    .iter()
                                    .map(|a| {
                                        J::Obj(vec![
                                            ("params", J::Arr(a.params.iter().map(s).collect())),
                                            ("body", s(compact(&a.body.to_string()))),
                                        ])
                                    })
                                    .collect(),
                            ),
                        ),
                        ("raw", s(def.raw)),
                    ],
                )
            } else {
                obj(
                    "macro_item",
                    l,
                    vec![
                        ("name", s(name)),
                        ("path", s(toks(&m.mac.path))),
                        ("attrs", attrs_j(&m.attrs)),
                        ("raw", s(compact(&m.mac.tokens.to_string()))),
                    ],
                )
            }
        }
        other => obj("opaque", l, vec![("src", s(toks(other)))]),
    }
}

// ------------------------------------------------------------------ module walk
struct SrcFile {
    path: PathBuf,
    module: Vec<String>,
    ast: syn::File,
    test: bool,
}

fn load(root: &Path, path: &Path, module: Vec<String>, test: bool, out: &mut Vec<SrcFile>, cfg: &cfgstrip::Config, recs: &mut Vec<cfgstrip::CfgRec>) -> Result<(), String> {
    let text = std::fs::read_to_string(path).map_err(|e| format!("cannot read {}: {e}", path.display()))?;
    let mut ast = syn::parse_file(&text).map_err(|e| format!("cannot parse {}: {e}", path.display()))?;
    {
        let rel = path.strip_prefix(root).unwrap_or(path).to_string_lossy().to_string();
        let mut st = cfgstrip::Strip { cfg, file: rel, recs, in_test: test };
        st.visit_file_mut(&mut ast);
    }
    let fname = path.file_name().unwrap().to_string_lossy().to_string();
    let dir = if fname == "lib.rs" || fname == "mod.rs" || fname == "main.rs" {
        path.parent().unwrap().to_path_buf()
    } else {
        path.with_extension("")
    };
    let mut children = vec![];
    for it in &ast.items {
        if let syn::Item::Mod(m) = it {
            if m.content.is_none() {
                let name = m.ident.to_string();
                let a = dir.join(format!("{name}.rs"));
                let b = dir.join(&name).join("mod.rs");
                let p = if a.exists() {
                    a
                } else if b.exists() {
                    b
                } else {
                    return Err(format!("module file for `mod {name};` in {} not found", path.display()));
                };
                let mut mm = module.clone();
                mm.push(name);
                children.push((p, mm, test || is_test(&m.attrs)));
            }
        }
    }
    out.push(SrcFile { path: path.strip_prefix(root).unwrap_or(path).to_path_buf(), module, ast, test });
    for (p, mm, t) in children {
        load(root, &p, mm, t, out, cfg, recs)?;
    }
    Ok(())
}

fn collect_macros(items: &[syn::Item], out: &mut BTreeMap<String, MacroDef>, dups: &mut Vec<String>) {
    for it in items {
        match it {
            syn::Item::Macro(m) => {
                let name = m.mac.path.segments.last().map(|x| x.ident.to_string()).unwrap_or_default();
                if name == "macro_rules" {
                    if let Some(id) = &m.ident {
                        let def = parse_macro_rules(m.mac.tokens.clone());
                        if out.insert(id.to_string(), def).is_some() {
                            dups.push(id.to_string());
                        }
                    }
                }
            }
            syn::Item::Mod(m) => {
                if let Some((_, its)) = &m.content {
                    collect_macros(its, out, dups);
                }
            }
            _ => {}
        }
    }
}

fn main() {
    let args: Vec<String> = std::env::args().collect();
    let root = PathBuf::from(args.get(1).cloned().unwrap_or_else(|| "/repo".into()));
    // the configuration the source is read under: `--cfg KEY` / `--cfg KEY="VALUE"` (as `rustc --print cfg` prints them);
    // without any, the usual 64-bit Linux development build
    let mut config = cfgstrip::Config::default();
    let mut i = 2;
    let mut given = false;
    while i < args.len() {
        if args[i] == "--cfg" && i + 1 < args.len() {
            config.parse_line(&args[i + 1]);
            given = true;
            i += 2;
        } else {
            i += 1;
        }
    }
    if !given {
        for l in ["debug_assertions", "panic=\"unwind\"", "target_arch=\"x86_64\"", "target_endian=\"little\"", "target_env=\"gnu\"", "target_family=\"unix\"", "target_os=\"linux\"", "target_pointer_width=\"64\"", "target_vendor=\"unknown\"", "unix"] {
            config.parse_line(l);
        }
    }
    let mut recs = vec![];
    let mut files = vec![];
    if let Err(e) = load(&root, &root.join("src/lib.rs"), vec![], false, &mut files, &config, &mut recs) {
        eprintln!("ast-extract: {e}");
        std::process::exit(2);
    }
    // examples (API consumers) — scanned, flagged
    let mut extra = vec![];
    if let Ok(rd) = std::fs::read_dir(root.join("examples")) {
        let mut ps: Vec<PathBuf> = rd.filter_map(|e| e.ok()).map(|e| e.path()).filter(|p| p.extension().map(|x| x == "rs").unwrap_or(false)).collect();
        ps.sort();
        for p in ps {
            let mut ex_recs = vec![];
            if let Err(e) = load(&root, &p, vec!["<example>".into()], false, &mut extra, &config, &mut ex_recs) {
                eprintln!("ast-extract: {e}");
                std::process::exit(2);
            }
        }
    }
    let mut macros = BTreeMap::new();
    let mut dups = vec![];
    for f in &files {
        collect_macros(&f.ast.items, &mut macros, &mut dups);
    }
    for d in &dups {
        // ambiguous name: never expand
        if let Some(m) = macros.get_mut(d) {
            m.simple = false;
        }
    }
    let mut cx = Ctx { macros, depth: 0, config: config.clone(), recs, cur_file: String::new(), cur_test: false };
    let mut fj = vec![];
    for f in files.iter().chain(extra.iter()) {
        cx.cur_file = f.path.to_string_lossy().to_string();
        cx.cur_test = f.test;
        let items: Vec<J> = items_j(&f.ast.items, &mut cx);
        fj.push(J::Obj(vec![
            ("path", s(f.path.to_string_lossy())),
            ("module", J::Arr(f.module.iter().map(s).collect())),
            ("test", J::Bool(f.test)),
            ("attrs", attrs_j(&f.ast.attrs)),
            ("items", J::Arr(items)),
        ]));
    }
    let top = J::Obj(vec![
        ("root", s(root.to_string_lossy())),
        ("files", J::Arr(fj)),
        ("config", J::Arr(config.set.iter().map(|(k, v)| s(match v { Some(v) => format!("{k}=\"{v}\""), None => k.clone() })).collect())),
        (
            "cfg",
            J::Arr(
                cx.recs
                    .iter()
                    .map(|r| {
                        J::Obj(vec![
                            ("pred", s(&r.pred)),
                            ("value", J::Bool(r.value)),
                            ("unknown", J::Arr(r.unknown.iter().map(s).collect())),
                            ("keys", J::Arr(r.keys.iter().map(s).collect())),
                            ("file", s(&r.file)),
                            ("l", J::Num(r.line.to_string())),
                            ("on", s(&r.on)),
                            ("in_test", J::Bool(r.in_test)),
                        ])
                    })
                    .collect(),
            ),
        ),
        ("local_macros", J::Arr(cx.macros.iter().map(|(k, v)| J::Obj(vec![("name", s(k)), ("simple", J::Bool(v.simple)), ("arms", J::Num(v.arms.len().to_string()))])).collect())),
    ]);
    let mut out = String::new();
    top.write(&mut out);
    println!("{out}");
}
