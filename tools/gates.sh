#!/bin/sh
# tools/gates.sh — all three regression gates from a snapshot of /verif (use with `vp run -- sh tools/gates.sh`)
set -e
CARGO_NET_OFFLINE=true cargo build --release --offline --manifest-path engines/ast-extract/Cargo.toml >/dev/null 2>&1
CARGO_NET_OFFLINE=true cargo +nightly build --release --offline --manifest-path engines/mir-facts/Cargo.toml >/dev/null 2>&1
python3 tools/seedsweep.py | tail -15
./check selftest patches | grep -v "^ok" | tail -15
./check selftest | grep -v "^ok" | tail -10
