#!/usr/bin/env python3
"""tools/difftriage.py <mutsweep.json> [--status SILENT] [--workers N]   or   tools/difftriage.py --patch <file.diff>

Maintainer's tool (NOT part of any registered check; it runs code, the checks never do): for each surviving mutant of
tools/mutsweep.py — suite green, no check reports — decide by differential execution whether the mutant is observably
different from the unchanged crate.  A dump program (parse result or error text, compiled program for a device path, the
destination table; panics caught) is run over a generated corpus of command lines (every keyword of spec/vocabulary.json with
members and corrupted non-members of its argument language, operators, parentheses, quoting, blanks, option positions, format
strings, permission modes, boundary numbers) on the unchanged crate and on the mutant, in the debug and in the release profile.

  EQUIVALENT-ON-CORPUS   same output on all lines in both profiles: an equivalent mutant as far as the corpus can tell
  DIFFERS                first differing lines are printed: either outside every property, or a blind spot of the checks —
                         to be read by hand

Scratch copies live under the system temp dir and are removed."""
import itertools, json, os, re, shutil, subprocess, sys, tempfile
from concurrent.futures import ThreadPoolExecutor

HERE = os.path.dirname(os.path.abspath(__file__))
REPO = "/repo"
DUMP = r'''
use lipe_find_parser::{compile, parse};
use std::io::BufRead;
fn main() {
    std::panic::set_hook(Box::new(|_| {}));
    let stdin = std::io::stdin();
    for line in stdin.lock().lines() {
        let line = line.unwrap();
        let line = line.replace("\\t", "\t").replace("\\r", "\r").replace("\\n", "\n");
        let l2 = line.clone();
        let r = std::panic::catch_unwind(move || {
            let mut input = l2.as_str();
            match parse(&mut input) {
                Err(e) => format!("ERR {} || {:?}", e, e),
                Ok((opts, exp)) => {
                    let mut s = format!("OK {:?} {:?} rest={:?}", opts, exp, input);
                    match compile(&exp, &opts) {
                        Ok(c) => {
                            s.push_str(&format!(" || IO {:?} || SCM {}", c.io_map().map(|m| { let mut v: Vec<_> = m.iter().map(|(k, v)| format!("{k:?}={v:?}")).collect(); v.sort(); v }), c.scheme("/mnt/x y\"z")));
                        }
                        Err(e) => s.push_str(&format!(" || CERR {} || {:?}", e, e)),
                    }
                    s
                }
            }
        });
        match r {
            Ok(s) => println!("{}", s.replace('\n', "\\n")),
            Err(_) => println!("PANIC"),
        }
    }
}
'''


def corpus():
    voc = json.load(open(os.path.join(HERE, "..", "spec", "vocabulary.json")))
    out = []
    def args_for(kind):
        if kind is None:
            return [""]
        if kind == "String":
            return ["foo", "'a b'", '"a b"', "'a'b", "a'b'", "'unterminated", "", "a\\tb", "*.c", "'('", "foo)", ")", "'a\\\\'", "a\"b", "'é'"]
        if kind.startswith("cmp(u32)") or kind == "u32":
            return ["5", "+5", "-5", "0", "4294967295", "4294967296", "+4294967296", "5x", "x5", "", "+", "-", "+-5", "5 ", "05", "5.0", "１"]
        if kind == "cmp(u64)":
            return ["7", "+7", "-7", "18446744073709551615", "18446744073709551616", "7z", ""]
        if kind.startswith("cmp(TimeSpec"):
            return ["3", "+3", "-3", "3s", "3m", "+3h", "-3d", "3x", "3dd", "d", "", "18446744073709551615", "18446744073709551615d", "307445734561825861m", "3 d"]
        if kind == "cmp(Size)":
            return ["2", "+2", "-2"] + ["%s2%s" % (s, u) for s in ("", "+", "-") for u in "bcwkMGT"] + ["2K", "2kk", "k", "2 k", "18014398509481984k", "18014398509481983k", "36028797018963967b", "36028797018963968b", "18446744073709551615c", "9223372036854775808w", "16777216T", "16777215T"]
        if kind == "word>>PermCheck":
            return ["644", "-644", "/644", "0644", "00644", "7777", "77777", "64", "648", "u+r", "-u+r", "/u+r,g-w", "a=rwx", "u+rwx,u-r", "ug=rw,o=r", "u+", "+r", "u+r,", "u+rz", "u+r g+w", "'u+r'", "'644 '", "u=r,u=w", "a+r,a-r", "-", "/", "", "u+s", "u+X"]
        if kind == "Vec<FileType>":
            return ["f", "d", "l", "b", "c", "p", "s", "f,d", "f,d,l", "f,", ",f", "f,,d", "x", "fd", "f,x", "f d", "", "D", "f,d,", "ff"]
        if kind == "String,String":
            return ["user.a b", "'user a' 'b c'", "user.a", "", "'a'b", "a 'b'c", "a  b", "a\\tb", "'a' 'b' c"]
        if kind == "String,word>>Vec<FormatElement>":
            return ["out.txt '%p\\n'", "out.txt %p", "'o t' '%p %s\\n'", "out.txt", "", "out.txt '%q'", "out.txt '%'", "out.txt 'a\\cb'", "out.txt '\\101\\012'", "out.txt '%%'"]
        if kind == "word>>Vec<FormatElement>":
            return ["'%p\\n'", "%p", "'%p %s %u %g %m %a %c %t %i %n %b %k %f %h %P\\n'", "'%d'", "'%q'", "'%'", "'a\\cb'", "'\\101\\012\\0'", "'%%'", "''", "", "'\\x'", "'\\\\'", "'%10p'", "'%A@'", "'%TY'", "'a b'", "'%p\\0'"]
        if kind == "<rejected>":
            return ["", "1", "x"]
        return ["x", ""]
    kws = voc["keywords"]
    for kw, info in sorted(kws.items()):
        for a in args_for(info["arg"]):
            out.append(("%s %s" % (kw, a)).rstrip() if a != "5 " else "%s %s" % (kw, a))
        out.append(kw + "x")
        out.append(kw + " ")
        out.append(kw[:-1])
        out.append(kw + ")")
        out.append("( %s %s )" % (kw, args_for(info["arg"])[0]))
        out.append("(%s %s)" % (kw, args_for(info["arg"])[0]))
        out.append("! %s %s" % (kw, args_for(info["arg"])[0]))
        out.append("%s %s -o -true" % (kw, args_for(info["arg"])[0]))
        out.append("-true , %s %s" % (kw, args_for(info["arg"])[0]))
        out.append("%s\\t%s" % (kw, args_for(info["arg"])[0]))
        out.append("%s\\r%s" % (kw, args_for(info["arg"])[0]))
        out.append("%s  %s  " % (kw, args_for(info["arg"])[0]))
    atoms = ["-true", "-false", "-print", "-name a", "-uid 1", "-quit"]
    ops = ["", "-a", "-and", "-o", "-or", ","]
    for n in (1, 2, 3):
        for tup in itertools.product(atoms[:4], repeat=n):
            for o in itertools.product(ops, repeat=n - 1):
                words = [tup[0]]
                for x, y in zip(o, tup[1:]):
                    if x:
                        words.append(x)
                    words.append(y)
                out.append(" ".join(words))
    out += ["", " ", "(", ")", "( )", "()", "( -true", "-true )", "! ", "!", "! !", "! ! -true", "-not -true", "-a", "-o", "-true -a", "-a -true", "-true -o", ", -true", "-true ,", "-true -a -a -false", "-true -o -and -false",
            "( ( -true ) )", "((-true))", "( -true ) ( -false )", "(-true)-false", "! ( -true -o -false )", "!( -true )", "! -true -a ! -false", "-true -a ( -false -o -true ) , -print", "( -true -o -false ) -a -print",
            "-true\\t-false", "-true\\r-false", "-true\\n-false", "\\t-true\\t", "-true\\r\\n", "( -a -true )", "-true ) -false",
            "-maxdepth 3 -name a", "-name a -maxdepth 3", "-threads 4 -name a", "-name a -threads 4", "-threads 2 -threads 4 -print", "-name a -threads 2 ( -threads 3 -print )", "-depth -print", "-print -depth", "! -depth -name a -depth", "-threads 0", "-threads", "-depth -depth",
            "-threads 4 -depth -name x -threads 8", "-mindepth 1 -print", "-xdev -print", "-daystart -mtime 1",
            "-print -print", "-print0 -print", "-print -printf '%p\\n'", "-fprint a -fprint a", "-fprint a -fprint0 a", "-fprint a -fprintf a '%p'", "-fprint a -fprint b -print", "-print0 -o -print -o -printf '%p'", "-fprint out.txt , -print", "-true -o -print", "-false -a -print",
            "! ( -false -a -print )", "-name foo -o -name foo", "-name foo -iname foo", "-iname foo ! -name foo", "-name Makefile -o -name makefile", "-name 'fo?' -o -iname 'FO?'", "-name a -name b -name c -name d -name e -name f -name g -name h -name i -name j -print0",
            "-print0 -name a -name b -name c -name d -name e -name f -name g -name h -name i -name j", "-newer f -anewer g -cnewer h", "-empty -o -size 0", "-type f -perm 644 -size +1k -mtime -1 -print",
            "-printf '%p %d\\n'", "-printf '%p\\c%s\\n'", "-printf \"%p\\n\"", "-printf %p\\n", "-print-file-fid", "-printf '%{fid}'", "-ls", "-delete", "-exec ls ;", "-prune", "-regex a", "-newerXY a", "-name", "-iname", "-perm", "-type", "-size", "-uid"]
    seen, res = set(), []
    for l in out:
        if l not in seen:
            seen.add(l)
            res.append(l)
    return res


def build(src, profile):
    env = dict(os.environ, CARGO_NET_OFFLINE="true", CARGO_TARGET_DIR=os.path.join(src, "target"))
    os.makedirs(os.path.join(src, "examples"), exist_ok=True)
    open(os.path.join(src, "examples", "vdump.rs"), "w").write(DUMP)
    p = subprocess.run(["cargo", "build", "--offline", "--quiet", "--example", "vdump"] + (["--release"] if profile == "release" else []), cwd=src, env=env, capture_output=True, text=True)
    if p.returncode != 0:
        return None
    return os.path.join(src, "target", profile if profile == "release" else "debug", "examples", "vdump")


NUM = re.compile(r"\b1[6-9]\d{8}\b")


def run(binary, lines):
    p = subprocess.run([binary], input="\n".join(lines) + "\n", capture_output=True, text=True)
    return [NUM.sub("<now>", l) for l in p.stdout.split("\n")]


def main():
    args = sys.argv[1:]
    lines = corpus()
    base = tempfile.mkdtemp(prefix="difftriage-")
    try:
        clean = os.path.join(base, "clean")
        subprocess.run(["rsync", "-a", "--exclude", "target", "--exclude", ".git", "--exclude", "website", REPO + "/", clean + "/"], check=True)
        ref = {}
        for prof in ("debug", "release"):
            b = build(clean, prof)
            ref[prof] = run(b, lines)
        print("corpus: %d command lines; reference built in both profiles" % len(lines), flush=True)
        jobs = []
        if "--patch" in args:
            jobs.append(dict(patch=args[args.index("--patch") + 1], name=args[args.index("--patch") + 1]))
        else:
            status = args[args.index("--status") + 1] if "--status" in args else "SILENT"
            only = args[args.index("--only") + 1] if "--only" in args else ""
            for m in json.load(open(args[0])):
                if m["status"] == status and only in "%s:%d" % (m["file"], m["line"]) and (not "--swaps" in args or m.get("swap")):
                    jobs.append(dict(m, name="%s:%d  %s  =>  %s" % (m["file"], m["line"], m["old"], m["new"])))
        workers = int(args[args.index("--workers") + 1]) if "--workers" in args else 6

        def one(ij):
            i, j = ij
            d = os.path.join(base, "w%d" % (i % workers))
            src = os.path.join(d, "repo")
            os.makedirs(src, exist_ok=True)
            subprocess.run(["rsync", "-a", "--delete", "--exclude", "target", "--exclude", ".git", "--exclude", "website", REPO + "/", src + "/"], check=True)
            if "patch" in j:
                subprocess.run(["git", "init", "-q"], cwd=src)
                if subprocess.run(["git", "apply", "--whitespace=nowarn", os.path.abspath(j["patch"])], cwd=src).returncode != 0:
                    return j["name"], "PATCH-DOES-NOT-APPLY", []
            else:
                p = os.path.join(src, j["file"])
                ls = open(p).read().split("\n")
                old = ls[j["line"] - 1]
                assert old.strip() == j["old"], (old, j["old"])
                if j.get("swap"):
                    ls[j["line"] - 1], ls[j["line"]] = ls[j["line"]], ls[j["line"] - 1]
                elif j["new"] == "/* deleted */":
                    ls[j["line"] - 1] = "/* deleted */"
                else:
                    ls[j["line"] - 1] = old.replace(j["old"], j["new"])
                open(p, "w").write("\n".join(ls))
            diffs = []
            for prof in ("debug", "release"):
                b = build(src, prof)
                if b is None:
                    return j["name"], "DOES-NOT-BUILD", []
                got = run(b, lines)
                for l, a, g in zip(lines, ref[prof], got):
                    if a != g:
                        diffs.append((prof, l, a[:160], g[:160]))
            return j["name"], "DIFFERS" if diffs else "EQUIVALENT-ON-CORPUS", diffs

        # one queue per worker directory
        def queue(w):
            return [one((i, j)) for i, j in enumerate(jobs) if i % workers == w]

        with ThreadPoolExecutor(max_workers=workers) as ex:
            res = [r for q in ex.map(queue, range(workers)) for r in q]
        for name, verdict, diffs in res:
            kind = lambda x: x.split(" ", 1)[0]
            flips = [d for d in diffs if kind(d[2]) != kind(d[3])]
            trees = [d for d in diffs if kind(d[2]) == kind(d[3]) == "OK"]
            print("\n%s\n  %s%s" % (name, verdict, (" (%d lines: %d accept/reject/panic flips, %d different results for accepted input, %d different error text only)" % (len(diffs), len(flips), len(trees), len(diffs) - len(flips) - len(trees))) if diffs else ""))
            for prof, l, a, g in (flips[:3] + trees[:2] + diffs[:2])[:5]:
                print("    [%s] %r\n       clean : %s\n       mutant: %s" % (prof, l, a, g))
    finally:
        shutil.rmtree(base, ignore_errors=True)


if __name__ == "__main__":
    main()
