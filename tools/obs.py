#!/usr/bin/env python3
"""tools/obs.py <ID> [regex] — print every obligation of one property on the current tree (VERIF_REPO honoured)."""
import importlib, os, re, sys
HERE = os.path.dirname(os.path.abspath(__file__))
sys.path.insert(0, os.path.join(HERE, ".."))
from vlib import facts as F, report
pid = sys.argv[1]
rx = re.compile(sys.argv[2]) if len(sys.argv) > 2 else None
c = report.Check(pid, "quick", "other", cmd="obs")
importlib.import_module("vlib.rules.%s" % pid.lower()).run(c, F.load(), "quick")
for o in c.obs:
    line = "%s | %s | %s | %s | %s" % (o["rule"], o["site"], o["instance"], o["ok"], o["detail"])
    if rx is None or rx.search(line):
        print(line[:700])
