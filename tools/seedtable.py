#!/usr/bin/env python3
"""tools/seedtable.py [variants…] — markdown table (seed | change | checks that fire | rules) for the stored seeds, computed by
running every check on a scratch copy with the patch applied."""
import glob, json, os, subprocess, sys
from concurrent.futures import ThreadPoolExecutor
HERE = os.path.dirname(os.path.abspath(__file__))
want = sys.argv[1:]
seeds = sorted(d for d in glob.glob(os.path.join(HERE, "..", "seeded", "C*", "*")) if os.path.exists(os.path.join(d, "patch.diff")) and (not want or os.path.basename(d) in want))
def one(d):
    p = subprocess.run([sys.executable, os.path.join(HERE, "seedcheck.py"), d], capture_output=True, text=True)
    try:
        return d, json.loads(p.stdout)
    except Exception:
        return d, {}
with ThreadPoolExecutor(max_workers=6) as ex:
    res = list(ex.map(one, seeds))
print("| seed | change (one sentence, by its author) | checks that fire | rules of its own property |")
print("|---|---|---|---|")
for d, r in res:
    name = "/".join(d.split("/")[-2:])
    try:
        meta = json.load(open(os.path.join(d, "meta.json")))
    except Exception:
        meta = {}
    summ = (meta.get("summary") or "").replace("|", "/").replace("\n", " ")[:150]
    fired = r.get("properties_fired") or []
    own = name.split("/")[0]
    rules = sorted(k for k in r.get("rules_fired", {}) if k.startswith(own + "."))
    print("| %s | %s | %s | %s |" % (name, summ, ", ".join(fired), ", ".join(rules) or "—"))
