#!/usr/bin/env python3
"""Freeze the code-generation tables of the CURRENT /repo tree into spec/codegen.json.
Run by hand after *reading* the tables (DESIGN §2.3: there is no offline LiPE documentation; the frozen
tables detect drift). Never run by a check."""
import json, os, sys
sys.path.insert(0, os.path.join(os.path.dirname(os.path.abspath(__file__)), ".."))
from vlib import facts as F, codegen, emit
f = F.load()
t = codegen.all_tables(f)
out = {"_source": "frozen from the reviewed tree (accessors agree with the crate's snapshots taken from upstream lipe_find3 output); a change here is a change of the emitted program by definition",
       "tables": {k: codegen.plain(v) for k, v in t.items()}}
out["elements"] = {k: [dict(row=e["row"], index=e["index"], sep=e["sep"], of=e["of"], rows=e["rows"], fails=e["fails"]) for e in codegen.element_tables(v)] for k, v in t.items()}
out["elements"] = {k: v for k, v in out["elements"].items() if v}
sk = emit.skeleton(f)
out["skeleton"] = {"tokens": emit.scheme_tokens(sk["text"]), "lipe_scan_args": sk["lipe_scan_args"]}
json.dump(out, open(os.path.join(F.VERIF, "spec", "codegen.json"), "w"), indent=1, ensure_ascii=False)
print("frozen", sum(len(v) for v in t.values()), "rows in", len(t), "tables")
