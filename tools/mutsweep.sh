#!/bin/sh
# tools/mutsweep.sh — build the engines in this snapshot and run the mutation sweep (vp run -- sh tools/mutsweep.sh)
set -e
CARGO_NET_OFFLINE=true cargo build --release --offline --manifest-path engines/ast-extract/Cargo.toml >/dev/null 2>&1
CARGO_NET_OFFLINE=true cargo +nightly build --release --offline --manifest-path engines/mir-facts/Cargo.toml >/dev/null 2>&1
python3 tools/mutsweep.py --workers 10 --out mutsweep.json "$@"
