#!/usr/bin/env python3
"""tools/mutsweep.py [--workers N] [--limit K] [--filter SUBSTR] [--out FILE] [--kinds ops,strings,variants]

Systematic small mutations of /repo's non-test source (operator swaps, literal bumps, twin methods, dropped cut_err, range
bounds), one at a time, each in a scratch copy (never /repo itself):

  1. the mutant must compile and keep the 45 library tests green (otherwise it is not a "realistic change that passes the
     suite" and is dropped),
  2. every check is run on the scratch copy (static analysis of the mutated source; nothing of the mutant is executed by the
     checks), and the properties that report a violation are recorded.

Survivors of the suite that no check reports are printed at the end for triage: each is either an equivalent mutant (behaviour
unchanged), a change outside every property, or a blind spot of the checker.  This is a tool for the maintainer of /verif; it is
not part of any registered check."""
import json, os, re, shutil, subprocess, sys, tempfile
from concurrent.futures import ThreadPoolExecutor

HERE = os.path.dirname(os.path.abspath(__file__))
REPO = "/repo"
args = sys.argv[1:]
def opt(name, default=None):
    if name in args:
        return args[args.index(name) + 1]
    return default
WORKERS = int(opt("--workers", "8"))
LIMIT = int(opt("--limit", "0"))
FILTER = opt("--filter", "")
OUT = opt("--out", "/root/runs/mutsweep.json")
KINDS = set(opt("--kinds", "ops").split(","))  # ops (operators, literals, twins), strings (inside string literals), variants (sibling enum variants)
ENUMS = {}

OPS = [
    (r"(?<![<>=!])<=(?!=)", "<"), (r"(?<![<>=!-])<(?![<=])", "<="), (r"(?<![<>=!-])>=(?!=)", ">"), (r"(?<![<>=!-])>(?![>=])", ">="),
    (r"==", "!="), (r"!=", "=="), (r"&&", "||"), (r"\|\|", "&&"),
    (r"(?<=[\w)\]] )\+(?= [\w(])", "-"), (r"(?<=[\w)\]] )-(?= [\w(])", "+"), (r"(?<=[\w)\]] )\*(?= [\w(])", "+"),
    (r"\btrue\b", "false"), (r"\bfalse\b", "true"),
    (r"\.is_some\(\)", ".is_none()"), (r"\.is_none\(\)", ".is_some()"), (r"\.first\(\)", ".last()"), (r"\.last\(\)", ".first()"),
    (r"\.is_empty\(\)", ".len() > 0"), (r"\bcut_err\(", "("), (r"\bmultispace1\b", "multispace0"), (r"\bmultispace0\b", "multispace1"),
    (r"\bpreceded\(", "terminated("), (r"\bterminated\(", "preceded("), (r"\.unwrap_or\(", ".unwrap_or_default(); let _ = ("),
    (r"(?<=[( ,])0\.\.(?=[,)])", "1.."), (r"(?<=[( ,])1\.\.(?=[,)])", "0.."), (r"\.\.=", ".."),
    (r"\bSome\(\*value\)", "self.threads.or(Some(*value))"),
    (r"\.and_then\(", ".map(|x| x).and_then("),  # (equivalent: calibration of the harness)
]
INT = re.compile(r"(?<![\w.#\\])(\d+)(?![\w.]|\.\d)")


# inside string literals: the templates of the generator, the keywords and labels of the parser
STR_OPS = [
    (r"<", ">"), (r">", "<"), (r"(?<=\()=", "<"), (r"\band\b", "or"), (r"\bor\b", "and"), (r"\(not ", "("), (r"#t", "#f"), (r"#f", "#t"),
    (r"logand", "logior"), (r"quotient", "remainder"), (r"(?<=[a-z)]) (?=[({a-z])", ""), (r"\)(?=\))", ""), (r"\((?=\()", ""), (r"~a", "~s"),
    (r"\\n", ""), (r"\\0", r"\\n"), (r"(?<=[a-z])-(?=[a-z])", "_"), (r"\{\}", "{:?}"),
    (r"(?<=-)([a-z])([a-z])", lambda m: m.group(2) + m.group(1)), (r"(?<![\w{:])(\d)(?![\w}])", lambda m: str((int(m.group(1)) + 1) % 10)),
]
# near-twins of library calls and small structural slips
TWINS = [
    (r"\btake_while\(", "take_till("), (r"\btake_till\(", "take_while("), (r"\bmultispace0\b", "space0"), (r"\bmultispace1\b", "space1"),
    (r"\bdigit1\b", "alphanumeric1"), (r"\balpha1\b", "alphanumeric1"), (r"\bone_of\(", "none_of("), (r"\bliteral\(", "winnow::ascii::Caseless("),
    (r"\brepeat\(0\.\.", "repeat(1.."), (r"\brepeat\(1\.\.", "repeat(0.."), (r"\brepeat_till\(1\.\.", "repeat_till(0.."), (r"\bseparated\(1\.\.", "separated(0.."),
    (r"\.context\(([^()]*\([^()]*\))\)", ""), (r"\bterminated\(([^,]+), (eof|boundary)\)", r"\1"), (r"\bpeek\(", "("), (r"\bopt\(", "("),
    (r"\.try_map\(", ".map("), (r"\.verify_map\(", ".map("), (r"\.and_then\(", ".map("), (r"\.min\(", ".max("), (r"\.max\(", ".min("),
    (r"\bchecked_mul\b", "wrapping_mul"), (r"\bchecked_add\b", "wrapping_add"), (r"\bfrom_str_radix\(([^,]+), 8\)", r"from_str_radix(\1, 10)"),
    (r"\.insert\(", ".entry("), (r"\.or_insert\(", ".or_default(); let _ = ("), (r"\.get\(&", ".get(&&"), (r"\.clone\(\)", ""), (r"\.to_owned\(\)", ".clone()"),
    (r"\.iter\(\)", ".iter().rev()"), (r"\.push\(", ".insert(0, "), (r"\.push_str\(", ".insert_str(0, "), (r"\.last\(\)", ".first()"),
    (r"\bOk\(\(\)\)", "Err(Default::default())"), (r"\?;", ".ok();"), (r"\.unwrap_or\(", ".unwrap_or_else(|| "), (r"\bas u8\b", "as u32 as u8"), (r"\bas u32\b", "as u16 as u32"),
    (r"\bRc::new\(", "Rc::from("), (r"&mut \*", "&mut "), (r"\.fold\(", ".rfold("), (r"\bto_string\(\)", "to_string().to_lowercase()"), (r"\.is_some_and\(", ".is_none_or("),
]
STRLIT = re.compile(r'"((?:[^"\\]|\\.)*)"')
ENUM = re.compile(r"\benum\s+(\w+)\s*(?:<[^>]*>)?\s*\{(.*?)\n\}", re.S)


def enum_variants():
    """enum name -> [(variant, payload shape)] from the crate's source; a variant is only swapped for a sibling of the same
    payload shape (otherwise the mutant would not compile)."""
    out = {}
    for path in source_files():
        txt = open(path).read()
        for m in ENUM.finditer(txt):
            vs = []
            for ln in m.group(2).split("\n"):
                ln = ln.split("//")[0].strip()
                mm = re.match(r"(\w+)\s*(\(.*\)|\{.*\})?\s*,?$", ln)
                if mm and not ln.startswith("#"):
                    vs.append((mm.group(1), re.sub(r"\s+", "", mm.group(2) or "")))
            if len(vs) >= 2:
                out[m.group(1)] = vs
    return out


def source_files():
    out = []
    for root, _, files in os.walk(os.path.join(REPO, "src")):
        for f in files:
            if f.endswith(".rs"):
                out.append(os.path.join(root, f))
    return sorted(out)


def mutants():
    ms = []
    ENUMS.update(enum_variants())
    for path in source_files():
        rel = os.path.relpath(path, REPO)
        lines = open(path).read().split("\n")
        in_test = False
        for i, ln in enumerate(lines):
            if "#[cfg(test)]" in ln:
                in_test = True
            if in_test:
                continue
            code = ln.split("//")[0]
            if not code.strip() or code.strip().startswith(("#[", "use ", "///", "//!")):
                continue
            seen = set()
            for pat, rep in (OPS if "ops" in KINDS else []):
                for m in re.finditer(pat, code):
                    # not inside a string literal (rough: even number of quotes before)
                    if code[: m.start()].count('"') % 2 == 1:
                        continue
                    new = code[: m.start()] + rep + code[m.end():] + ln[len(code):]
                    key = (i, new)
                    if key in seen or new == ln:
                        continue
                    seen.add(key)
                    ms.append(dict(file=rel, line=i + 1, old=ln.strip(), new=new.strip(), text=new, op="%s→%s" % (pat, rep)))
            if "strings" in KINDS:
                for sm in STRLIT.finditer(code):
                    body = sm.group(1)
                    for pat, rep in STR_OPS:
                        for m in re.finditer(pat, body):
                            nb = body[: m.start()] + (rep(m) if callable(rep) else rep) + body[m.end():]
                            new = code[: sm.start(1)] + nb + code[sm.end(1):] + ln[len(code):]
                            key = (i, new)
                            if key in seen or new == ln:
                                continue
                            seen.add(key)
                            ms.append(dict(file=rel, line=i + 1, old=ln.strip(), new=new.strip(), text=new, op="in-string %s" % pat))
            if "variants" in KINDS:
                for en, vs in ENUMS.items():
                    for vi, (vn, shape) in enumerate(vs):
                        sib = [w for w, sh in vs[vi + 1:] + vs[:vi] if sh == shape]
                        if not sib:
                            continue
                        for m in re.finditer(r"\b%s::%s\b" % (en, vn), code):
                            if code[: m.start()].count('"') % 2 == 1:
                                continue
                            new = code[: m.start()] + "%s::%s" % (en, sib[0]) + code[m.end():] + ln[len(code):]
                            key = (i, new)
                            if key in seen:
                                continue
                            seen.add(key)
                            ms.append(dict(file=rel, line=i + 1, old=ln.strip(), new=new.strip(), text=new, op="variant %s::%s→%s" % (en, vn, sib[0])))
            if "twins" in KINDS:
                for pat, rep in TWINS:
                    for m in re.finditer(pat, code):
                        if code[: m.start()].count('"') % 2 == 1:
                            continue
                        new = code[: m.start()] + (m.expand(rep)) + code[m.end():] + ln[len(code):]
                        key = (i, new)
                        if key in seen or new == ln:
                            continue
                        seen.add(key)
                        ms.append(dict(file=rel, line=i + 1, old=ln.strip(), new=new.strip(), text=new, op="twin %s" % pat))
            if "lines" in KINDS:
                st = code.strip()
                # statement deletion: a call or assignment standing on its own line
                if st.endswith(";") and not re.match(r"(let|use|return|pub|fn|const|static|type|mod|break|continue|\}|\))", st) and st.count("(") == st.count(")"):
                    ms.append(dict(file=rel, line=i + 1, old=ln.strip(), new="/* deleted */", text=ln[: len(ln) - len(ln.lstrip())] + "/* deleted */", op="delete statement"))
                # two neighbouring list entries (alternatives of alt((..)), match arms, table rows, arguments) swapped
                if i + 1 < len(lines) and st.endswith(",") and lines[i + 1].split("//")[0].strip().endswith(",") and (len(ln) - len(ln.lstrip())) == (len(lines[i + 1]) - len(lines[i + 1].lstrip())) and st != lines[i + 1].strip() and "=>" not in st and not in_test:
                    ms.append(dict(file=rel, line=i + 1, old=ln.strip(), new=lines[i + 1].strip() + "  ⇅", text=lines[i + 1], op="swap with next line", swap=True))
                # a negation dropped or added
                for m in re.finditer(r"!(?=[a-z(])(?!=)", code):
                    if code[: m.start()].count('"') % 2 == 1 or (m.start() > 0 and re.match(r"[\w]", code[m.start() - 1])):
                        continue
                    new = code[: m.start()] + code[m.end():] + ln[len(code):]
                    ms.append(dict(file=rel, line=i + 1, old=ln.strip(), new=new.strip(), text=new, op="negation dropped"))
                for m in re.finditer(r"\bif (?!let\b)(?!!)", code):
                    new = code[: m.end()] + "!" + code[m.end():] + ln[len(code):]
                    if "{" in code[m.end():]:
                        cond = code[m.end(): code.rindex("{")].strip()
                        new = code[: m.end()] + "!(" + cond + ") " + code[code.rindex("{"):] + ln[len(code):]
                        ms.append(dict(file=rel, line=i + 1, old=ln.strip(), new=new.strip(), text=new, op="condition negated"))
                for m in re.finditer(r"\bSome\(([^()]*)\)", code):
                    if code[: m.start()].count('"') % 2 == 1 or "=>" in code[m.end():m.end() + 4] or code[: m.start()].rstrip().endswith(("let", "|", "(")) and "=" in code[m.end():]:
                        continue
                    new = code[: m.start()] + "None" + code[m.end():] + ln[len(code):]
                    ms.append(dict(file=rel, line=i + 1, old=ln.strip(), new=new.strip(), text=new, op="Some(x)→None"))
            if "ops" not in KINDS:
                continue
            for m in INT.finditer(code):
                if code[: m.start()].count('"') % 2 == 1:
                    continue
                n = int(m.group(1))
                new = code[: m.start()] + str(n + 1) + code[m.end():] + ln[len(code):]
                ms.append(dict(file=rel, line=i + 1, old=ln.strip(), new=new.strip(), text=new, op="int+1"))
    return ms


def worker_dir(w):
    d = os.path.join(tempfile.gettempdir(), "mutsweep-%d" % w)
    return d


def run_one(job):
    idx, m, w = job
    d = worker_dir(w)
    dst = os.path.join(d, "repo")
    # refresh the source tree (keep the target dir for incremental builds)
    subprocess.run(["rsync", "-a", "--delete", "--exclude", "target", "--exclude", ".git", "--exclude", "website", REPO + "/", dst + "/"], check=True)
    p = os.path.join(dst, m["file"])
    lines = open(p).read().split("\n")
    if m.get("swap"):
        lines[m["line"] - 1], lines[m["line"]] = lines[m["line"]], lines[m["line"] - 1]
    else:
        lines[m["line"] - 1] = m["text"]
    open(p, "w").write("\n".join(lines))
    env = dict(os.environ, CARGO_NET_OFFLINE="true", CARGO_TARGET_DIR=os.path.join(d, "target"))
    r = subprocess.run(["cargo", "test", "--offline", "--quiet", "--lib"], cwd=dst, env=env, capture_output=True, text=True)
    res = dict(m, idx=idx)
    res.pop("text", None)
    res["swap"] = bool(m.get("swap"))
    if r.returncode != 0:
        res["status"] = "does-not-compile" if "error[" in r.stderr or "error:" in r.stderr and "test failed" not in r.stderr else "killed-by-suite"
        return res
    env2 = dict(os.environ, VERIF_REPO=dst, VERIF_EVID=os.path.join(d, "evid"))
    if not os.path.exists(os.path.join(dst, ".git")):
        subprocess.run(["git", "init", "-q"], cwd=dst)
    c = subprocess.run([os.path.join(HERE, "..", "check"), "all"], env=env2, capture_output=True, text=True)
    fired = sorted({ln.split("property=")[1].split()[0] for ln in c.stdout.split("\n") if ln.startswith("VIOLATION")})
    rules = sorted({ln[len("  violated: "):].split(" : ")[0] for ln in c.stdout.split("\n") if ln.startswith("  violated: ")})
    res["status"] = "reported" if fired else "SILENT"
    res["fired"] = fired
    res["rules"] = rules[:8]
    return res


def main():
    ms = [m for m in mutants() if FILTER in m["file"]]
    if LIMIT:
        step = max(1, len(ms) // LIMIT)
        ms = ms[::step][:LIMIT]
    print("%d mutants" % len(ms), flush=True)
    for w in range(WORKERS):
        os.makedirs(os.path.join(worker_dir(w), "repo"), exist_ok=True)
    jobs = [(i, m, i % WORKERS) for i, m in enumerate(ms)]
    # one queue per worker so that a worker's scratch dir is never used concurrently
    def run_queue(w):
        out = []
        for j in jobs:
            if j[2] == w:
                try:
                    out.append(run_one(j))
                except Exception as e:
                    out.append(dict(j[1], idx=j[0], status="harness-error", error=str(e)))
                r = out[-1]
                print("%4d %-16s %s:%d  %s  =>  %s   %s" % (r["idx"], r["status"], r["file"], r["line"], r["old"][:50], r["new"][:50], ",".join(r.get("fired", []))), flush=True)
        return out
    with ThreadPoolExecutor(max_workers=WORKERS) as ex:
        res = [r for q in ex.map(run_queue, range(WORKERS)) for r in q]
    res.sort(key=lambda r: r["idx"])
    json.dump(res, open(OUT, "w"), indent=1)
    from collections import Counter
    print(Counter(r["status"] for r in res))
    print("\nSILENT survivors (suite green, no check reports):")
    for r in res:
        if r["status"] == "SILENT":
            print("  %s:%d  [%s]\n      - %s\n      + %s" % (r["file"], r["line"], r["op"], r["old"], r["new"]))
    for w in range(WORKERS):
        shutil.rmtree(worker_dir(w), ignore_errors=True)


if __name__ == "__main__":
    main()
