#!/usr/bin/env python3
"""tools/seedsweep.py [pattern] — run every stored seed (seeded/Cxx/V/patch.diff) through all checks in scratch copies and print,
per seed, whether its own property fired (TARGET), only others (other) or nothing (MISSED)."""
import glob, json, os, subprocess, sys
from concurrent.futures import ThreadPoolExecutor
HERE = os.path.dirname(os.path.abspath(__file__))
pat = sys.argv[1] if len(sys.argv) > 1 else ""
seeds = sorted(d for d in glob.glob(os.path.join(HERE, "..", "seeded", "C*", "*")) if os.path.exists(os.path.join(d, "patch.diff")) and pat in d)
def one(d):
    p = subprocess.run([sys.executable, os.path.join(HERE, "seedcheck.py"), d], capture_output=True, text=True)
    try:
        r = json.loads(p.stdout)
    except Exception:
        return d, None, p.stdout[-300:] + p.stderr[-300:]
    return d, r, None
with ThreadPoolExecutor(max_workers=6) as ex:
    res = list(ex.map(one, seeds))
bad = 0
for d, r, err in res:
    name = "/".join(d.split("/")[-2:])
    t = name.split("/")[0]
    if r is None:
        print(name, "ERROR", err)
        bad += 1
        continue
    f = r.get("properties_fired") or []
    tag = "TARGET" if t in f else ("other " if f else "MISSED")
    bad += tag != "TARGET"
    print(name, tag, f, {k: len(v) for k, v in r.get("rules_fired", {}).items() if k.startswith(t) or tag != "TARGET"})
print("%d seeds, %d not caught by their own property" % (len(res), bad))
