#!/usr/bin/env python3
"""tools/seedcheck.py <seed-dir> [--verify] [ids...]
seed-dir contains patch.diff (+ demo.rs, meta.json). Applies the patch to a scratch copy of /repo (never /repo itself),
optionally verifies the seed (existing suite green, demo fails with the patch, passes without), runs the checks
(all by default) against the scratch copy and prints which properties raised a VIOLATION. Removes the copy."""
import json, os, shutil, subprocess, sys, tempfile

args = sys.argv[1:]
verify = "--verify" in args
args = [a for a in args if a != "--verify"]
seed = os.path.abspath(args[0])
ids = args[1:] or ["all"]
HERE = os.path.dirname(os.path.abspath(__file__))
d = tempfile.mkdtemp(prefix="vseed-")
res = {"seed": seed}
try:
    dst = os.path.join(d, "repo")
    shutil.copytree("/repo", dst, ignore=shutil.ignore_patterns("target", ".git", "website"))
    subprocess.run(["git", "init", "-q"], cwd=dst)
    env = dict(os.environ, CARGO_NET_OFFLINE="true", CARGO_TARGET_DIR=os.path.join(d, "target"))
    demo = os.path.join(seed, "demo.rs")
    def cargo_test(extra):
        p = subprocess.run(["cargo", "test", "--offline", "--quiet"] + extra, cwd=dst, env=env, capture_output=True, text=True)
        return p.returncode, (p.stdout + p.stderr)
    if verify and os.path.exists(demo):
        os.makedirs(os.path.join(dst, "tests"), exist_ok=True)
        shutil.copy(demo, os.path.join(dst, "tests", "demo.rs"))
        rc, out = cargo_test(["--test", "demo"])
        res["demo_without_patch"] = "pass" if rc == 0 else "FAIL"
        if rc != 0:
            res["demo_without_patch_log"] = out[-1500:]
    p = subprocess.run(["git", "apply", "--whitespace=nowarn", os.path.join(seed, "patch.diff")], cwd=dst, capture_output=True, text=True)
    res["patch_applies"] = p.returncode == 0
    if p.returncode != 0:
        res["apply_error"] = p.stderr[-500:]
    if verify and res["patch_applies"]:
        if os.path.exists(demo):
            rc, out = cargo_test(["--test", "demo"])
            res["demo_with_patch"] = "fail" if rc != 0 else "PASSES(!)"
            if rc == 0:
                # a break that only the release profile has: the demo must fail there with the patch and pass without it
                rc, out = cargo_test(["--release", "--test", "demo"])
                if rc != 0:
                    subprocess.run(["git", "apply", "-R", "--whitespace=nowarn", os.path.join(seed, "patch.diff")], cwd=dst, capture_output=True, text=True)
                    rc0, out0 = cargo_test(["--release", "--test", "demo"])
                    subprocess.run(["git", "apply", "--whitespace=nowarn", os.path.join(seed, "patch.diff")], cwd=dst, capture_output=True, text=True)
                    res["demo_with_patch"] = "fail (release profile only)" if rc0 == 0 else "PASSES(!) in debug; release fails with and without"
                    res["demo_without_patch"] = "pass" if rc0 == 0 else "FAIL (release)"
            os.remove(os.path.join(dst, "tests", "demo.rs"))
        rc, out = cargo_test(["--lib"])
        res["suite_with_patch"] = "green" if rc == 0 else "RED"
        if rc != 0:
            res["suite_log"] = out[-1500:]
    if res["patch_applies"]:
        env2 = dict(os.environ, VERIF_REPO=dst, VERIF_EVID=os.path.join(d, "evid"))
        p = subprocess.run([os.path.join(HERE, "..", "check")] + ids, env=env2, capture_output=True, text=True)
        fired = {}
        for ln in p.stdout.split("\n"):
            if ln.startswith("  violated: "):
                key = ln[len("  violated: "):]
                pid = "C" + key[1:3]
                fired.setdefault(key.split(" : ")[0], []).append(key)
        viol = sorted({ln.split("property=")[1].split()[0] for ln in p.stdout.split("\n") if ln.startswith("VIOLATION")})
        res["properties_fired"] = viol
        res["rules_fired"] = {k: v[:4] for k, v in fired.items()}
    print(json.dumps(res, indent=1, ensure_ascii=False))
finally:
    shutil.rmtree(d, ignore_errors=True)
