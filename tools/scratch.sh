#!/bin/sh
# tools/scratch.sh <patch.diff> <dir> — scratch copy of /repo with the patch applied (caller removes it)
set -e
rm -rf "$2"; mkdir -p "$2"
rsync -a --exclude target --exclude .git --exclude website /repo/ "$2/"
cd "$2" && git init -q && git apply --whitespace=nowarn "$1"
