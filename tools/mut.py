#!/usr/bin/env python3
"""tools/mut.py <file> <old> <new> -- <check ids...> : apply one textual replacement to a scratch copy of /repo
(never /repo itself), run the given checks against it, delete the copy. For developing the checker only."""
import os, shutil, subprocess, sys, tempfile
args = sys.argv[1:]
i = args.index("--")
edits, ids = args[:i], args[i + 1:]
d = tempfile.mkdtemp(prefix="vmut-")
try:
    dst = os.path.join(d, "repo")
    shutil.copytree("/repo", dst, ignore=shutil.ignore_patterns("target", ".git", "website"))
    for j in range(0, len(edits), 3):
        f, old, new = edits[j:j + 3]
        p = os.path.join(dst, f)
        s = open(p).read()
        if old not in s:
            print("pattern not found in", f); sys.exit(3)
        open(p, "w").write(s.replace(old, new, 1))
    env = dict(os.environ, VERIF_REPO=dst, VERIF_EVID=os.path.join(d, "evid"))
    r = subprocess.run([os.path.join(os.path.dirname(os.path.abspath(__file__)), "..", "check")] + ids, env=env)
    sys.exit(r.returncode)
finally:
    shutil.rmtree(d, ignore_errors=True)
