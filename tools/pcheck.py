#!/usr/bin/env python3
"""tools/pcheck.py <patch.diff> [ids...] — apply a patch to a scratch copy of /repo (never /repo itself), run the checks, print
the violated obligations with their detail lines. Removes the copy."""
import os, shutil, subprocess, sys, tempfile
HERE = os.path.dirname(os.path.abspath(__file__))
patch = os.path.abspath(sys.argv[1])
ids = sys.argv[2:] or ["all"]
d = tempfile.mkdtemp(prefix="vpchk-")
try:
    dst = os.path.join(d, "repo")
    shutil.copytree("/repo", dst, ignore=shutil.ignore_patterns("target", ".git", "website"))
    subprocess.run(["git", "init", "-q"], cwd=dst)
    p = subprocess.run(["git", "apply", "--whitespace=nowarn", patch], cwd=dst, capture_output=True, text=True)
    if p.returncode:
        print("patch does not apply:", p.stderr)
        sys.exit(2)
    env = dict(os.environ, VERIF_REPO=dst, VERIF_EVID=os.path.join(d, "evid"))
    p = subprocess.run([os.path.join(HERE, "..", "check")] + ids, env=env, capture_output=True, text=True)
    show = False
    for ln in p.stdout.split("\n"):
        if ln.startswith("  violated: "):
            show = True
        elif not ln.startswith("    "):
            show = False
        if show or ln.startswith("VIOLATION") or ln[:1] == "C":
            print(ln[:900])
    sys.stderr.write(p.stderr[-3000:])
finally:
    shutil.rmtree(d, ignore_errors=True)
