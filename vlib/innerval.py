"""The inner parse function decided by evaluation (vlib/probe.py), whatever way it is written.

The inner function of `parse()` does four things: it reads the leading global options, lexes the rest (or supplies `-true`
for an empty rest), registers every option — the leading ones, then the ones found among the tokens, in the order written —
and hands the tokens, with each option replaced by `-true`, to the precedence parser, whose tree it returns with the options.

Instead of recognising the statements that do this (vlib/inner.py), the function is *run* on scenarios in which the three
parsers it applies are replaced by oracles: the leading pass yields a chosen list of options, the lexer a chosen token list
containing every kind of token (payloads unknown, the options concrete), the precedence parser an unknown tree — and records
what it was given.  The obligations are then read off the result:

  tokens      what the precedence parser received = the lexer's tokens with every Token::Global replaced by -true, nothing
              else touched, same order
  options     the returned options = RunOptions::default() updated with the leading options and then with the options among
              the tokens, in that order (computed with the crate's own `update`, evaluated the same way)
  tree        the returned tree is the precedence parser's result
  empty       with nothing after the leading options the precedence parser receives exactly [-true]

Anything outside the evaluated fragment raises NoEval and the caller falls back to the summary of vlib/inner.py."""
from . import facts as F
from . import peg
from . import probe as P


class Scenario:
    def __init__(self, name, leading, tokens, empty):
        self.name, self.leading, self.tokens, self.empty = name, leading, tokens, empty


def _opt(variant, *payload):
    return ("enum", "GlobalOption::%s" % variant, list(payload))


def _scenarios(facts):
    """Token lists with every variant of Token (payloads unknown); options concrete so that `update` can be evaluated."""
    tv = facts.variants("Token")
    gov = facts.variants("GlobalOption")
    thr = "Threads" if "Threads" in gov else None
    dep = "Depth" if "Depth" in gov else None
    if thr is None or dep is None:
        raise P.NoEval("GlobalOption variants not as expected")

    def toks(globs):
        out, gi = [], 0
        others = [v for v in tv if v != "Global"]
        # options spread between the other tokens; every other variant once
        for i, v in enumerate(others):
            nf = len(facts.variant_fields("Token", v))
            out.append(("enum", "Token::%s" % v, [P.Opq("%s payload" % v) for _ in range(nf)]))
            if gi < len(globs) and i % 2 == 0:
                out.append(("enum", "Token::Global", [globs[gi]]))
                gi += 1
        for g in globs[gi:]:
            out.append(("enum", "Token::Global", [g]))
        return out

    def all_pairs():
        """a token list in which every ordered pair of token kinds (a kind followed by itself included) stands side by side
        at least once — a de Bruijn sequence of order 2 over the kinds; every token has its own unknown payload, every option
        its own thread count"""
        k = len(tv)
        seq, a = [], [0] * (2 * k)

        def db(t, p):
            if t > 2:
                if 2 % p == 0:
                    seq.extend(a[1 : p + 1])
            else:
                a[t] = a[t - p]
                db(t + 1, p)
                for j in range(a[t - p] + 1, k):
                    a[t] = j
                    db(t + 1, t)

        db(1, 1)
        seq.append(seq[0])
        out, n = [], 100
        for i, ix in enumerate(seq):
            v = tv[ix]
            if v == "Global":
                n += 1
                out.append(("enum", "Token::Global", [_opt(thr, n)]))
            else:
                nf = len(facts.variant_fields("Token", v))
                out.append(("enum", "Token::%s" % v, [P.Opq("%s payload #%d" % (v, i)) for _ in range(nf)]))
        return out

    return [
        Scenario("two leading options, two among the tokens", [_opt(thr, ("some", 1)) if False else _opt(thr, 1), _opt(thr, 2)], toks([_opt(thr, 3), _opt(thr, 4)]), False),
        Scenario("depth leading, threads among the tokens", [_opt(dep)], toks([_opt(thr, 7)]), False),
        Scenario("threads leading, depth among the tokens", [_opt(thr, 5)], toks([_opt(dep)]), False),
        Scenario("no option at all", [], toks([]), False),
        Scenario("every ordered pair of token kinds side by side", [_opt(thr, 1)], all_pairs(), False),
        Scenario("only leading options, nothing after them", [_opt(thr, 9), _opt(dep)], None, True),
        # the order among the leading options themselves (nothing later overrides them)
        Scenario("three leading thread counts, no option among the tokens", [_opt(thr, 11), _opt(thr, 12), _opt(thr, 13)], toks([]), False),
        Scenario("two leading thread counts and nothing else", [_opt(thr, 21), _opt(thr, 22)], None, True),
        # the order among the options written inside the expression (no leading one)
        Scenario("three thread counts among the tokens only", [], toks([_opt(thr, 31), _opt(thr, 32), _opt(thr, 33)]), False),
    ]


def evaluate(facts, b, an):
    """-> dict(ok_tokens, ok_options, ok_tree, ok_empty, detail, scenarios) ; raises probe.NoEval when the inner function
    leaves the evaluated fragment"""
    innerk = an.role("parse_inner")
    lexk = an.role("lex")
    entry = an.role("prec_entry")
    fn = facts.fn(innerk)
    from .rules import c13

    upd = c13.update_fn(facts)
    g = peg.Grammar(b)
    rec = an.result_record(innerk)
    inp_name = b._input_name(fn)
    if inp_name is None or rec is None:
        raise P.NoEval("inner function has no input parameter / result record")
    results = []
    for sc in _scenarios(facts):
        pr = P.Probe(facts, None, fn.module)
        TREE = P.Opq("tree built by the precedence parser")
        seen = {"prec": [], "lex": 0, "leading": 0, "updates": [], "order": []}
        INPUT = P.Opq("input")

        def classify(parser_ast, env, pr=pr):
            penv = {"__module": fn.module, "__tsubst": {}, "__input": inp_name, "__fn": fn}
            try:
                ir = b.pe(parser_ast, penv)
            except Exception as ex:  # builder could not read the expression
                raise P.NoEval("parser expression not readable: %s" % ex)
            o = g.open(ir)
            refs = []
            g.walk(ir, lambda n: refs.append(n["fn"]) if n["t"] == "ref" else None, follow=False)
            if (ir["t"] == "ref" and ir["fn"] == entry) or (o["t"] == "ref" and o["fn"] == entry):
                return "prec"
            if lexk in refs or (ir["t"] == "ref" and ir["fn"] == lexk):
                return "lex"
            if any("GlobalOption" in r for r in refs) and entry not in refs:
                return "leading"
            raise P.NoEval("parser applied by the inner function not recognised: %s" % peg.show(ir)[:80])

        def apply_parser(kind, arg_val, sc=sc, seen=seen, TREE=TREE):
            seen["order"].append(kind)
            if kind == "prec":
                seen["prec"].append(arg_val)
                return ("ok", TREE)
            if kind == "lex":
                seen["lex"] += 1
                if sc.empty:
                    raise P.NoEval("the lexer is run on an empty rest")
                return ("ok", list(sc.tokens))
            seen["leading"] += 1
            return ("ok", list(sc.leading))

        def hook_mcall(pr_, e, env):
            # PARSER.parse_next(input) / PARSER.parse_next(&mut slice)
            if len(e["args"]) != 1:
                return NotImplemented
            kind = classify(e["recv"], env)
            argv = pr_.ev(e["args"][0], env)
            if kind != "prec" and argv is not INPUT:
                raise P.NoEval("a text parser is applied to something that is not the input")
            return apply_parser(kind, argv)

        def hook_ufcs(pr_, e, env):
            # winnow::Parser::<..>::parse_next(&mut PARSER, input)
            if len(e["args"]) != 2:
                return NotImplemented
            pa = e["args"][0]
            while pa.get("k") in ("ref", "paren"):
                pa = pa["e"]
            kind = classify(pa, env)
            argv = pr_.ev(e["args"][1], env)
            if kind != "prec" and argv is not INPUT:
                raise P.NoEval("a text parser is applied to something that is not the input")
            return apply_parser(kind, argv)

        def hook_is_empty(pr_, e, env, sc=sc, seen=seen):
            r = e["recv"]
            while r.get("k") in ("ref", "paren", "unary"):
                r = r["e"]
            if r.get("k") == "path" and r["segs"] == [inp_name]:
                seen["order"].append("isempty")
                return bool(sc.empty)
            return NotImplemented

        def invoke_hook(pr_, f2, self_val, args, seen=seen):
            if f2.key == lexk:
                if not args or args[0] is not INPUT:
                    raise P.NoEval("lexer called on something that is not the input")
                return apply_parser("lex", args[0])
            if f2.key == entry:
                return apply_parser("prec", args[0] if args else None)
            if f2.key == upd.key:
                seen["updates"].append(args[0] if args else None)
            return NotImplemented

        pr.mhooks["parse_next"] = hook_mcall
        pr.callhooks["parse_next"] = hook_ufcs
        pr.mhooks["is_empty"] = hook_is_empty
        pr.invoke_hook = invoke_hook
        out = pr.invoke(fn, None, [INPUT] + [P.Opq("extra") for _ in fn.params[1:]])
        # reference options: default() updated in the order written, with the crate's own update
        pr2 = P.Probe(facts, None, upd.module)
        ref = pr2.call({"k": "call", "f": {"k": "path", "segs": ["RunOptions", "default"], "gen": [[], []], "qself": None}, "args": []}, {})
        for o_ in sc.leading + ([t[2][0] for t in sc.tokens if t[1] == "Token::Global"] if sc.tokens else []):
            pr2.invoke(upd, ref, [o_])
        results.append((sc, out, seen, TREE, ref))
    # ---- verdicts
    det = []
    ok_tokens = ok_options = ok_tree = ok_empty = ok_order = True
    TRUE_TOKEN = ("enum", "Token::Test", [("enum", "Test::True", [])])

    def same_token(a, b_):
        if not (isinstance(a, tuple) and isinstance(b_, tuple) and a[0] == b_[0] == "enum" and a[1] == b_[1] and len(a[2]) == len(b_[2])):
            return False
        return all((x is y) or (not isinstance(x, P.Opq) and not isinstance(y, P.Opq) and x == y) for x, y in zip(a[2], b_[2]))

    def strip(d):
        return {k: v for k, v in d.items() if not k.startswith("__")} if isinstance(d, dict) else d

    for sc, out, seen, TREE, ref in results:
        if not (isinstance(out, tuple) and out and out[0] == "ok"):
            raise P.NoEval("scenario `%s` does not end in Ok(..): %r" % (sc.name, out))
        val = out[1]
        if rec["kind"] == "tuple":
            if not (isinstance(val, list) and len(val) == 2):
                raise P.NoEval("result is not the pair")
            comp = {a_: val[a_] for a_, _ in rec["fields"]}
        else:
            if not isinstance(val, dict):
                raise P.NoEval("result is not the record")
            comp = val
        opts, tree = comp[rec["opts"]], comp[rec["tree"]]
        # tree
        if not (tree is TREE and len(seen["prec"]) == 1):
            ok_tree = False
            det.append("%s: the returned tree is not the result of the one run of the precedence parser (%d runs)" % (sc.name, len(seen["prec"])))
        got = seen["prec"][0] if seen["prec"] else None
        if sc.empty:
            if not (isinstance(got, list) and len(got) == 1 and same_token(got[0], TRUE_TOKEN)):
                ok_empty = False
                det.append("%s: the precedence parser received %r instead of [-true]" % (sc.name, got))
        else:
            want = [TRUE_TOKEN if t[1] == "Token::Global" else t for t in sc.tokens]
            if not (isinstance(got, list) and len(got) == len(want) and all(same_token(x, y) for x, y in zip(got, want))):
                ok_tokens = False
                det.append("%s: the precedence parser received %s; expected the lexer's tokens with each option replaced by -true: %s" % (sc.name, _show(got), _show(want)))
            if seen["lex"] != 1:
                ok_tokens = False
                det.append("%s: the lexer is run %d times" % (sc.name, seen["lex"]))
        if "isempty" not in seen["order"] or "leading" not in seen["order"] or seen["order"].index("isempty") < seen["order"].index("leading"):
            ok_order = False
            det.append("%s: the rest is not tested for emptiness after the leading pass (events: %s)" % (sc.name, seen["order"]))
        if seen["leading"] != 1:
            ok_options = False
            det.append("%s: the leading pass is run %d times" % (sc.name, seen["leading"]))
        if strip(opts) != strip(ref):
            ok_options = False
            det.append("%s: options returned %r; registering the leading options and then those among the tokens, in the order written, gives %r" % (sc.name, strip(opts), strip(ref)))
    return dict(ok_tokens=ok_tokens, ok_options=ok_options, ok_tree=ok_tree, ok_empty=ok_empty, ok_order=ok_order, detail="; ".join(det), n=len(results), names=[r[0].name for r in results])


def _show(toks):
    if not isinstance(toks, list):
        return repr(toks)
    return "[" + ", ".join((t[1].split("::")[-1] + ("(%s)" % ",".join(x[1].split("::")[-1] if isinstance(x, tuple) and len(x) > 1 and isinstance(x[1], str) else "·" for x in t[2]) if t[2] else "")) if isinstance(t, tuple) and len(t) == 3 else repr(t) for t in toks) + "]"


_CACHE = {}


def cached(facts, b, an):
    """(result dict, None) when the inner function could be evaluated, (None, reason) otherwise"""
    k = id(facts)
    if k not in _CACHE:
        try:
            _CACHE[k] = (evaluate(facts, b, an), None)
        except (P.NoEval, P.Panic) as ex:
            _CACHE[k] = (None, str(ex))
        except F.AnchorMissing as ex:
            _CACHE[k] = (None, "anchor missing: %s" % ex)
    return _CACHE[k]


def how(ev):
    return "decided by evaluating the inner parse function on %d scenarios (leading pass, lexer and precedence parser replaced by oracles; tokens of every kind, options concrete): %s" % (ev["n"], "; ".join(ev["names"]))
