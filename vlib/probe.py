"""Exhaustive case analysis of small pure functions over a finite abstraction.

Some rules are about functions whose behaviour depends only on which of a few classes their inputs fall in (is the slot
None, Some("") or Some(other)?  is the label one of the category names or something else?).  Such a function is evaluated
here on one representative per class, for every combination — the abstract transition table of the function — whatever way
it is written (guards, if/else chains, helper methods, constant patterns, `matches!`, `is_some_and`, …).

Values: None | ("some", v) for Option, str, bool, int, dict (struct: field -> value, "__ty" -> type name), ("enum", "Path::Variant",
[args]), list.  Anything outside the modelled subset raises NoEval: the rule then reports "not decided" (fail closed).
"""
import copy
import re as _re

from . import rx
from .facts import norm_ty, src, find_all


STD_RECEIVERS = {"String", "str", "Vec", "Option", "Result", "char", "u8", "u16", "u32", "u64", "usize", "i32", "i64", "bool", "Rc", "Box", "Mode", "SFlag"}


class NoEval(Exception):
    pass


class Panic(Exception):
    """The evaluated code panics on this input (unwrap of None/Err, unreachable!, panic!)."""


def flag_tables(facts):
    """{type: {flag name: bits}} of the crate's bitflags types"""
    if getattr(facts, "_probe_flags", None) is None:
        from . import emit

        it = emit.Interp(facts)
        it.flag_const(["Mode", "S_IRWXU"])
        facts._probe_flags = {ty: {n: v for n, v in tab.items() if v is not None} for ty, tab in it._flagtys.items()}
    return facts._probe_flags


class Opq:
    """A value the evaluation knows nothing about (an external object); methods on it yield further unknowns."""

    def __init__(self, label, expr=None):
        self.label = label
        self.expr = expr  # None for an input; ("mcall", method, receiver, [args]) / ("bin", op, lhs, rhs) / ("cast", ty, value)

    def __repr__(self):
        return "<%s>" % self.label


def _has_opq(v):
    if isinstance(v, Opq):
        return True
    if isinstance(v, dict):
        return any(_has_opq(x) for x in v.values())
    if isinstance(v, (list, tuple)):
        return any(_has_opq(x) for x in v)
    return False


def _copy_keep_opq(v):
    """A copy of a container that shares the unknowns (their identity is what the rules compare)."""
    if isinstance(v, dict):
        return {k: _copy_keep_opq(x) for k, x in v.items()}
    if isinstance(v, list):
        return [_copy_keep_opq(x) for x in v]
    return v


class _Break(Exception):
    def __init__(self, v=()):
        self.v = v


class _Continue(Exception):
    pass


LOOP_BOUND = 256  # iterations of a `while` / `loop` / hand-written iterator evaluated before giving up (NoEval)
ITER_ADAPTORS = ("any", "all", "find", "find_map", "map", "filter", "filter_map", "collect", "count", "for_each", "fold", "try_fold", "position", "last", "rev", "enumerate", "cloned", "copied", "peekable", "chain", "flat_map", "max", "min", "sum", "take_while", "skip_while")


class PlaceRef:
    """A `&mut` to one element of a list (the loop variable of `for x in list.iter_mut()`): reads see the element as it is now,
    `*x = v` and `mem::replace(x, v)` change the list."""

    def __init__(self, cont, key):
        self.cont, self.key = cont, key

    def get(self):
        return self.cont[self.key]


class _Return(Exception):
    def __init__(self, v):
        self.v = v


class Probe:
    def __init__(self, facts, selfty=None, module=()):
        self.f = facts
        self.selfty = selfty
        self.module = tuple(module)
        self.depth = 0
        self.invoke_hook = None  # callable(probe, fn, self value, args) -> value | NotImplemented, asked before any crate function is entered
        self.intercept = {}  # fn key -> callable(args) -> value
        self.mhooks = {}
        self.callhooks = {}  # last path segment of a called function -> hook(probe, call node, env) -> value | NotImplemented
        self.lenient = False
        self.opaque_log = []
        self.opaque_calls = set()  # fn keys left uninterpreted: a call yields Opq(expr=("call", key, args))
        self._flags = None
        self.cur = []  # stack of functions being evaluated
        self.frames = []  # (fn, self value, argument values) of the calls being evaluated
        self.invoked = set()  # keys of the crate functions evaluated so far

    @property
    def flags(self):
        if self._flags is None:
            self._flags = flag_tables(self.f)
        return self._flags

    @property
    def flagmask(self):
        m = 0
        for tab in self.flags.values():
            for v in tab.values():
                m |= v
        return m

    # ------------------------------------------------------------------ helpers
    def const(self, name):
        """The initialiser of the constant `name` as seen from the function being evaluated: its own module first, then the
        enclosing modules, then a unique constant of that name anywhere in the crate."""
        mod = tuple(self.cur[-1].module) if self.cur else tuple(self.module)
        hits = [(k, it) for k, it in self.f.consts.items() if k.split("::")[-1] == name]
        if not hits:
            return None
        for i in range(len(mod), -1, -1):
            for k, it in hits:
                if tuple(k.split("::")[:-1]) == mod[:i]:
                    return it["e"]
        if len(hits) == 1:
            return hits[0][1]["e"]
        # associated constants (`Type::NAME`) and imported ones: a unique owner type is fine, several are ambiguous
        raise NoEval("constant %s is defined in several modules" % name)

    def find_fn(self, segs, args=None):
        if len(segs) == 1:
            cands = [fn for fn in self.f.fns.values() if fn.impl is None and fn.name == segs[0] and not fn.test]
            same = [fn for fn in cands if tuple(fn.module) == tuple(self.module or ())]
            if same:
                return same[0]
            # a (possibly renaming) import of the module the code is written in: `use a::b::f as g;`
            for u in self.f.uses.get(tuple(self.module or ()), []):
                if u.get("glob") or (u.get("alias") or (u.get("path") or [None])[-1]) != segs[0]:
                    continue
                tail = [x for x in u["path"] if x not in ("crate", "self", "super")]
                hits = [fn for key, fn in self.f.fns.items() if tail and fn.impl is None and not fn.test and fn.name == tail[-1] and (key == "::".join(tail) or key.endswith("::" + "::".join(tail)) or "::".join(tail).endswith(key))]
                if len(hits) == 1:
                    return hits[0]
                if tail and tail[-1] != segs[0]:
                    return None  # renamed import of something else: not the crate's function of that name
            return cands[0] if len(cands) == 1 else None
        ty = segs[-2]
        if ty == "Self":
            ty = self.selfty
        fn = self.f.fns.get("%s::%s" % (ty, segs[-1]))
        if fn is not None or ty is None:
            return fn
        # a method of a trait the crate implements for the type (`Operator::try_from`, `Token::from`)
        cands = [f_ for k_, f_ in self.f.fns.items() if not f_.test and _re.match(r"^<%s as [^>]*(<.*>)?>::%s$" % (_re.escape(ty), _re.escape(segs[-1])), k_)]
        if len(cands) == 1:
            return cands[0]
        if len(cands) > 1 and args:
            a0 = args[0]
            want = None
            if isinstance(a0, tuple) and len(a0) == 3 and a0[0] == "enum":
                want = a0[1].split("::")[0]
            elif isinstance(a0, dict) and a0.get("__ty"):
                want = a0["__ty"]
            if want is not None:
                hit = [f_ for f_ in cands if _re.search(r"<%s>>::" % _re.escape(want), f_.key) or _re.search(r"<&%s>>::" % _re.escape(want), f_.key)]
                if len(hit) == 1:
                    return hit[0]
        return None

    # ------------------------------------------------------------------ patterns
    def pmatch(self, p, v, env):
        """-> dict of bindings or None"""
        k = p["k"]
        if k in ("ref", "typed"):
            return self.pmatch(p["pat"], v, env)
        if k == "wild":
            return {}
        if k == "or":
            for c in p["cases"]:
                b = self.pmatch(c, v, env)
                if b is not None:
                    return b
            return None
        if isinstance(v, Opq) and k in ("lit", "range", "path", "tstruct", "tuple", "struct", "slice"):
            raise NoEval("a pattern inspects the unknown %r" % v)
        if k == "lit":
            return {} if v == p["v"] else None
        if k == "ident":
            name = p["name"]
            if name == "None":
                return {} if v is None else None
            ce = self.const(name) if name[:1].isupper() else None
            if ce is not None:
                if isinstance(v, Opq):
                    raise NoEval("a pattern inspects the unknown %r" % v)
                return {} if self.ev(ce, {}) == v else None
            if p.get("sub"):
                b = self.pmatch(p["sub"], v, env)
                return None if b is None else dict(b, **{name: v})
            return {name: v}
        if k == "path":
            segs = p["segs"]
            if segs == ["None"]:
                return {} if v is None else None
            # a variant of the matched enum, or a constant (`FormatSpecial::LINE_FEED`, `MAX`): a constant pattern matches the
            # values equal to the constant
            v_enum = v[1].split("::")[0] if isinstance(v, tuple) and v and v[0] == "enum" and "::" in v[1] else None
            owner = segs[-2] if len(segs) >= 2 else v_enum
            if owner == "Self":
                owner = self.selfty
            is_variant = owner in self.f.enums and any(vv["name"] == segs[-1] for vv in self.f.enums[owner]["variants"])
            ce = None if is_variant else self.const(segs[-1])
            if ce is not None:
                cv = self.ev(ce, {})
                if isinstance(cv, Opq) or _has_opq(cv) or _has_opq(v):
                    raise NoEval("constant pattern %s against an unknown" % "::".join(segs))
                return {} if cv == v else None
            if isinstance(v, tuple) and v and v[0] == "enum":
                return {} if v[1].split("::")[-1] == segs[-1] and not v[2] else None
            raise NoEval("path pattern %s" % "::".join(segs))
        if k == "tstruct":
            segs = p["segs"]
            if segs in (["Ok"], ["Err"]):
                if not (isinstance(v, tuple) and v and v[0] in ("ok", "err")):
                    raise NoEval("%s pattern on %r" % (segs[0], v))
                if v[0] != segs[0].lower():
                    return None
                return self.pmatch(p["elems"][0], v[1], env)
            if segs == ["Some"]:
                if v is None:
                    return None
                if not (isinstance(v, tuple) and v[0] == "some"):
                    raise NoEval("Some pattern on %r" % (v,))
                return self.pmatch(p["elems"][0], v[1], env)
            if isinstance(v, tuple) and v and v[0] == "enum":
                if v[1].split("::")[-1] != segs[-1] or len(v[2]) != len(p["elems"]):
                    return None
                out = {}
                for q, x in zip(p["elems"], v[2]):
                    b = self.pmatch(q, x, env)
                    if b is None:
                        return None
                    out.update(b)
                return out
            raise NoEval("tuple-struct pattern on %r" % (v,))
        if k == "struct":
            if not isinstance(v, dict):
                raise NoEval("struct pattern on %r" % (v,))
            out = {}
            for fl in p["fields"]:
                if fl["name"] not in v:
                    raise NoEval("field %s" % fl["name"])
                b = self.pmatch(fl["pat"], v[fl["name"]], env)
                if b is None:
                    return None
                out.update(b)
            return out
        if k == "tuple":
            if not isinstance(v, list) or len(v) != len(p["elems"]):
                raise NoEval("tuple pattern")
            out = {}
            for q, x in zip(p["elems"], v):
                b = self.pmatch(q, x, env)
                if b is None:
                    return None
                out.update(b)
            return out
        raise NoEval("pattern %s" % k)

    # ------------------------------------------------------------------ places (assignment targets)
    def place(self, e, env):
        """(container dict, key) for `var.field` / `self.field` / `var`"""
        e0 = e
        while e0["k"] in ("paren",) or (e0["k"] == "unary" and e0["op"] == "*"):
            e0 = e0["e"]
        if e0["k"] == "field":
            base = self.ev(e0["e"], env)
            if isinstance(base, dict):
                return base, e0["name"]
            raise NoEval("field of a non-struct")
        if e0["k"] == "path" and len(e0["segs"]) == 1:
            if e0["segs"][0] in env and isinstance(env[e0["segs"][0]], PlaceRef):
                r_ = env[e0["segs"][0]]
                return r_.cont, r_.key
            return env, e0["segs"][0]
        raise NoEval("assignment target %s" % src(e)[:30])

    # ------------------------------------------------------------------ expressions
    def ev(self, e, env):
        self.depth += 1
        try:
            if self.depth > 60:
                raise NoEval("depth")
            return self._ev(e, env)
        finally:
            self.depth -= 1

    def _ev(self, e, env):
        k = e["k"]
        if k == "paren" or k == "ref" or (k == "unary" and e["op"] == "*"):
            return self.ev(e["e"], env)
        if k == "lit":
            if e["t"] in ("str", "bool", "char"):
                return e["v"]
            if e["t"] == "int":
                return int(e["v"])
            raise NoEval("literal")
        if k == "path":
            segs = e["segs"]
            if len(segs) == 1:
                if segs[0] in env:
                    v_ = env[segs[0]]
                    return v_.get() if isinstance(v_, PlaceRef) else v_
                if segs[0] == "None":
                    return None
                ce = self.const(segs[0])
                if ce is not None:
                    return self.ev(ce, {})
                if self.find_fn(segs) is not None:
                    return ("fnref_path", e, tuple(self.cur[-1].module) if self.cur else self.module)
                if segs[0] in self.f.structs or (segs[0] == "Self" and self.selfty):
                    return ("enum", self.selfty if segs[0] == "Self" else segs[0], [])  # tuple-struct constructor as a function
                raise NoEval("name %s" % segs[0])
            if segs[-2] in self.flags and segs[-1] in self.flags[segs[-2]]:
                return self.flags[segs[-2]][segs[-1]]
            ce = self.const(segs[-1])
            if ce is not None:
                return self.ev(ce, {})
            ty = self.selfty if segs[-2] == "Self" else segs[-2]
            if segs[-1][:1].islower():
                return ("fnref_path", e, tuple(self.cur[-1].module) if self.cur else self.module)
            return ("enum", "%s::%s" % (ty, segs[-1]), [])
        if k == "field":
            b = self.ev(e["e"], env)
            if isinstance(b, dict) and e["name"] in b:
                return b[e["name"]]
            raise NoEval("field %s" % e["name"])
        if k == "unary" and e["op"] == "!":
            v = self.ev(e["e"], env)
            if isinstance(v, Opq):
                return Opq("!%r" % v, ("not", v))
            if isinstance(v, bool):
                return not v
            if isinstance(v, int):
                return ~v & self.flagmask
            raise NoEval("! on %r" % (v,))
        if k == "unary" and e["op"] == "-":
            v = self.ev(e["e"], env)
            if isinstance(v, int):
                return -v
            raise NoEval("negation")
        if k == "binary":
            op = e["op"]
            if op == "&&":
                return self.ev(e["lhs"], env) and self.ev(e["rhs"], env)
            if op == "||":
                return self.ev(e["lhs"], env) or self.ev(e["rhs"], env)
            if op in ("==", "!="):
                l, r = self.ev(e["lhs"], env), self.ev(e["rhs"], env)
                if (isinstance(l, Opq) or isinstance(r, Opq)) and l is not r:
                    raise NoEval("comparison with the unknown %r" % (l if isinstance(l, Opq) else r))
                r = l == r
                return r if op == "==" else not r
            if op in ("|=", "&=", "^=", "+=", "-=", "*=", "<<=", ">>="):
                cont, key = self.place(e["lhs"], env)
                cont[key] = self._ev(dict(e, op=op[:-1]), env)
                return ()
            l, r = self.ev(e["lhs"], env), self.ev(e["rhs"], env)
            if isinstance(l, Opq) or isinstance(r, Opq):
                return Opq("(%r %s %r)" % (l, op, r), ("bin", op, l, r))
            if isinstance(l, int) and isinstance(r, int) and not isinstance(l, bool):
                if op in ("+", "-", "*", "<<", ">>", "&", "|", "^"):
                    return {"+": l + r, "-": l - r, "*": l * r, "<<": l << r, ">>": l >> r, "&": l & r, "|": l | r, "^": l ^ r}[op]
                if op in ("/", "%") and r != 0:
                    return l // r if op == "/" else l % r
                if op in ("<", "<=", ">", ">="):
                    return {"<": l < r, "<=": l <= r, ">": l > r, ">=": l >= r}[op]
            raise NoEval("operator %s" % op)
        if k == "assign":
            cont, key = self.place(e["lhs"], env)
            cont[key] = self.ev(e["rhs"], env)
            return ()
        if k == "block":
            return self.block(e, env)
        if k == "if":
            c = e["cond"]
            if c["k"] == "letexpr":
                b = self.pmatch(c["pat"], self.ev(c["e"], env), env)
                if b is not None:
                    return self.block(e["then"], dict_view(env, b))
            elif self.ev(c, env):
                return self.block(e["then"], env)
            if e.get("else") is not None:
                return self.ev(e["else"], env)
            return ()
        if k == "match":
            v = self.ev(e["scrut"], env)
            for arm in e["arms"]:
                b = self.pmatch(arm["pat"], v, env)
                if b is None:
                    continue
                env2 = dict_view(env, b)
                if arm["guard"] is not None and not self.ev(arm["guard"], env2):
                    continue
                return self.ev(arm["body"], env2)
            raise NoEval("no arm matches %r" % (v,))
        if k == "macro":
            if e["name"] == "matches":
                b = self.pmatch(e["pat"], self.ev(e["e"], env), env)
                if b is None:
                    return False
                return bool(self.ev(e["guard"], dict_view(env, b))) if e.get("guard") is not None else True
            if e["name"].split("::")[-1] in ("debug", "trace", "info", "warn", "error"):
                return ()
            if e["name"] == "vec" and "args" in e:
                return [self.ev(a, env) for a in e["args"]]
            if e["name"] == "vec" and not e.get("raw"):
                return []
            if e["name"] in ("unreachable", "panic", "todo", "unimplemented"):
                raise Panic("%s!() reached" % e["name"])
            if e["name"] in ("assert", "debug_assert") and e.get("args"):
                c_ = self.ev(e["args"][0], env)
                if c_ is True:
                    return ()
                if c_ is False:
                    raise Panic("%s!(%s) fails" % (e["name"], src(e["args"][0])[:40]))
                raise NoEval("assertion on an unknown value")
            raise NoEval("macro %s" % e["name"])
        if k in ("tuple", "array"):
            return [self.ev(x, env) for x in e["elems"]]
        if k == "try":
            v = self.ev(e["e"], env)
            if isinstance(v, tuple) and v and v[0] in ("ok", "some"):
                return v[1]
            if v is None or (isinstance(v, tuple) and v and v[0] == "err"):
                raise _Return(v)
            raise NoEval("? on %r" % (v,))
        if k == "return":
            raise _Return(self.ev(e["e"], env) if e["e"] is not None else ())
        if k == "for":
            it_ = rx.peel(e["iter"])
            enum_ = False
            if it_.get("k") == "mcall" and it_["m"] == "enumerate" and not it_["args"]:
                enum_, it_ = True, rx.peel(it_["recv"])
            if it_.get("k") == "mcall" and it_["m"] == "iter_mut" and not it_["args"]:
                # `for x in list.iter_mut()`: the loop variable is a place inside the list
                base_ = self.ev(it_["recv"], env)
                if isinstance(base_, list):
                    for i_ in range(len(base_)):
                        ref_ = PlaceRef(base_, i_)
                        b = self.pmatch(e["pat"], [i_, ref_] if enum_ else ref_, env) if not enum_ else self._bind_enum_place(e["pat"], i_, ref_, env)
                        if b is None:
                            raise NoEval("loop pattern")
                        try:
                            self.block(e["body"], dict_view(env, b))
                        except _Continue:
                            continue
                        except _Break:
                            break
                    return ()
            items = self.ev(e["iter"], env)
            if isinstance(items, dict) and items.get("__ty"):
                items = self.drain(items)
            if not isinstance(items, list):
                raise NoEval("loop over a non-list")
            for it in items:
                b = self.pmatch(e["pat"], it, env)
                if b is None:
                    raise NoEval("loop pattern")
                try:
                    self.block(e["body"], dict_view(env, b))
                except _Continue:
                    continue
                except _Break:
                    break
            return ()
        if k in ("while", "loop"):
            n = 0
            while True:
                n += 1
                if n > LOOP_BOUND:
                    raise NoEval("loop not finished after %d iterations" % LOOP_BOUND)
                env2 = env
                if k == "while":
                    c = e["cond"]
                    if c["k"] == "letexpr":
                        b = self.pmatch(c["pat"], self.ev(c["e"], env), env)
                        if b is None:
                            break
                        env2 = dict_view(env, b)
                    else:
                        cv = self.ev(c, env)
                        if isinstance(cv, Opq):
                            raise NoEval("loop condition %r" % (cv,))
                        if not cv:
                            break
                try:
                    self.block(e["body"], env2)
                except _Continue:
                    continue
                except _Break as br:
                    return br.v
            return ()
        if k == "break":
            raise _Break(self.ev(e["e"], env) if e.get("e") is not None else ())
        if k == "continue":
            raise _Continue()
        if k == "call":
            return self.call(e, env)
        if k == "mcall":
            return self.mcall(e, env)
        if k == "struct":
            out = {"__ty": e["segs"][-1]}
            for fl in e["fields"]:
                out[fl["name"]] = self.ev(fl["e"], env)
            return out
        if k == "closure":
            return ("closure", e, env)
        if k == "cast":
            v = self.ev(e["e"], env)
            if isinstance(v, Opq):
                return Opq("(%r as %s)" % (v, e["ty"]), ("cast", norm_ty(e["ty"]), v))
            if isinstance(v, int):
                return v
            if isinstance(v, tuple) and v and v[0] in ("enum", "fnref_path", "closure") and ("fn(" in norm_ty(e["ty"]) or norm_ty(e["ty"]) in self.f.types):
                return v  # a constructor or function named as a function pointer (`TimeSpec::Second as TimeUnit`)
            raise NoEval("cast")
        if k == "index":
            base = self.ev(e["e"], env)
            idx = self.ev(e["idx"], env)
            if isinstance(base, list) and isinstance(idx, int) and not isinstance(idx, bool):
                if 0 <= idx < len(base):
                    return base[idx]
                raise Panic("index %d out of bounds of a list of %d" % (idx, len(base)))
            raise NoEval("index into %s" % type(base).__name__)
        raise NoEval("expression %s" % k)

    def _bind_enum_place(self, pat, i, ref, env):
        p = pat
        while isinstance(p, dict) and p.get("k") in ("paren", "typed"):
            p = p.get("pat")
        if not (isinstance(p, dict) and p.get("k") == "tuple" and len(p["elems"]) == 2):
            return None
        out = {}
        a, b = p["elems"]
        if a.get("k") == "ident":
            out[a["name"]] = i
        elif a.get("k") != "wild":
            return None
        if b.get("k") == "ident":
            out[b["name"]] = ref
        elif b.get("k") != "wild":
            return None
        return out

    def drain(self, it):
        """Everything a hand-written iterator of the crate (a struct value with `impl Iterator`) yields, by evaluating its
        next() until it returns None (bounded)."""
        nxt = self.f.fns.get("<%s as Iterator>::next" % it.get("__ty"))
        if nxt is None:
            raise NoEval("%s is not an iterator of the crate" % it.get("__ty"))
        out = []
        while True:
            r = self.invoke(nxt, it, [])
            if r is None:
                return out
            if not (isinstance(r, tuple) and len(r) == 2 and r[0] == "some"):
                raise NoEval("next() yields %r" % (r,))
            out.append(r[1])
            if len(out) > LOOP_BOUND:
                raise NoEval("iterator not exhausted after %d elements" % LOOP_BOUND)

    def block(self, blk, env):
        stmts = rx.stmts_of(blk)
        val = ()
        for i, st in enumerate(stmts):
            if st["k"] == "let":
                v = self.ev(st["init"], env) if st.get("init") is not None else None
                v = self._collect_into(st, v)
                b = self.pmatch(st["pat"], v, env)
                if b is None:
                    if st.get("else") is not None:
                        self.ev(st["else"], env)
                    raise NoEval("let pattern does not match")
                env.update(b)
            elif st["k"] == "expr":
                val = self.ev(st["e"], env)
                if st.get("semi"):
                    val = ()
            elif st["k"] == "item":
                continue
            else:
                raise NoEval("statement %s" % st["k"])
        return val

    def _collect_into(self, st, v):
        """`let x: T = ITER.collect();` with T a crate type that implements FromIterator by hand: what its from_iter makes of
        the collected elements (and through it the Extend impl it may delegate to)."""
        if not isinstance(v, list):
            return v
        init = rx.peel(st.get("init") or {})
        if not (init.get("k") == "mcall" and init.get("m") == "collect"):
            return v
        ty = None
        p_ = st["pat"]
        if isinstance(p_, dict) and p_.get("k") == "typed":
            ty = norm_ty(p_.get("ty") or "")
        if init.get("targs"):
            ty = norm_ty(init["targs"][0])
        ty = (ty or "").split("<")[0]
        if not ty or (ty not in self.f.structs and ty not in self.f.enums):
            return v
        fi = [f_ for k_, f_ in self.f.fns.items() if k_.startswith("<%s as " % ty) and "FromIterator" in k_ and k_.endswith(">::from_iter") and not f_.test]
        if len(fi) != 1:
            return v
        return self.invoke(fi[0], None, [v])

    def apply(self, fv, args):
        if isinstance(fv, tuple) and fv and fv[0] == "closure":
            _, node, cenv = fv
            env2 = dict_view(cenv, {})
            for p, a in zip(node["params"], args):
                b = self.pmatch(p, a, env2)
                if b is None:
                    raise NoEval("closure parameter")
                env2.update(b)
            try:
                return self.ev(node["body"], env2)
            except _Return as r_:
                return r_.v  # `return` inside a closure leaves the closure
        if isinstance(fv, tuple) and fv and fv[0] == "fnref_path":
            b = self.builtin(fv[1]["segs"], list(args))
            if b is not NotImplemented:
                return b
            fn = self.find_fn(fv[1]["segs"], list(args))
            if fn is not None:
                if fn.node.get("self") is not None and args:
                    return self.invoke(fn, args[0], list(args[1:]))  # Type::method used as a function: first argument is self
                return self.invoke(fn, None, args)
            if fv[1]["segs"][-2:] == ["String", "from"] and len(args) == 1:
                return args[0]
            if fv[1]["segs"][-2:] in (["Vec", "new"], ["Vec", "default"]) and not args:
                return []
            if fv[1]["segs"][-2:] in (["String", "new"], ["String", "default"]) and not args:
                return ""
            if len(fv[1]["segs"]) >= 2 and fv[1]["segs"][-1][:1].isupper():
                return ("enum", "::".join(fv[1]["segs"][-2:]), list(args))
            if len(fv[1]["segs"]) >= 2 and fv[1]["segs"][-2] in STD_RECEIVERS and args:
                # a method of a standard type named as a function (`String::is_empty`): the method call on the first argument
                env2 = dict_view({}, {"__a%d" % i: a for i, a in enumerate(args)})
                pth = lambda n_: {"k": "path", "segs": [n_], "gen": [[]], "qself": None, "l": fv[1].get("l")}
                return self.mcall({"k": "mcall", "l": fv[1].get("l"), "recv": pth("__a0"), "m": fv[1]["segs"][-1], "targs": [], "args": [pth("__a%d" % i) for i in range(1, len(args))]}, env2)
        if isinstance(fv, tuple) and fv and fv[0] == "enum" and not fv[2]:
            return ("enum", fv[1], list(args))  # a tuple-variant constructor used as a function
        raise NoEval("not callable")

    def invoke(self, fn, self_val, args):
        if fn.key in self.intercept:
            return self.intercept[fn.key](args)
        if self.invoke_hook is not None:
            r = self.invoke_hook(self, fn, self_val, args)
            if r is not NotImplemented:
                return r
        if fn.key in self.opaque_calls:
            allv = ([self_val] if self_val is not None else []) + list(args)
            self.opaque_log.append((fn.key, allv))
            return Opq("%s(%s)" % (fn.key, ", ".join(map(repr, allv))), ("call", fn.key, allv))
        self.cur.append(fn)
        self.frames.append((fn, self_val, list(args)))
        self.invoked.add(fn.key)
        try:
            return self._invoke(fn, self_val, args)
        finally:
            self.cur.pop()
            self.frames.pop()

    def _invoke(self, fn, self_val, args):
        env = {}
        if self_val is not None:
            env["self"] = self_val
        params = [p for p in fn.node["inputs"]]
        for p, a in zip(params, args):
            b = self.pmatch(p["pat"], a, env)
            if b is None:
                raise NoEval("parameter pattern")
            env.update(b)
        old = self.selfty
        if fn.impl is not None:
            self.selfty = norm_ty(fn.impl["self_ty"])
        try:
            return self.block(fn.body, env)
        except _Return as r:
            return r.v
        finally:
            self.selfty = old

    def call(self, e, env):
        f = e["f"]
        if f["k"] != "path":
            raise NoEval("call")
        segs = f["segs"]
        if segs[-1] in self.callhooks:
            r = self.callhooks[segs[-1]](self, e, env)
            if r is not NotImplemented:
                return r
        if segs[-2:] == ["mem", "replace"] and len(e["args"]) == 2:
            cont, key = self.place(rx.peel(e["args"][0]), env)
            old = cont[key]
            cont[key] = self.ev(e["args"][1], env)
            return old
        if self.lenient and len(segs) >= 2 and segs[-1][:1].isupper() and self.find_fn(segs) is None:
            # arguments of an enum constructor that cannot be evaluated stay unknown (the caller compares the others)
            args = []
            for a in e["args"]:
                try:
                    args.append(self.ev(a, env))
                except NoEval as ex:
                    args.append(Opq("unevaluated: %s" % ex))
        else:
            args = [self.ev(a, env) for a in e["args"]]
        if segs == ["Some"] and len(args) == 1:
            return ("some", args[0])
        if segs in (["Ok"], ["Err"]) and len(args) == 1:
            return (segs[0].lower(), args[0])
        if segs[-2:] in (["String", "new"], ["String", "default"]) and not args:
            return ""
        if segs[-2:] in (["Vec", "new"], ["Vec", "default"]) and not args:
            return []
        if segs[-2:] == ["String", "with_capacity"] and len(args) == 1:
            return ""
        if segs[-2:] in (["Rc", "new"], ["Box", "new"], ["Arc", "new"]) and len(args) == 1:
            return args[0]
        if segs[-2:] == ["iter", "once"] and len(args) == 1:
            return [args[0]]
        if segs[-2:] == ["iter", "empty"] and not args:
            return []
        if segs[-2:] == ["Vec", "with_capacity"] and len(args) == 1:
            return []
        if segs[-2:] == ["String", "from"] and len(args) == 1:
            return args[0]
        if segs[-1] == "default" and not args and len(segs) == 2:
            ty = self.selfty if segs[0] == "Self" else segs[0]
            sd = self.f.structs.get(ty)
            if sd is not None:
                out = {"__ty": ty}
                for fl in sd["fields"]:
                    t = norm_ty(fl["ty"])
                    out[fl["name"]] = None if t.startswith("Option<") else ("" if t == "String" else ([] if t.startswith("Vec<") else (False if t == "bool" else 0)))
                return out
        if len(segs) == 1 and segs[0] in env:
            return self.apply(env[segs[0]], args)
        b = self.builtin(segs, args)
        if b is not NotImplemented:
            return b
        fn = self.find_fn(segs, args)
        if fn is not None:
            return self.invoke(fn, None, args)
        if len(segs) >= 2 and segs[-1][:1].isupper():
            ty = self.selfty if segs[-2] == "Self" else segs[-2]
            return ("enum", "%s::%s" % (ty, segs[-1]), args)
        if len(segs) == 1 and segs[0][:1].isupper() and (segs[0] in self.f.structs or segs[0] == "Self"):
            return ("enum", self.selfty if segs[0] == "Self" else segs[0], args)  # tuple struct
        raise NoEval("call %s" % "::".join(segs))

    def convert(self, v, m="into"):
        """`v.into()`: the crate's own From/Into impl for the value's type when there is exactly one; the identity when the
        crate converts nothing of that kind (the target is then a std conversion between like types: &str → String, T → T,
        or an error wrapper the caller unwraps); undecidable otherwise."""
        if isinstance(v, tuple) and v and v[0] == "enum":
            ty = v[1].split("::")[0]
        elif isinstance(v, dict) and v.get("__ty"):
            ty = v["__ty"]
        elif isinstance(v, str):
            ty = ("String", "&str", "&'staticstr", "char")
        elif isinstance(v, bool):
            ty = ("bool",)
        elif isinstance(v, int):
            ty = ("u8", "u16", "u32", "u64", "usize", "i32", "i64", "ModeT", "SizeType")
        else:
            ty = None
        tys = (ty,) if isinstance(ty, str) else (ty or ())
        cands = []
        for k_, f_ in self.f.fns.items():
            if f_.test:
                continue
            m1 = _re.match(r"<(.+) as From<(.+)>>::from$", k_)
            m2 = _re.match(r"<(.+) as Into<(.+)>>::into$", k_)
            if m1 and m1.group(2).replace(" ", "") in tys:
                cands.append((f_, False))
            elif m2 and m2.group(1).replace(" ", "") in tys:
                cands.append((f_, True))
            elif (m1 or m2) and ty is None:
                cands.append((f_, bool(m2)))
        if not cands:
            return v
        if len(cands) == 1 and ty is not None:
            f_, is_into = cands[0]
            return self.invoke(f_, v, []) if is_into else self.invoke(f_, None, [v])
        if isinstance(v, tuple) and v and v[0] == "enum" and all(not ii for _, ii in cands):
            # several targets for one source type (an error wrapped into different outer errors): the wrapper is decided by
            # the expected type, which the evaluator does not track — keep the value, the caller compares modulo wrappers
            return v
        raise NoEval(".%s() of %r: several conversions of the crate could apply" % (m, v))

    def builtin(self, segs, args):
        """std / bitflags associated functions"""
        if len(segs) >= 2 and segs[-1] == "from_str_radix" and len(args) == 2 and isinstance(args[0], str) and isinstance(args[1], int):
            bits = {"u8": 8, "u16": 16, "u32": 32, "u64": 64, "usize": 64}.get(segs[-2])
            try:
                if bits is None or not args[0] or args[0][0] in "+-_ " and segs[-2][0] == "u" and args[0][0] != "+":
                    raise ValueError
                v = int(args[0], args[1])
                if "_" in args[0] or args[0] != args[0].strip() or v >= 2 ** bits or v < 0:
                    raise ValueError
                return ("ok", v)
            except ValueError:
                return ("err", Opq("ParseIntError"))
        if len(segs) == 2 and segs[0] in self.flags:
            allbits = 0
            for v in self.flags[segs[0]].values():
                allbits |= v
            if segs[1] == "empty" and not args:
                return 0
            if segs[1] == "all" and not args:
                return allbits
            if segs[1] == "from_bits" and len(args) == 1 and isinstance(args[0], int):
                return ("some", args[0]) if args[0] & ~allbits == 0 else None
            if segs[1] == "from_bits_truncate" and len(args) == 1 and isinstance(args[0], int):
                return args[0] & allbits
            if segs[1] == "from_bits_retain" and len(args) == 1 and isinstance(args[0], int):
                return args[0]
            if segs[1] in ("from_bits", "from_bits_truncate", "from_bits_retain") and len(args) == 1 and isinstance(args[0], Opq):
                return Opq("%s::%s(%r)" % (segs[0], segs[1], args[0]), ("call", "::".join(segs), list(args)))
        return NotImplemented

    def mcall(self, e, env):
        m = e["m"]
        if m in ("push", "push_str") and len(e["args"]) == 1:
            # String accumulators: strings are immutable values here, so the variable is rebound
            try:
                cont, key = self.place(e["recv"], env)
                cur = cont[key] if not isinstance(cont, dict_view) else cont[key]
            except (NoEval, KeyError):
                cont, cur = None, None
            if isinstance(cur, str):
                a = self.ev(e["args"][0], env)
                if not isinstance(a, str):
                    raise NoEval("push of %r onto a string" % (a,))
                cont[key] = cur + a
                return ()
        if m in self.mhooks:
            r = self.mhooks[m](self, e, env)
            if r is not NotImplemented:
                return r
        if m in ("reverse", "sort", "dedup") and not e["args"]:
            try:
                lst = self.ev(e["recv"], env)
            except NoEval:
                lst = None
            if isinstance(lst, list):
                if m == "reverse":
                    lst.reverse()
                    return ()
                raise NoEval("method %s" % m)
        if m in ("push", "pop", "clear", "insert", "truncate") and m != "insert":
            # Vec in place: lists are mutable values here
            try:
                lst = self.ev(e["recv"], env)
            except NoEval:
                lst = None
            if isinstance(lst, list):
                if m == "push" and len(e["args"]) == 1:
                    lst.append(self.ev(e["args"][0], env))
                    return ()
                if m == "pop" and not e["args"]:
                    return ("some", lst.pop()) if lst else None
                if m == "clear" and not e["args"]:
                    del lst[:]
                    return ()
        if m == "take" and not e["args"]:
            # Option::take on a place: the value moves out, None stays behind
            try:
                cont, key = self.place(e["recv"], env)
                cur = cont[key]
            except (NoEval, KeyError):
                cont = None
            if cont is not None and (cur is None or (isinstance(cur, tuple) and cur and cur[0] == "some")):
                cont[key] = None
                return cur
        recv = self.ev(e["recv"], env)
        # a method a crate trait gives to a std type (`impl SymbolicLetter for char { fn mode_in(self, ..) }`): looked into,
        # with `self` bound to the receiver — chosen by the kind of value the receiver is
        if not isinstance(recv, Opq):
            kind = "char" if isinstance(recv, str) and len(recv) == 1 else "str" if isinstance(recv, str) else "int" if isinstance(recv, int) and not isinstance(recv, bool) else "list" if isinstance(recv, list) else None
            if kind is not None:
                want = {"char": ("char",), "str": ("str", "String", "&str"), "int": ("u8", "u16", "u32", "u64", "usize", "i32", "i64"), "list": ("Vec", "[")}[kind]
                cands = [f_ for f_ in self.f.fns.values() if not f_.test and f_.name == m and f_.impl is not None and f_.impl.get("trait") and norm_ty(f_.impl["trait"]).split("<")[0].split("::")[-1] in self.f.traits and f_.node.get("self") is not None and (norm_ty(f_.impl["self_ty"]).lstrip("&").split("<")[0] in want or (kind == "list" and norm_ty(f_.impl["self_ty"]).lstrip("&").startswith(("Vec<", "["))))]
                if kind == "str" and len(recv) == 1:
                    pass
                if len(cands) == 1:
                    return self.invoke(cands[0], recv, [self.ev(a, env) for a in e["args"]])
        if m in ("unwrap", "expect") and (recv is None or (isinstance(recv, tuple) and recv and recv[0] in ("some", "ok", "err"))):
            if recv is None or recv[0] == "err":
                raise Panic("%s() on %s" % (m, "None" if recv is None else "Err"))
            return recv[1]
        if isinstance(recv, tuple) and len(recv) == 3 and recv[0] == "enum" and str(recv[1]).startswith("ErrMode::") and m == "into_inner" and not e["args"]:
            # winnow: the error inside Backtrack / Cut, nothing for Incomplete
            return ("some", recv[2][0]) if recv[1] in ("ErrMode::Backtrack", "ErrMode::Cut") and recv[2] else None
        if isinstance(recv, Opq):
            if m in ("clone", "to_owned", "borrow", "as_ref") and not e["args"]:
                return recv
            argv = [self.ev(a, env) for a in e["args"]]
            return Opq("%s.%s(%s)" % (recv.label, m, ", ".join(repr(a) if isinstance(a, Opq) else str(a) for a in argv)), ("mcall", m, recv, argv))
        if isinstance(recv, tuple) and recv and recv[0] in ("ok", "err"):
            if m == "unwrap_or" and len(e["args"]) == 1:
                d = self.ev(e["args"][0], env)
                return recv[1] if recv[0] == "ok" else d
            if m == "unwrap_or_default" and not e["args"]:
                return recv[1] if recv[0] == "ok" else ""
            if m == "unwrap_or_else" and len(e["args"]) == 1:
                return recv[1] if recv[0] == "ok" else self.apply(self.ev(e["args"][0], env), [recv[1]])
            if m == "ok" and not e["args"]:
                return ("some", recv[1]) if recv[0] == "ok" else None
            if m == "err" and not e["args"]:
                return ("some", recv[1]) if recv[0] == "err" else None
            if m in ("map_err", "or_else", "map", "and_then") and len(e["args"]) == 1:
                fv = self.ev(e["args"][0], env)
                if m == "map_err":
                    return recv if recv[0] == "ok" else ("err", self.apply(fv, [recv[1]]))
                if m == "or_else":
                    return recv if recv[0] == "ok" else self.apply(fv, [recv[1]])
                if m == "map":
                    return ("ok", self.apply(fv, [recv[1]])) if recv[0] == "ok" else recv
                return self.apply(fv, [recv[1]]) if recv[0] == "ok" else recv
            if m in ("is_ok", "is_err") and not e["args"]:
                return (recv[0] == "ok") == (m == "is_ok")
            raise NoEval("method %s on a Result" % m)
        if (recv is None or (isinstance(recv, tuple) and recv and recv[0] == "some")) and m in ("ok_or", "ok_or_else") and len(e["args"]) == 1:
            if recv is not None:
                return ("ok", recv[1])
            return ("err", self.ev(e["args"][0], env) if m == "ok_or" else self.apply(self.ev(e["args"][0], env), []))
        if (recv is None or (isinstance(recv, tuple) and recv and recv[0] == "some")) and m in ("map", "and_then", "unwrap_or", "unwrap_or_else", "or", "or_else", "take", "filter"):
            if m == "map":
                return None if recv is None else ("some", self.apply(self.ev(e["args"][0], env), [recv[1]]))
            if m == "and_then":
                return None if recv is None else self.apply(self.ev(e["args"][0], env), [recv[1]])
            if m == "unwrap_or":
                d = self.ev(e["args"][0], env)
                return d if recv is None else recv[1]
            if m == "unwrap_or_else":
                return self.apply(self.ev(e["args"][0], env), []) if recv is None else recv[1]
            if m == "or":
                d = self.ev(e["args"][0], env)
                return d if recv is None else recv
            if m == "or_else":
                return self.apply(self.ev(e["args"][0], env), []) if recv is None else recv
            if m == "filter":
                return recv if recv is not None and self.apply(self.ev(e["args"][0], env), [recv[1]]) else None
            raise NoEval("method %s" % m)
        if isinstance(recv, tuple) and recv and recv[0] == "enum":
            fn = self.f.fns.get("%s::%s" % (recv[1].split("::")[0], m))
            if fn is not None and fn.node.get("self") is not None:
                return self.invoke(fn, recv, [self.ev(a, env) for a in e["args"]])
        if isinstance(recv, dict) and recv.get("__ty"):
            fn = self.f.fns.get("%s::%s" % (recv["__ty"], m))
            if fn is None:
                # a method of a trait the crate implements for the type (`<Nodes as Iterator>::next`)
                tm = [f_ for k_, f_ in self.f.fns.items() if k_.startswith("<%s as " % recv["__ty"]) and k_.endswith(">::%s" % m) and not f_.test]
                fn = tm[0] if len(tm) == 1 else None
            if fn is not None and fn.node.get("self") is not None:
                return self.invoke(fn, recv, [self.ev(a, env) for a in e["args"]])
            if m in ("iter", "into_iter", "by_ref") and not e["args"] and self.f.fns.get("<%s as Iterator>::next" % recv["__ty"]) is not None:
                return recv
            if m in ITER_ADAPTORS and self.f.fns.get("<%s as Iterator>::next" % recv["__ty"]) is not None:
                # a hand-written iterator of the crate under a std adaptor: what its next() yields until None, as a list
                items = self.drain(recv)
                env2 = dict_view(env, {"__drained": items})
                return self.mcall(dict(e, recv={"k": "path", "segs": ["__drained"], "gen": [[]], "qself": None, "l": e.get("l")}), env2)
        if m in ("into", "try_into") and not e["args"]:
            return self.convert(recv, m)
        if isinstance(recv, bool) and m in ("then_some", "then") and len(e["args"]) == 1:
            if m == "then_some":
                v_ = self.ev(e["args"][0], env)
                return ("some", v_) if recv else None
            return ("some", self.apply(self.ev(e["args"][0], env), [])) if recv else None
        if (recv is None or (isinstance(recv, tuple) and recv and recv[0] == "some")) and m in ("into_iter", "iter") and not e["args"]:
            return [] if recv is None else [recv[1]]
        if isinstance(recv, list) and m == "chain" and len(e["args"]) == 1:
            other = self.ev(e["args"][0], env)
            if other is None or (isinstance(other, tuple) and other and other[0] == "some"):
                other = [] if other is None else [other[1]]
            if isinstance(other, str):
                other = list(other)
            if not isinstance(other, list):
                raise NoEval("chain with %r" % (other,))
            return recv + other
        if isinstance(recv, list) and m == "flat_map" and len(e["args"]) == 1:
            fv = self.ev(e["args"][0], env)
            out = []
            for x in recv:
                r_ = self.apply(fv, [x])
                if r_ is None or (isinstance(r_, tuple) and r_ and r_[0] == "some"):
                    r_ = [] if r_ is None else [r_[1]]
                if isinstance(r_, str):
                    r_ = list(r_)
                if not isinstance(r_, list):
                    raise NoEval("flat_map yields %r" % (r_,))
                out += r_
            return out
        if m == "to_string" and not e["args"]:
            if isinstance(recv, str):
                return recv
            if isinstance(recv, int) and not isinstance(recv, bool):
                return str(recv)
            raise NoEval("to_string() of %r (a Display impl is not evaluated)" % (recv,))
        if m in ("as_ref", "as_deref", "as_str", "clone", "to_owned", "as_mut", "borrow", "iter", "into_iter", "copied", "cloned") and not e["args"]:
            if m in ("clone", "to_owned", "cloned") and isinstance(recv, (dict, list)):
                return copy.deepcopy(recv) if not _has_opq(recv) else _copy_keep_opq(recv)
            return recv
        if m in ("to_digit", "is_digit") and isinstance(recv, str) and len(recv) == 1 and len(e["args"]) == 1:
            r_ = self.ev(e["args"][0], env)
            if isinstance(r_, int) and not isinstance(r_, bool):
                if not 2 <= r_ <= 36:
                    raise Panic("%s with radix %d" % (m, r_))
                d_ = "0123456789abcdefghijklmnopqrstuvwxyz".find(recv.lower()) if recv.isascii() and recv.isalnum() else -1
                d_ = d_ if 0 <= d_ < r_ else -1
                if m == "is_digit":
                    return d_ >= 0
                return ("some", d_) if d_ >= 0 else None
        if m == "chars" and isinstance(recv, str) and not e["args"]:
            return list(recv)
        if m in ("chars", "as_str", "collect", "into_iter", "iter", "by_ref") and isinstance(recv, list):
            return recv
        if isinstance(recv, list) and m == "flatten" and not e["args"]:
            out = []
            for x in recv:
                if isinstance(x, list):
                    out += x
                elif x is None:
                    continue
                elif isinstance(x, tuple) and x and x[0] == "some":
                    out.append(x[1])
                else:
                    raise NoEval("flatten over %r" % (x,))
            return out
        if isinstance(recv, list) and m == "enumerate" and not e["args"]:
            return [[i_, x] for i_, x in enumerate(recv)]
        if isinstance(recv, list) and m in ("as_slice", "to_vec", "as_mut_slice", "peekable", "fuse") and not e["args"]:
            return recv
        if isinstance(recv, list) and m == "inspect" and len(e["args"]) == 1:
            fv = self.ev(e["args"][0], env)
            for x in recv:
                self.apply(fv, [x])
            return recv
        if isinstance(recv, list) and m in ("map", "filter", "reduce", "filter_map", "for_each"):
            fv = self.ev(e["args"][0], env)
            if m == "map":
                return [self.apply(fv, [x]) for x in recv]
            if m == "filter":
                return [x for x in recv if self.apply(fv, [x])]
            if m == "filter_map":
                out = [self.apply(fv, [x]) for x in recv]
                return [x[1] for x in out if x is not None]
            if m == "for_each":
                for x in recv:
                    self.apply(fv, [x])
                return ()
            if not recv:
                return None
            acc = recv[0]
            for x in recv[1:]:
                acc = self.apply(fv, [acc, x])
            return ("some", acc)
        if isinstance(recv, int) and not isinstance(recv, bool):
            if m in ("bits", "clone") and not e["args"]:
                return recv
            if m == "complement" and not e["args"]:
                return ~recv & self.flagmask
            if m in ("union", "intersection", "difference", "symmetric_difference", "contains", "intersects") and len(e["args"]) == 1:
                x = self.ev(e["args"][0], env)
                if isinstance(x, int):
                    return {"union": recv | x, "intersection": recv & x, "difference": recv & ~x, "symmetric_difference": recv ^ x, "contains": recv & x == x, "intersects": recv & x != 0}[m]
            if m in ("checked_mul", "checked_add", "checked_sub") and len(e["args"]) == 1:
                x = self.ev(e["args"][0], env)
                if isinstance(x, int):
                    r = {"checked_mul": recv * x, "checked_add": recv + x, "checked_sub": recv - x}[m]
                    return ("some", r) if 0 <= r < 2 ** 64 else None
        if m == "contains" and isinstance(recv, str) and len(e["args"]) == 1:
            a = self.ev(e["args"][0], env)
            if isinstance(a, str):
                return a in recv
        if m == "is_empty" and isinstance(recv, (str, list)):
            return len(recv) == 0
        if m == "is_some":
            return recv is not None
        if m == "is_none":
            return recv is None
        if m in ("is_some_and", "is_none_or") and len(e["args"]) == 1:
            if recv is None:
                return m == "is_none_or"
            return bool(self.apply(self.ev(e["args"][0], env), [recv[1]]))
        if m == "map_or" and len(e["args"]) == 2:
            if recv is None:
                return self.ev(e["args"][0], env)
            return self.apply(self.ev(e["args"][1], env), [recv[1]])
        if m == "unwrap_or_default":
            return "" if recv is None else recv[1]
        if isinstance(recv, list) and m == "next" and not e["args"]:
            # a list standing for an iterator: next() takes its first element
            if not recv:
                return None
            return ("some", recv.pop(0))
        if isinstance(recv, list) and m in ("push", "extend", "append", "insert", "pop", "clear", "is_empty"):
            if m == "push":
                recv.append(self.ev(e["args"][0], env))
                return ()
            if m in ("extend", "append"):
                a = self.ev(e["args"][0], env)
                if m == "extend" and (a is None or (isinstance(a, tuple) and len(a) == 2 and a[0] == "some")):
                    a = [] if a is None else [a[1]]  # an Option is an iterator of none or one element
                if not isinstance(a, list):
                    raise NoEval("extend with %r" % (a,))
                recv.extend(a)
                if m == "append":
                    del a[:]
                return ()
            if m == "clear":
                del recv[:]
                return ()
            if m == "is_empty":
                return not recv
            raise NoEval("method %s" % m)
        if isinstance(recv, str) and m == "len" and not e["args"]:
            return len(recv.encode("utf-8"))
        if isinstance(recv, list) and m in ("find", "any", "all", "position", "contains", "len", "first", "last", "rev") :
            if m == "len":
                return len(recv)
            if m == "rev":
                return list(reversed(recv))
            if m in ("first", "last"):
                return None if not recv else ("some", recv[0 if m == "first" else -1])
            if m == "contains":
                return self.ev(e["args"][0], env) in recv
            fv = self.ev(e["args"][0], env)
            for i_, it in enumerate(recv):
                if self.apply(fv, [it]):
                    if m == "find":
                        return ("some", it)
                    if m == "position":
                        return ("some", i_)
                    if m == "any":
                        return True
                elif m == "all":
                    return False
            return {"find": None, "position": None, "any": False, "all": True}[m]
        if m == "flatten" and not e["args"] and (recv is None or (isinstance(recv, tuple) and len(recv) == 2 and recv[0] == "some" and (recv[1] is None or (isinstance(recv[1], tuple) and len(recv[1]) == 2 and recv[1][0] == "some")))):
            # Option<Option<T>>::flatten
            return None if recv is None else recv[1]
        if m == "try_fold" and len(e["args"]) == 2 and isinstance(recv, list):
            # the fold that stops at the first None / Err of its step function
            acc = self.ev(e["args"][0], env)
            fv = self.ev(e["args"][1], env)
            kind = None
            while recv:
                it = recv.pop(0)  # (an iterator: what was folded is consumed)
                r = self.apply(fv, [acc, it])
                if r is None or (isinstance(r, tuple) and len(r) == 2 and r[0] == "err"):
                    return r
                if not (isinstance(r, tuple) and len(r) == 2 and r[0] in ("some", "ok")):
                    raise NoEval("try_fold step yields %r" % (r,))
                kind, acc = r[0], r[1]
            if kind is None:
                clo = e["args"][1]
                oks = find_all(clo, lambda n: isinstance(n, dict) and n.get("k") == "path" and n.get("segs", [None])[-1] == "Ok")
                somes = find_all(clo, lambda n: isinstance(n, dict) and n.get("k") == "path" and n.get("segs", [None])[-1] == "Some")
                if bool(oks) == bool(somes):
                    raise NoEval("try_fold over nothing: Option or Result not told apart")
                kind = "ok" if oks else "some"
            return (kind, acc)
        if m == "rfold" and len(e["args"]) == 2 and isinstance(recv, list):
            acc = self.ev(e["args"][0], env)
            fv = self.ev(e["args"][1], env)
            for it in reversed(recv):
                acc = self.apply(fv, [acc, it])
            return acc
        if m == "fold" and len(e["args"]) == 2 and isinstance(recv, list):
            acc = self.ev(e["args"][0], env)
            fv = self.ev(e["args"][1], env)
            for it in recv:
                acc = self.apply(fv, [acc, it])
            return acc
        raise NoEval("method %s" % m)


class dict_view(dict):
    """A child scope: reads fall back to the parent, assignments to names of the parent go to the parent."""

    def __init__(self, parent, own):
        super().__init__(own)
        self.parent = parent

    def __missing__(self, k):
        return self.parent[k]

    def __contains__(self, k):
        return dict.__contains__(self, k) or k in self.parent

    def __setitem__(self, k, v):
        if not dict.__contains__(self, k) and k in self.parent:
            self.parent[k] = v
        else:
            dict.__setitem__(self, k, v)

    def get(self, k, d=None):
        return self[k] if k in self else d

    def update(self, other):
        for k, v in other.items():
            dict.__setitem__(self, k, v)
