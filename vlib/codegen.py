"""Code-generation tables: variant/condition → emitted template, extracted with the emission interpreter."""
from . import emit, facts as F

# the symbolic start state of an allocating manager method is derived from the manager's own layout (vlib/mgrstate.py)
AFF = lambda: {"__auto__": True}

COMPILE_IMPLS = [
    "<Test as TargetScheme>::compile",
    "<Operator as TargetScheme>::compile",
    "<Action as TargetScheme>::compile",
    "<Expression as TargetScheme>::compile",
    "<PositionalOption as TargetScheme>::compile",
    "<Vec<FormatElement> as TargetScheme>::compile",
]
HELPERS = ["scheme::target_scheme::placeholder", "scheme::target_scheme::snippet", "scheme::target_scheme::literal", "scheme::manager::terminator_escape"]
MANAGERS = ["LocalSchemeManager", "DistributedSchemeManager"]
MGR_METHODS = ["get_printer", "get_file_printer", "get_matcher", "definitions", "initialization", "terminate", "printer_map", "modules"]


def outcome(st, v):
    if isinstance(v, dict):
        if v.get("v") == "panic":
            return "panic:" + str(v.get("macro"))
        if v.get("v") == "err":
            x = v["x"]
            return "err:" + (x.get("callee") or emit.canon(x)) if isinstance(x, dict) else "err"
        if v.get("v") == "ok":
            x = v["x"]
            if isinstance(x, dict) and x.get("v") in ("str", "some", "none", "hole"):
                return "ok:" + emit.canon(x)
            return "ok"
        if v.get("v") in ("str", "some", "none", "hole", "affine", "struct", "mapped"):
            return "ret:" + emit.canon(v)
        if v.get("v") in ("sub",):
            return "sub"
    return "ok"


def actual(facts, key):
    """Role names (vlib/roles.py) are accepted wherever a function key is."""
    if key in facts.fns:
        return key
    from . import roles

    if key in roles.ROLES:
        return roles.key(facts, key)
    return key


def run(facts, key, fields=None):
    it = emit.Interp(facts)
    return it.run_fn(actual(facts, key), fields=fields)


def table(facts, key, fields=None):
    """[(condsig, tokens, outcome, effects, state)]"""
    rows = []
    for st, v in run(facts, key, fields):
        st.buf = emit.single_element_joins(st.buf, st.conds)
        text = emit.canon_parts(st.buf)
        eff = []
        for e in st.effects:
            if e[0] == "push":
                eff.append("push %s %s" % (emit.FIELD_ALIAS.get(e[1], e[1]), emit.canon(e[2])))
            elif e[0] == "assign":
                eff.append("set %s = %s" % (emit.FIELD_ALIAS.get(e[1], e[1]), emit.canon(e[2])))
            elif e[0] == "insert":
                eff.append("insert %s [%s]" % (emit.FIELD_ALIAS.get(e[1], e[1]), ", ".join(emit.canon(x) for x in e[2])))
        rows.append(dict(cond=emit.canon_conds(st.conds), tokens=emit.scheme_tokens(text), text=text, outcome=outcome(st, v), effects=eff, unknown=list(st.unknown), st=st, val=v))
    return rows


def mapped_rows(val):
    """Rows of a `mapped` value (iterator map closure evaluated on a symbolic element)."""
    out = []
    for conds, v in val["elems"]:
        out.append((emit.canon_conds(conds), v))
    return out


def mgr_key(facts, mgr, method):
    k = "<%s as SchemeManager>::%s" % (mgr, method)
    if k in facts.fns:
        return k
    k = "%s::%s" % (mgr, method)
    return k if k in facts.fns else None


def all_tables(facts):
    """name -> list of rows (without the state objects), for freezing / comparison."""
    out = {}
    for key in COMPILE_IMPLS + HELPERS:
        if actual(facts, key) not in facts.fns:
            raise F.AnchorMissing("function %s" % key)
        out[key] = table(facts, key)
    for m in MANAGERS:
        for meth in MGR_METHODS:
            k = mgr_key(facts, m, meth)
            if k is None:
                raise F.AnchorMissing("%s::%s" % (m, meth))
            out[k] = table(facts, k, AFF())
        dk = "<%s as Default>::default" % m
        out[dk] = default_table(facts, m)
    return out


def default_table(facts, m):
    """Rows of `<M as Default>::default` — from the hand-written impl, or from the derive."""
    dk = "<%s as Default>::default" % m
    if dk in facts.fns:
        return table(facts, dk)
    v = emit.Interp(facts).derived_default(m)
    if v is None:
        raise F.AnchorMissing(dk)
    st = emit.State()
    return [dict(cond="", tokens=[], text="", outcome=outcome(st, v), effects=[], unknown=[], st=st, val=v)]


def plain(rows):
    return [dict(cond=r["cond"], tokens=r["tokens"], outcome=r["outcome"], effects=r["effects"]) for r in rows]


# ------------------------------------------------------------------ per-variant expansion (robust to arm grouping)
import itertools
import re as _re

_GRP = _re.compile(r"\$([A-Za-z_]+)::([A-Za-z_|]+)\.(\d+)")


def norm_names(s):
    """$Enum::A|B.0 -> $Enum.0 : payload names are independent of how arms are grouped."""
    return _GRP.sub(lambda m: "$%s.%s" % (m.group(1), m.group(3)), s)


def expand(rows):
    """rows (from table()/plain()) -> {semantic key: row} with one entry per combination of variants."""
    out = {}
    for r in rows:
        atoms = [a for a in r["cond"].split(" ∧ ")] if r["cond"] else []
        choices = []
        for a in atoms:
            m = _re.match(r"^(.*)∈\{(.*)\}$", a)
            if m:
                subj = norm_names(m.group(1))
                alts = split_top(m.group(2))
                choices.append(["%s∈%s" % (subj, x) for x in alts])
            else:
                choices.append([norm_names(a)])
        for combo in itertools.product(*choices) if choices else [()]:
            key = " ∧ ".join(combo)
            row = dict(tokens=[norm_names(t) for t in r["tokens"]], outcome=norm_names(r["outcome"]), effects=[norm_names(e) for e in r["effects"]])
            if key in out and out[key] != row:
                # first matching arm wins in Rust; keep the first
                continue
            out.setdefault(key, row)
    return out


def split_top(s):
    out, depth, cur = [], 0, ""
    for ch in s:
        if ch in "([{":
            depth += 1
        elif ch in ")]}":
            depth -= 1
        if ch == "," and depth == 0:
            out.append(cur)
            cur = ""
        else:
            cur += ch
    if cur:
        out.append(cur)
    return out


_COMPL = {"True": "False", "False": "True", "Some": "None", "None": "Some"}


def minimise(table):
    """Merge rows that behave identically and differ only in the value of one two-valued condition (x=True / x=False,
    o=Some / o=None): a function that tests a condition earlier or later than another, or not at all on a path where it
    makes no difference, has the same minimal table."""
    items = [(frozenset(k.split(" ∧ ")) if k else frozenset(), k.split(" ∧ ") if k else [], row) for k, row in table.items()]
    changed = True
    while changed:
        changed = False
        for i in range(len(items)):
            for j in range(i + 1, len(items)):
                a, oa, ra = items[i]
                b, ob, rb = items[j]
                if ra != rb or len(a) != len(b):
                    continue
                da, db = a - b, b - a
                if len(da) == 1 and len(db) == 1:
                    x, y = next(iter(da)), next(iter(db))
                    sx, _, vx = x.rpartition("=")
                    sy, _, vy = y.rpartition("=")
                    if sx and sx == sy and _COMPL.get(vx) == vy:
                        common = a & b
                        items[i] = (common, [t for t in oa if t in common], ra)
                        del items[j]
                        changed = True
                        break
            if changed:
                break
    out = {}
    for atoms, order, row in items:
        key = " ∧ ".join(order)
        out.setdefault(key, row)
    return out


def _effect_target(text):
    """`push vars "..."` / `insert files [..]` / `set var_index = ..` -> the piece of state the effect changes"""
    parts = str(text).split(" ", 2)
    return parts[1] if len(parts) >= 2 else str(text)


def _canon_effects(table):
    """Effects on different pieces of the manager's state commute (every value in them is already resolved against the
    state at the point it was computed): only the order of the effects on one and the same piece is meaningful (the order
    of the bindings pushed to `vars`, of the instructions pushed to `fini`).  Effects are therefore grouped by target, in
    the order the targets are first changed... sorted by target name so that two orders of independent updates give
    the same row."""
    out = {}
    for k, row in table.items():
        eff = row.get("effects")
        if isinstance(eff, list) and len(eff) > 1:
            keyed = sorted(enumerate(eff), key=lambda ie: (_effect_target(ie[1]), ie[0]))
            row = dict(row, effects=[e for _, e in keyed])
        out[k] = row
    return out


def diff_tables(c, rule, site, got_rows, want_rows, what, only=None, fields=("tokens", "outcome", "effects")):
    """One obligation per semantic row: extracted == frozen (both in minimal form)."""
    g, w = minimise(_canon_effects(expand(got_rows))), minimise(_canon_effects(expand(want_rows)))
    n = 0
    for key in sorted(set(g) | set(w)):
        if only is not None and not only(key):
            continue
        n += 1
        a, b = g.get(key), w.get(key)
        if a is None:
            c.ob(rule, site, key or "(unconditional)", False, "%s: the reference has a row for [%s] (%s) but the code has none" % (what, key, " ".join(b["tokens"]) or b["outcome"]))
        elif b is None:
            c.ob(rule, site, key or "(unconditional)", False, "%s: the code has a new case [%s] emitting `%s` / %s that the reference does not know" % (what, key, " ".join(a["tokens"]), a["outcome"]))
        else:
            same = all(a[f] == b[f] for f in fields)
            det = "emits `%s` → %s" % (" ".join(a["tokens"]), a["outcome"])
            if not same:
                det = "%s: code emits `%s` → %s %s; reference `%s` → %s %s" % (what, " ".join(a["tokens"]), a["outcome"], a["effects"] if "effects" in fields else "", " ".join(b["tokens"]), b["outcome"], b["effects"] if "effects" in fields else "")
            c.ob(rule, site, key or "(unconditional)", same, det, facts={"tokens": a["tokens"], "outcome": a["outcome"]} if n <= 3 else None)
    return n
