"""Code-generation tables: variant/condition → emitted template, extracted with the emission interpreter."""
from . import emit, facts as F

# the symbolic start state of an allocating manager method is derived from the manager's own layout (vlib/mgrstate.py)
AFF = lambda: {"__auto__": True}

COMPILE_IMPLS = [
    "<Test as TargetScheme>::compile",
    "<Operator as TargetScheme>::compile",
    "<Action as TargetScheme>::compile",
    "<Expression as TargetScheme>::compile",
    "<PositionalOption as TargetScheme>::compile",
    "<Vec<FormatElement> as TargetScheme>::compile",
]
HELPERS = ["scheme::target_scheme::placeholder", "scheme::target_scheme::snippet", "scheme::target_scheme::literal", "scheme::manager::terminator_escape"]
MANAGERS = ["LocalSchemeManager", "DistributedSchemeManager"]
MGR_METHODS = ["get_printer", "get_file_printer", "get_matcher", "definitions", "initialization", "terminate", "printer_map", "modules"]


# private helpers whose text is inlined into every row that uses them (the printer rows carry the terminator rendering): their
# own table is compared when the helper exists as a function, and is not missed when it was folded into something else
OPTIONAL_HELPERS = {"scheme::manager::terminator_escape"}


def helpers(facts):
    out = []
    for key in HELPERS:
        if key in OPTIONAL_HELPERS:
            try:
                if actual(facts, key) not in facts.fns:
                    continue
            except F.AnchorMissing:
                continue
        out.append(key)
    return out


def outcome(st, v):
    if isinstance(v, dict):
        if v.get("v") == "panic":
            return "panic:" + str(v.get("macro"))
        if v.get("v") == "err":
            x = v["x"]
            return "err:" + (x.get("callee") or emit.canon(x)) if isinstance(x, dict) else "err"
        if v.get("v") == "ok":
            x = v["x"]
            if isinstance(x, dict) and x.get("v") in ("str", "some", "none", "hole"):
                return "ok:" + emit.canon(x)
            return "ok"
        if v.get("v") in ("str", "some", "none", "hole", "affine", "struct", "mapped"):
            return "ret:" + emit.canon(v)
        if v.get("v") in ("sub",):
            return "sub"
    return "ok"


def actual(facts, key):
    """Role names (vlib/roles.py) are accepted wherever a function key is."""
    if key in facts.fns:
        return key
    from . import roles

    if key in roles.ROLES:
        return roles.key(facts, key)
    return key


def run(facts, key, fields=None):
    it = emit.Interp(facts)
    return it.run_fn(actual(facts, key), fields=fields)


_BOOLLIKE_DONE = {}


def boollike_candidates(facts):
    """Enums of the generator with exactly two field-less variants that the reference tables do not know: a two-valued
    internal type, i.e. a boolean under another name."""
    import json as _json, os as _os

    try:
        ref_text = open(_os.path.join(F.VERIF, "spec", "codegen.json")).read()
    except OSError:
        ref_text = ""
    out = []
    for name, en in sorted(facts.enums.items()):
        vs = en.get("variants", [])
        if len(vs) != 2 or any(v.get("fields") for v in vs) or (en.get("generics") or "").strip("<> "):
            continue
        if tuple(en.get("_module", ()))[:1] != ("scheme",):
            continue
        if ("%s::" % name) in ref_text:
            continue
        out.append((name, [v["name"] for v in vs]))
    return out


def ensure_boollike(facts):
    """Choose, once per tree, which variant of each boolean-like enum is read as `true`: the reading under which the tables
    agree best with the reference.  A consistent renaming of an internal two-valued datum cannot hide a change of behaviour
    (caller and callee are renamed alike); if the tables differ under both readings they are reported under the better one."""
    k = id(facts)
    if k in _BOOLLIKE_DONE:
        return
    _BOOLLIKE_DONE[k] = True
    cands = boollike_candidates(facts)
    if not cands:
        return
    import json as _json, os as _os

    spec = _json.load(open(_os.path.join(F.VERIF, "spec", "codegen.json")))["tables"]
    from . import mgrstate

    for name, (a, b) in cands:
        best = None
        for sigma in ({a: True, b: False}, {a: False, b: True}):
            emit.BOOLLIKE[name] = sigma
            mgrstate._CACHE.clear()
            score = 0
            try:
                for tk, rows in all_tables(facts).items():
                    g, w = minimise(_canon_effects(expand(plain(rows)))), minimise(_canon_effects(expand(spec.get(tk, []))))
                    score += sum(1 for key in set(g) | set(w) if g.get(key) != w.get(key))
            except Exception:
                score = 10**9
            if best is None or score < best[0]:
                best = (score, sigma)
        emit.BOOLLIKE[name] = best[1]
        mgrstate._CACHE.clear()
        facts.normalised.append("enum %s read as a boolean (%s = true): %d table rows differ from the reference under this reading" % (name, [v for v, t in best[1].items() if t][0], best[0]))


def table(facts, key, fields=None):
    """[(condsig, tokens, outcome, effects, state)]"""
    ensure_boollike(facts)
    rows = []
    for st, v in run(facts, key, fields):
        st.buf = emit.single_element_joins(st.buf, st.conds)
        text = emit.canon_parts(st.buf)
        eff = []
        for e in st.effects:
            if e[0] == "push":
                eff.append("push %s %s" % (emit.FIELD_ALIAS.get(e[1], e[1]), emit.canon(e[2])))
            elif e[0] == "assign":
                eff.append("set %s = %s" % (emit.FIELD_ALIAS.get(e[1], e[1]), emit.canon(e[2])))
            elif e[0] == "insert":
                eff.append("insert %s [%s]" % (emit.FIELD_ALIAS.get(e[1], e[1]), ", ".join(emit.canon(x) for x in e[2])))
        rows.append(dict(cond=emit.canon_conds(st.conds), tokens=emit.scheme_tokens(text), text=text, outcome=outcome(st, v), effects=eff, unknown=list(st.unknown), st=st, val=v))
    return rows


def mapped_rows(val):
    """Rows of a `mapped` value (iterator map closure evaluated on a symbolic element)."""
    out = []
    for conds, v in val["elems"]:
        out.append((emit.canon_conds(conds), v))
    return out


def mgr_key(facts, mgr, method):
    k = "<%s as SchemeManager>::%s" % (mgr, method)
    if k in facts.fns:
        return k
    k = "%s::%s" % (mgr, method)
    return k if k in facts.fns else None


def all_tables(facts):
    """name -> list of rows (without the state objects), for freezing / comparison."""
    out = {}
    for key in COMPILE_IMPLS + helpers(facts):
        if actual(facts, key) not in facts.fns:
            raise F.AnchorMissing("function %s" % key)
        out[key] = table(facts, key)
    for m in MANAGERS:
        for meth in MGR_METHODS:
            k = mgr_key(facts, m, meth)
            if k is None:
                raise F.AnchorMissing("%s::%s" % (m, meth))
            out[k] = table(facts, k, AFF())
        dk = "<%s as Default>::default" % m
        out[dk] = default_table(facts, m)
    return out


def default_table(facts, m):
    """Rows of `<M as Default>::default` — from the hand-written impl, or from the derive."""
    dk = "<%s as Default>::default" % m
    if dk in facts.fns:
        return table(facts, dk)
    v = emit.Interp(facts).derived_default(m)
    if v is None:
        raise F.AnchorMissing(dk)
    st = emit.State()
    return [dict(cond="", tokens=[], text="", outcome=outcome(st, v), effects=[], unknown=[], st=st, val=v)]


def plain(rows):
    return [dict(cond=r["cond"], tokens=r["tokens"], outcome=r["outcome"], effects=r["effects"]) for r in rows]


# ------------------------------------------------------------------ per-variant expansion (robust to arm grouping)
import itertools
import re as _re

_GRP = _re.compile(r"\$([A-Za-z_]+)::([A-Za-z_|]+)\.(\d+)")


def norm_names(s):
    """$Enum::A|B.0 -> $Enum.0 : payload names are independent of how arms are grouped."""
    return _GRP.sub(lambda m: "$%s.%s" % (m.group(1), m.group(3)), s)


def expand(rows):
    """rows (from table()/plain()) -> {semantic key: row} with one entry per combination of variants."""
    out = {}
    for r in rows:
        atoms = [a for a in r["cond"].split(" ∧ ")] if r["cond"] else []
        choices = []
        for a in atoms:
            m = _re.match(r"^(.*)∈\{(.*)\}$", a)
            if m:
                subj = norm_names(m.group(1))
                alts = split_top(m.group(2))
                choices.append(["%s∈%s" % (subj, x) for x in alts])
            else:
                choices.append([norm_names(a)])
        for combo in itertools.product(*choices) if choices else [()]:
            key = " ∧ ".join(combo)
            row = dict(tokens=[norm_names(t) for t in r["tokens"]], outcome=norm_names(r["outcome"]), effects=[norm_names(e) for e in r["effects"]])
            if key in out and out[key] != row:
                # first matching arm wins in Rust; keep the first
                continue
            out.setdefault(key, row)
    return out


def split_top(s):
    out, depth, cur = [], 0, ""
    for ch in s:
        if ch in "([{":
            depth += 1
        elif ch in ")]}":
            depth -= 1
        if ch == "," and depth == 0:
            out.append(cur)
            cur = ""
        else:
            cur += ch
    if cur:
        out.append(cur)
    return out


_COMPL = {"True": "False", "False": "True", "Some": "None", "None": "Some"}


def minimise(table):
    """Merge rows that behave identically and differ only in the value of one two-valued condition (x=True / x=False,
    o=Some / o=None): a function that tests a condition earlier or later than another, or not at all on a path where it
    makes no difference, has the same minimal table."""
    items = [(frozenset(k.split(" ∧ ")) if k else frozenset(), k.split(" ∧ ") if k else [], row) for k, row in table.items()]
    changed = True
    while changed:
        changed = False
        for i in range(len(items)):
            for j in range(i + 1, len(items)):
                a, oa, ra = items[i]
                b, ob, rb = items[j]
                if ra != rb or len(a) != len(b):
                    continue
                da, db = a - b, b - a
                if len(da) == 1 and len(db) == 1:
                    x, y = next(iter(da)), next(iter(db))
                    sx, _, vx = x.rpartition("=")
                    sy, _, vy = y.rpartition("=")
                    if sx and sx == sy and _COMPL.get(vx) == vy:
                        common = a & b
                        items[i] = (common, [t for t in oa if t in common], ra)
                        del items[j]
                        changed = True
                        break
            if changed:
                break
    out = {}
    for atoms, order, row in items:
        key = " ∧ ".join(order)
        out.setdefault(key, row)
    return out


def _effect_target(text):
    """`push vars "..."` / `insert files [..]` / `set var_index = ..` -> the piece of state the effect changes"""
    parts = str(text).split(" ", 2)
    return parts[1] if len(parts) >= 2 else str(text)


def _canon_effects(table):
    """Effects on different pieces of the manager's state commute (every value in them is already resolved against the
    state at the point it was computed): only the order of the effects on one and the same piece is meaningful (the order
    of the bindings pushed to `vars`, of the instructions pushed to `fini`).  Effects are therefore grouped by target, in
    the order the targets are first changed... sorted by target name so that two orders of independent updates give
    the same row."""
    out = {}
    for k, row in table.items():
        eff = row.get("effects")
        if isinstance(eff, list) and len(eff) > 1:
            keyed = sorted(enumerate(eff), key=lambda ie: (_effect_target(ie[1]), ie[0]))
            row = dict(row, effects=[e for _, e in keyed])
        out[k] = row
    return out


def diff_tables(c, rule, site, got_rows, want_rows, what, only=None, fields=("tokens", "outcome", "effects")):
    """One obligation per semantic row: extracted == frozen (both in minimal form)."""
    g, w = minimise(_canon_effects(expand(got_rows))), minimise(_canon_effects(expand(want_rows)))
    n = 0
    for key in sorted(set(g) | set(w)):
        if only is not None and not only(key):
            continue
        n += 1
        a, b = g.get(key), w.get(key)
        if a is None:
            c.ob(rule, site, key or "(unconditional)", False, "%s: the reference has a row for [%s] (%s) but the code has none" % (what, key, " ".join(b["tokens"]) or b["outcome"]))
        elif b is None:
            c.ob(rule, site, key or "(unconditional)", False, "%s: the code has a new case [%s] emitting `%s` / %s that the reference does not know" % (what, key, " ".join(a["tokens"]), a["outcome"]))
        else:
            same = all(a[f] == b[f] for f in fields)
            det = "emits `%s` → %s" % (" ".join(a["tokens"]), a["outcome"])
            if not same:
                det = "%s: code emits `%s` → %s %s; reference `%s` → %s %s" % (what, " ".join(a["tokens"]), a["outcome"], a["effects"] if "effects" in fields else "", " ".join(b["tokens"]), b["outcome"], b["effects"] if "effects" in fields else "")
            c.ob(rule, site, key or "(unconditional)", same, det, facts={"tokens": a["tokens"], "outcome": a["outcome"]} if n <= 3 else None)
    return n


# ------------------------------------------------------------------ per-element tables of joined collections
def _joins(parts):
    for p in parts:
        if p[0] == "join":
            yield p
        elif p[0] == "h" and isinstance(p[1], dict) and p[1].get("kind") == "elem-of-mapped" and isinstance(p[1].get("mapped"), dict):
            # the one element of a one-element collection: same per-element table
            yield ("join", p[1]["mapped"], "")
        elif p[0] == "sub" and isinstance(p[1], dict) and emit.is_str(p[1]):
            for q in _joins(p[1]["parts"]):
                yield q


def _piece(v, sep):
    """text of what one element contributes; None for an element whose evaluation fails (those are rows of their own)"""
    if isinstance(v, dict):
        k = v.get("v")
        if k == "ok":
            return _piece(v["x"], sep)
        if k in ("err", "panic"):
            return None
        if k == "some":
            return _piece(v["x"], sep)
        if k == "none":
            return "∅"
        if k == "str":
            t = emit.canon_parts(v["parts"])
            return t if (t or sep) else "∅"
        if k == "list" and not v.get("items"):
            return "∅"
    return "{%s}" % emit.canon(v)


def element_tables(rows):
    """For every successful row of a table: one sub-table per joined collection in the emitted text, giving for each case of
    an element what it contributes (the canonical text of a row only says *that* a collection is joined)."""
    out = []
    # element cases on which the whole function fails (an element-wise error that is passed on): what such an element would
    # have contributed to a later collection is immaterial
    fails = [r["cond"].replace("∃", "") for r in rows if "∃" in (r["cond"] or "") and str(r["outcome"]).startswith(("err", "panic"))]
    for r in rows:
        if "∃" in (r["cond"] or "") or not str(r["outcome"]).startswith(("ok", "ret")):
            continue
        for i, j in enumerate(_joins(r["st"].buf)):
            mv = j[1]
            if not (isinstance(mv, dict) and mv.get("v") == "mapped"):
                continue
            sub = []
            for conds, v in mv["elems"]:
                pc = _piece(v, j[2])
                if pc is None:
                    fails.append(emit.canon_conds(conds))
                    continue
                sub.append(dict(cond=emit.canon_conds(conds), tokens=[pc], outcome="piece", effects=[]))
            out.append(dict(row=r["cond"], index=i, sep=j[2], of=emit.canon(mv.get("of")), rows=sub))
    for e_ in out:
        e_["fails"] = sorted(set(fails))
    return out


def _atoms(key):
    out = {}
    for a in key.split(" ∧ ") if key else []:
        m = _re.match(r"^(.*?)(∈|=)(.*)$", a)
        if m:
            out.setdefault(m.group(1), set()).add(m.group(3))
    return out


def _expand_feasible(rows):
    """expand(), with several conditions on one subject intersected (a path that first sees `x ∈ {A, B}` and later `x ∈ {B}`
    is the case x = B; one that sees `{A}` and then `{B}` cannot happen)."""
    out = {}
    for r in rows:
        per = {}
        order = []
        feasible = True
        for a in (r["cond"].split(" ∧ ") if r["cond"] else []):
            m = _re.match(r"^(.*)∈\{(.*)\}$", a)
            if m:
                subj, alts = norm_names(m.group(1)), set(split_top(m.group(2)))
                if subj in per:
                    cur = per[subj]
                    if "_" in alts and "_" in cur:
                        per[subj] = cur | alts
                    elif "_" in alts:
                        pass  # the earlier, narrower condition stands
                    elif "_" in cur:
                        per[subj] = alts
                    else:
                        per[subj] = cur & alts
                        if not per[subj]:
                            feasible = False
                else:
                    per[subj] = alts
                    order.append(("in", subj))
            else:
                order.append(("atom", norm_names(a)))
        if not feasible:
            continue
        choices = [sorted("%s∈%s" % (x[1], v) for v in per[x[1]]) if x[0] == "in" else [x[1]] for x in order]
        for combo in itertools.product(*choices) if choices else [()]:
            key = " ∧ ".join(combo)
            out.setdefault(key, dict(tokens=[norm_names(t) for t in r["tokens"]], outcome=norm_names(r["outcome"]), effects=[norm_names(e) for e in r["effects"]]))
    return out


def equiv_tables(c, rule, site, got_rows, want_rows, what, got_fails=(), want_fails=()):
    """Two case tables describe the same function when any two rows that can apply to the same input give the same result,
    and every row of one has such a partner in the other: insensitive to how finely either table splits its cases."""
    g, w = _expand_feasible(got_rows), _expand_feasible(want_rows)

    def lits(tab):
        L = {}
        for k in tab:
            for s_, vs in _atoms(k).items():
                L.setdefault(s_, set()).update(v for v in vs if v != "_")
        return L

    Lg, Lw = lits(g), lits(w)

    def compatible(ka, La, kb, Lb):
        A, B = _atoms(ka), _atoms(kb)
        for s_ in set(A) & set(B):
            for va in A[s_]:
                for vb in B[s_]:
                    if va == vb:
                        continue
                    if va == "_" and vb not in La.get(s_, ()):
                        continue
                    if vb == "_" and va not in Lb.get(s_, ()):
                        continue
                    return False
        return True

    fg = _expand_feasible([dict(cond=f_, tokens=[], outcome="fails", effects=[]) for f_ in got_fails])
    fw = _expand_feasible([dict(cond=f_, tokens=[], outcome="fails", effects=[]) for f_ in want_fails])
    n = 0
    for ka, ra in sorted(g.items()):
        partners = [(kb, rb) for kb, rb in w.items() if compatible(ka, Lg, kb, Lw)]
        n += 1
        if not partners and any(compatible(ka, Lg, kf, lits(fw)) for kf in fw):
            c.ob(rule, site, ka or "(every element)", True, "%s: contributes `%s`; the reference fails on such an element (the refused cases are compared by C12)" % (what, " ".join(ra["tokens"])), nontrivial=False)
            continue
        if not partners:
            c.ob(rule, site, ka or "(every element)", False, "%s: the code has a case [%s] contributing `%s` that the reference does not know" % (what, ka, " ".join(ra["tokens"])))
            continue
        bad = [(kb, rb) for kb, rb in partners if rb["tokens"] != ra["tokens"]]
        c.ob(rule, site, ka or "(every element)", not bad, "%s: contributes `%s`" % (what, " ".join(ra["tokens"])) + ("; the reference contributes `%s` for [%s]" % (" ".join(bad[0][1]["tokens"]), bad[0][0]) if bad else ""))
    for kb, rb in sorted(w.items()):
        if not any(compatible(ka, Lg, kb, Lw) for ka in g):
            n += 1
            if any(compatible(kf, lits(fg), kb, Lw) for kf in fg):
                c.ob(rule, site, kb or "(every element)", True, "%s: the code fails on such an element, the reference would contribute `%s` (the refused cases are compared by C12)" % (what, " ".join(rb["tokens"])), nontrivial=False)
                continue
            c.ob(rule, site, kb or "(every element)", False, "%s: the reference has a case [%s] contributing `%s` but the code has none" % (what, kb, " ".join(rb["tokens"])))
    return n
