"""Behaviour-preserving normalisations applied to the extracted AST before any rule looks at it.

Each one removes a degree of freedom that a maintainer may exercise without changing behaviour, so that the rules decide the
program and not its spelling.  Every rewrite is semantics-preserving for the Rust fragment it matches; what is rewritten is
recorded in `facts.normalised` (reported in the evidence files).

N1  constructor wrappers: a call of a crate-local free function whose whole body is one expression built only from its
    parameters, enum/struct constructors, `Rc::new`/`Box::new`/`Some`/`Ok`, references, `clone()`/`into()` and literals is
    replaced by that expression with the arguments substituted (`operator(Ope::List(a, b))` ≡ `Exp::Operator(Rc::new(Ope::List(a, b)))`).
"""
import copy

PURE_CALL_TAILS = {"new", "Some", "Ok", "from"}
PURE_METHODS = {"clone", "into", "to_owned"}


def _is_ctor_expr(e, params):
    k = e.get("k")
    if k == "block":
        st = e["stmts"]
        return len(st) == 1 and st[0]["k"] == "expr" and not st[0].get("semi") and _is_ctor_expr(st[0]["e"], params)
    if k == "path":
        return True
    if k == "lit":
        return True
    if k == "ref":
        return _is_ctor_expr(e["e"], params)
    if k == "tuple":
        return all(_is_ctor_expr(x, params) for x in e["elems"])
    if k == "call":
        f = e["f"]
        if f["k"] != "path":
            return False
        last = f["segs"][-1]
        if not (last[:1].isupper() or (last in PURE_CALL_TAILS and len(f["segs"]) >= 2 and f["segs"][-2] in ("Rc", "Box", "Arc"))):
            return False
        return all(_is_ctor_expr(a, params) for a in e["args"])
    if k == "mcall":
        return e["m"] in PURE_METHODS and not e["args"] and _is_ctor_expr(e["recv"], params)
    if k == "struct":
        return all(_is_ctor_expr(f["e"], params) for f in e["fields"]) and not e.get("rest")
    return False


def _subst(e, env):
    if isinstance(e, list):
        return [_subst(x, env) for x in e]
    if not isinstance(e, dict):
        return e
    if e.get("k") == "path" and len(e["segs"]) == 1 and e.get("qself") is None and e["segs"][0] in env:
        return copy.deepcopy(env[e["segs"][0]])
    return {k: _subst(v, env) for k, v in e.items()}


def ctor_wrappers(facts):
    out = {}
    for key, fn in facts.fns.items():
        if fn.test or fn.impl is not None or fn.node.get("self") is not None:
            continue
        params = []
        ok = True
        for i in fn.node["inputs"]:
            p = i["pat"]
            if p["k"] != "ident" or p.get("by_ref") or p.get("mut"):
                ok = False
                break
            params.append(p["name"])
        if not ok or fn.body is None:
            continue
        if _is_ctor_expr(fn.body, params):
            body = fn.body
            while body.get("k") == "block":
                body = body["stmts"][0]["e"]
            # the body must mention something other than a bare parameter (otherwise it is an identity, handled elsewhere)
            if body.get("k") in ("call", "struct"):
                out[key] = (params, body)
    return out


def _resolve(segs, module, wrappers, facts):
    if len(segs) == 1:
        k = "::".join(module + (segs[0],))
        if k in wrappers:
            return k
        # imported by `use`: unique free function of that name, and the name is imported in this module
        cands = [w for w in wrappers if w.split("::")[-1] == segs[0]]
        if len(cands) == 1:
            for u in facts.uses.get(module, []):
                if u.get("glob") and "::".join(u["path"][-len(cands[0].split("::")) + 1 :]) == "::".join(cands[0].split("::")[:-1]):
                    return cands[0]
                if u.get("alias") == segs[0] and u["path"][-1] == segs[0]:
                    return cands[0]
        return None
    tail = "::".join(segs)
    for w in wrappers:
        if w == tail or w.endswith("::" + tail) or tail.endswith("::" + w):
            return w
    return None


def _rewrite(e, module, wrappers, facts, log, where, depth=0):
    if isinstance(e, list):
        return [_rewrite(x, module, wrappers, facts, log, where, depth) for x in e]
    if not isinstance(e, dict):
        return e
    e = {k: (_rewrite(v, module, wrappers, facts, log, where, depth) if k not in ("pat", "params") else v) for k, v in e.items()}
    if e.get("k") == "call" and e["f"].get("k") == "path" and depth < 4:
        w = _resolve(e["f"]["segs"], module, wrappers, facts)
        if w is not None:
            params, body = wrappers[w]
            if len(params) == len(e["args"]):
                log.append("N1 %s: call of constructor wrapper %s inlined" % (where, w))
                new = _subst(body, dict(zip(params, e["args"])))
                return _rewrite(new, tuple(w.split("::")[:-1]), wrappers, facts, log, where, depth + 1)
    return e


def _self_paths(node, ty):
    """N2  `Self::X` in expressions and patterns of an impl block is the same path as `Type::X`: rewritten in place (type
    strings such as `-> Self` are left alone, only path segments of expression / pattern nodes change)."""
    n = 0
    if isinstance(node, list):
        for x in node:
            n += _self_paths(x, ty)
    elif isinstance(node, dict):
        if node.get("k") in ("path", "tstruct", "struct", "call") or "segs" in node:
            segs = node.get("segs")
            if isinstance(segs, list) and len(segs) >= 1 and segs[0] == "Self":
                segs[0] = ty
                n += 1
        for v in node.values():
            if isinstance(v, (dict, list)):
                n += _self_paths(v, ty)
    return n


def _let_else(node):
    """N3  `let PAT = E else { DIVERGE }; REST` is `match E { PAT => { REST }, _ => DIVERGE }` as the value of the block: the
    else-block never falls through, and the bindings of PAT are in scope exactly in REST."""
    n = 0
    if isinstance(node, list):
        for x in node:
            n += _let_else(x)
    elif isinstance(node, dict):
        if node.get("k") == "block" and isinstance(node.get("stmts"), list):
            st = node["stmts"]
            for i, s_ in enumerate(st):
                if isinstance(s_, dict) and s_.get("k") == "let" and s_.get("else") is not None and s_.get("init") is not None:
                    l_ = s_.get("l")
                    rest = {"k": "block", "l": l_, "stmts": st[i + 1 :]}
                    mt = {
                        "k": "match",
                        "l": l_,
                        "scrut": s_["init"],
                        "arms": [
                            {"l": l_, "pat": s_["pat"], "guard": None, "body": rest, "attrs": []},
                            {"l": l_, "pat": {"k": "wild", "l": l_}, "guard": None, "body": s_["else"], "attrs": []},
                        ],
                    }
                    node["stmts"] = st[:i] + [{"k": "expr", "l": l_, "e": mt, "semi": False}]
                    n += 1
                    break
        for v in node.values():
            if isinstance(v, (dict, list)):
                n += _let_else(v)
    return n


def _local_variant_uses(node, enums):
    """N4  a block that starts with `use Enum::*;` / `use Enum::{A, B};` / `use Enum::A as X;` names the variants of a crate enum
    without their prefix: inside that block the bare names — in expressions and in patterns — are rewritten to `Enum::Variant`
    (a local binding of the same name would shadow the import; none is rewritten when the block binds such a name)."""
    n = 0
    if isinstance(node, list):
        for x in node:
            n += _local_variant_uses(x, enums)
        return n
    if not isinstance(node, dict):
        return 0
    if node.get("k") == "block" and isinstance(node.get("stmts"), list):
        table = {}
        for s_ in node["stmts"]:
            if isinstance(s_, dict) and s_.get("k") == "item" and isinstance(s_.get("item"), dict) and s_["item"].get("k") == "use":
                for nm in s_["item"].get("names", []):
                    path = nm.get("path") or []
                    if nm.get("glob") and path and path[-1] in enums:
                        for v in enums[path[-1]]["variants"]:
                            table.setdefault(v["name"], (path[-1], v["name"]))
                    elif not nm.get("glob") and len(path) >= 2 and path[-2] in enums and any(v["name"] == path[-1] for v in enums[path[-2]]["variants"]):
                        table[nm.get("alias") or path[-1]] = (path[-2], path[-1])
        if table:
            n += _apply_variant_table(node["stmts"], table)
    for v in node.values():
        if isinstance(v, (dict, list)):
            n += _local_variant_uses(v, enums)
    return n


def _apply_variant_table(node, table):
    n = 0
    if isinstance(node, list):
        for x in node:
            n += _apply_variant_table(x, table)
    elif isinstance(node, dict):
        if node.get("k") == "item":
            return 0
        segs = node.get("segs")
        if isinstance(segs, list) and len(segs) == 1 and segs[0] in table and node.get("qself") is None:
            node["segs"] = list(table[segs[0]])
            n += 1
        elif node.get("k") == "ident" and node.get("name") in table and "segs" not in node and not node.get("sub") and not node.get("by_ref") and not node.get("mut"):
            # a bare identifier pattern that names an imported unit variant is a path pattern
            en, vn = table[node["name"]]
            for k_ in [k_ for k_ in node if k_ not in ("l",)]:
                del node[k_]
            node.update({"k": "path", "segs": [en, vn]})
            n += 1
        for v in list(node.values()):
            if isinstance(v, (dict, list)):
                n += _apply_variant_table(v, table)
    return n


LOG_MACROS = {"trace", "debug", "info", "warn", "error"}
# methods that read their receiver and nothing else (std accessors on strings, slices, options, maps)
PURE_ACCESSORS = {
    "len", "is_empty", "to_string", "clone", "as_ref", "as_str", "iter", "count", "as_slice", "display", "to_owned", "first", "last", "get",
    "is_some", "is_none", "is_ok", "is_err", "as_deref", "keys", "values", "contains", "contains_key", "starts_with", "ends_with", "chars",
    "bytes", "copied", "cloned", "as_bytes", "trim", "peek", "bits", "to_vec", "unwrap_or_default", "as_mut", "borrow", "deref", "into",
}


PURE_ADAPTORS = {
    "any", "all", "find", "position", "map", "filter", "rev", "enumerate", "zip", "windows", "skip", "is_ascii_digit", "is_ascii", "is_char_boundary",
    "is_alphabetic", "is_sorted", "checked_add", "checked_mul", "checked_sub", "is_some_and", "is_none_or", "max", "min", "eq", "ne", "into_iter", "last",
    "collect", "sum", "fold", "join", "concat", "unzip", "flatten", "flat_map", "filter_map", "chain", "find_map", "take_while", "skip_while", "peekable", "step_by",
    "is_power_of_two", "leading_zeros", "count_ones", "contains_any", "intersects", "is_all", "union", "intersection", "complement", "difference",
}
CONSUMING = {"any", "all", "find", "find_map", "position", "count", "last", "max", "min", "sum", "fold", "collect", "nth", "for_each", "eq", "ne", "unzip", "join", "is_sorted"}
FRESH = {"iter", "chars", "bytes", "char_indices", "keys", "values", "into_iter", "windows", "chunks", "lines", "split", "split_whitespace", "splitn", "rsplit", "matches", "drain_none", "to_vec", "clone", "cloned_iter", "as_bytes", "as_slice", "as_str", "to_string", "to_owned"}


def _fresh_iterator(recv):
    """The receiver chain of a consuming adaptor starts a new iterator (`.iter()`, `.chars()`, …) somewhere, or is no iterator at all
    (a slice / string method of the same name such as `join`, `concat`, `eq`)."""
    r = recv
    while isinstance(r, dict):
        k_ = r.get("k")
        if k_ in ("paren", "ref", "unary", "field", "try_"):
            r = r.get("e")
        elif k_ == "mcall":
            if r.get("m") in FRESH:
                return True
            r = r.get("recv")
        elif k_ in ("array", "tuple", "range", "lit", "macro"):
            return True
        elif k_ == "path":
            return False
        elif k_ == "call":
            return True
        else:
            return False
    return False


PURE_CRATE_METHODS = set()  # names of the crate's own `&self` methods whose every definition only reads (computed by apply())
ASSERT_MACROS = {"assert", "assert_eq", "assert_ne", "debug_assert", "debug_assert_eq", "debug_assert_ne"}


def is_pure_assert(st):
    """`debug_assert!(COND, "msg", ..)` / `assert_eq!(A, B)` … whose arguments only read values: the statement computes nothing the
    function hands on; whether it can fire is a question for the panic census (C03), which reads it from the MIR."""
    if not (isinstance(st, dict) and st.get("k") in ("expr", "macro") and isinstance(st.get("e"), dict)):
        return False
    m = st["e"]
    if m.get("k") != "macro" or m.get("name") not in ASSERT_MACROS or m.get("args") is None:
        return False
    if m["args"] and isinstance(m["args"][0], dict) and m["args"][0].get("k") == "lit" and m["args"][0].get("t") == "bool":
        return False  # `debug_assert!(false, ..)` marks an arm as unreachable: it stays where it is for the census to place
    return all(pure_expr(a) for a in m["args"])


def pure_expr(e):
    """An expression whose evaluation reads values and does nothing else: paths, literals, field accesses, references, casts,
    tuples/arrays of such, operators other than assignments, and calls of the std accessors above."""
    if isinstance(e, list):
        return all(pure_expr(x) for x in e)
    if not isinstance(e, dict):
        return True
    k = e.get("k")
    if k in ("path", "lit"):
        return True
    if k in ("field", "ref", "paren", "cast", "unary", "try_"):
        return pure_expr(e.get("e"))
    if k == "index":
        return False  # may panic
    if k in ("tuple", "array"):
        return pure_expr(e.get("elems"))
    if k == "binary":
        op = e.get("op", "")
        if op.endswith("=") and op not in ("==", "!=", "<=", ">="):
            return False
        return pure_expr(e.get("lhs")) and pure_expr(e.get("rhs"))
    if k == "mcall":
        m_ = e.get("m")
        if m_ in CONSUMING and m_ not in PURE_ACCESSORS and not _fresh_iterator(e.get("recv")):
            return False  # `self.pending.any(..)` on a stored iterator advances it: not a read
        return m_ in (PURE_ACCESSORS | PURE_ADAPTORS | PURE_CRATE_METHODS) and pure_expr(e.get("recv")) and pure_expr(e.get("args"))
    if k == "call":
        f_ = e.get("f") or {}
        segs = f_.get("segs") or [] if f_.get("k") == "path" else []
        ctor = bool(segs) and (segs[-1][:1].isupper() or "::".join(segs[-2:]) in ("Box::new", "Rc::new", "Arc::new", "String::from", "String::new", "Vec::new"))
        return ctor and pure_expr(e.get("args"))
    if k == "match":
        return pure_expr(e.get("scrut")) and all(pure_expr(a.get("body")) and (a.get("guard") is None or pure_expr(a.get("guard"))) for a in e.get("arms") or [])
    if k == "if":
        c_ = e.get("cond")
        c_ok = pure_expr(c_.get("e")) if isinstance(c_, dict) and c_.get("k") == "letexpr" else pure_expr(c_)
        return c_ok and pure_expr(e.get("then")) and (e.get("else") is None or pure_expr(e.get("else")))
    if k == "closure":
        # building a closure does nothing; calling it (by a pure adaptor) evaluates its body
        return pure_expr(e.get("body"))
    if k == "block":
        sts = e.get("stmts") or []
        return all((st.get("k") == "expr" and pure_expr(st.get("e"))) or (st.get("k") == "let" and st.get("else") is None and (st.get("init") is None or pure_expr(st.get("init")))) for st in sts)
    if k == "macro" and e.get("name") in ("format", "format_args", "stringify", "concat"):
        return pure_expr(e.get("args") or [])
    if k == "macro" and e.get("name") == "matches":
        return pure_expr(e.get("e")) and (e.get("guard") is None or pure_expr(e.get("guard")))
    if k == "macro" and e.get("name") == "cfg":
        return True
    return False


def is_pure_log(st):
    """`log::debug!(..);` (any level) whose arguments only read values — the statement does nothing but log."""
    if not (isinstance(st, dict) and st.get("k") == "expr" and isinstance(st.get("e"), dict)):
        return False
    m = st["e"]
    if m.get("k") != "macro" or m.get("name") not in LOG_MACROS:
        return False
    pth = (m.get("path") or "").replace(" ", "")
    if pth not in (m["name"], "log::" + m["name"], "::log::" + m["name"]):
        return False
    if m.get("args") is None:
        return False
    return all(pure_expr(a) for a in m["args"])


def _count_var(node, name):
    n = 0
    if isinstance(node, list):
        return sum(_count_var(x, name) for x in node)
    if isinstance(node, dict):
        if node.get("k") == "path" and node.get("segs") == [name] and node.get("qself") is None:
            return 1
        if node.get("k") == "macro" and node.get("args") is None:
            return 99  # tokens we cannot see into
        if node.get("k") == "lit" and node.get("t") == "str" and ("{" + name) in str(node.get("v")):
            return 99  # captured by a format string
        for v in node.values():
            if isinstance(v, (dict, list)):
                n += _count_var(v, name)
    return n


def _subst_var(node, name, repl):
    if isinstance(node, list):
        return [_subst_var(x, name, repl) for x in node]
    if isinstance(node, dict):
        if node.get("k") == "path" and node.get("segs") == [name] and node.get("qself") is None:
            return copy.deepcopy(repl)
        return {k: _subst_var(v, name, repl) for k, v in node.items()}
    return node


def _others_pure(t, name):
    """In T, everything evaluated besides the one occurrence of `name` is pure (so moving E to that place changes no order)."""
    if isinstance(t, dict) and t.get("k") == "path" and t.get("segs") == [name]:
        return True
    if not isinstance(t, dict):
        return True
    k = t.get("k")
    if k in ("field", "ref", "paren", "cast", "unary"):
        return _others_pure(t.get("e"), name)
    if k == "mcall":
        if _count_var(t.get("recv"), name) == 1 and pure_expr(t.get("args")):
            return (t.get("m") in PURE_ACCESSORS or True) and _others_pure(t["recv"], name)
        return False
    if k == "call":
        # a constructor / function applied to the value: F(x) — the callee path is not evaluated before its argument in any
        # observable way
        return len(t.get("args", [])) == 1 and _count_var(t["args"][0], name) == 1 and t["f"].get("k") == "path" and _others_pure(t["args"][0], name)
    return False


def _has_try_or_parse(node):
    """`let x = PARSER.parse_next(input)?;` is a parsing step (the engines read the statement list of a parser function as its
    steps) and `?` is control flow: such a binding stays a statement."""
    if isinstance(node, list):
        return any(_has_try_or_parse(x) for x in node)
    if isinstance(node, dict):
        if node.get("k") == "try" or (node.get("k") == "mcall" and node.get("m") in ("parse_next", "parse_peek", "parse")):
            return True
        return any(_has_try_or_parse(v) for v in node.values() if isinstance(v, (dict, list)))
    return False


DROPPED_ASSERTS = []


def _simplify_blocks(node, log, where):
    """N5  statements that only log are dropped.
    N6  `{ let x = E; x }` is `E`;  N8  `{ let x = E; T }` with one use of x in T, everything else in T pure, is `T[x := E]`.
    N7  `if C { }` without else and with a pure condition is nothing.
    N9  a closure body `{ E }` is `E`."""
    n = 0
    if isinstance(node, list):
        for x in node:
            n += _simplify_blocks(x, log, where)
        return n
    if not isinstance(node, dict):
        return 0
    for v in node.values():
        if isinstance(v, (dict, list)):
            n += _simplify_blocks(v, log, where)
    if node.get("k") == "block" and isinstance(node.get("stmts"), list):
        st = node["stmts"]
        keep = [s_ for s_ in st if not is_pure_log(s_)]
        if len(keep) != len(st):
            n += len(st) - len(keep)
            st = keep
        # N10  an assertion whose arguments only read values hands nothing on: dropped here, kept for the panic census
        keep = []
        for s_ in st:
            if is_pure_assert(s_):
                DROPPED_ASSERTS.append(s_["e"])
                n += 1
            else:
                keep.append(s_)
        st = keep
        keep = []
        for s_ in st:
            e_ = s_.get("e") if isinstance(s_, dict) and s_.get("k") == "expr" else None
            # N11  a block statement with nothing left in it is nothing
            if isinstance(e_, dict) and e_.get("k") == "block" and not e_.get("stmts") and not e_.get("unsafe") and len(st) > 1:
                n += 1
                continue
            if isinstance(e_, dict) and e_.get("k") == "if" and e_.get("else") is None and isinstance(e_.get("then"), dict) and e_["then"].get("k") == "block" and not e_["then"].get("stmts") and e_["cond"].get("k") != "letexpr" and pure_expr(e_["cond"]):
                n += 1
                continue
            keep.append(s_)
        st = keep
        changed = True
        while changed and len(st) >= 2:
            changed = False
            a, b = st[-2], st[-1]
            if isinstance(a, dict) and a.get("k") == "let" and a.get("else") is None and a.get("init") is not None and isinstance(b, dict) and b.get("k") == "expr" and not b.get("semi"):
                p_ = a["pat"]
                while isinstance(p_, dict) and p_.get("k") == "typed":
                    p_ = p_["pat"]
                if isinstance(p_, dict) and p_.get("k") == "ident" and not p_.get("by_ref") and not p_.get("sub"):
                    nm = p_["name"]
                    if _count_var(b["e"], nm) == 1 and _others_pure(b["e"], nm) and _count_var(a["init"], nm) == 0 and not _has_try_or_parse(a["init"]):
                        st = st[:-2] + [dict(b, e=_subst_var(b["e"], nm, a["init"]))]
                        n += 1
                        changed = True
        node["stmts"] = st
    if node.get("k") == "closure" and isinstance(node.get("body"), dict) and node["body"].get("k") == "block":
        bst = node["body"].get("stmts") or []
        if len(bst) == 1 and isinstance(bst[0], dict) and bst[0].get("k") == "expr" and not bst[0].get("semi") and not node["body"].get("unsafe") and not node["body"].get("label"):
            node["body"] = bst[0]["e"]
            n += 1
    return n


def _pure_crate_methods(facts):
    """Names of `&self` methods of the crate all of whose definitions have a body that only reads values (least fixed point
    grown from the std accessors: a method is added when its body is pure given the methods found so far; recursion through
    itself is allowed)."""
    PURE_CRATE_METHODS.clear()
    by_name = {}
    for fn in facts.fns.values():
        if fn.test or fn.body is None or fn.impl is None:
            continue
        by_name.setdefault(fn.name, []).append(fn)
    cand = {n_ for n_, fs in by_name.items() if all(f_.node.get("self") == "&self" for f_ in fs) and n_ not in PURE_ACCESSORS and n_ not in PURE_ADAPTORS}
    # greatest fixed point over the candidates (so that structural recursion counts as pure), shrunk until stable
    PURE_CRATE_METHODS.update(cand)
    changed = True
    while changed:
        changed = False
        for n_ in sorted(PURE_CRATE_METHODS):
            if not all(pure_expr(f_.body) for f_ in by_name[n_]):
                PURE_CRATE_METHODS.discard(n_)
                changed = True
    return sorted(PURE_CRATE_METHODS)


def apply(facts):
    facts.normalised = []
    import re as _re

    facts.pure_methods = _pure_crate_methods(facts)

    for key, fn in facts.fns.items():
        if fn.body is None or fn.test:
            continue
        del DROPPED_ASSERTS[:]
        k_ = _simplify_blocks(fn.node["body"], facts.normalised, key)
        if DROPPED_ASSERTS:
            fn.node["_asserts"] = list(DROPPED_ASSERTS)
        if k_:
            facts.normalised.append("%s: %d pure log statements / single-use bindings / empty conditionals folded" % (key, k_))

    for key, fn in facts.fns.items():
        if fn.body is None:
            continue
        k_ = _local_variant_uses(fn.node["body"], facts.enums)
        if k_:
            facts.normalised.append("%s: %d names imported by a block-local `use Enum::..` read as `Enum::Variant`" % (key, k_))

    for key, fn in facts.fns.items():
        if fn.body is None:
            continue
        k_ = _let_else(fn.node["body"])
        if k_:
            facts.normalised.append("%s: %d `let … else` read as a two-arm match" % (key, k_))

    for key, fn in facts.fns.items():
        if fn.impl is None or fn.body is None:
            continue
        ty = _re.sub(r"\s+", "", fn.impl["self_ty"] or "")
        ty = _re.sub(r"<(?:'[A-Za-z_]+,?)+>", "", ty)
        if _re.fullmatch(r"[A-Za-z_][A-Za-z0-9_]*", ty):
            k_ = _self_paths(fn.node["body"], ty)
            if k_:
                facts.normalised.append("%s: %d `Self::` paths read as `%s::`" % (key, k_, ty))
    wrappers = ctor_wrappers(facts)
    if not wrappers:
        return facts
    for key, fn in facts.fns.items():
        if fn.body is None or key in wrappers:
            continue
        fn.node["body"] = _rewrite(fn.body, fn.module, wrappers, facts, facts.normalised, key)
    return facts
