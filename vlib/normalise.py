"""Behaviour-preserving normalisations applied to the extracted AST before any rule looks at it.

Each one removes a degree of freedom that a maintainer may exercise without changing behaviour, so that the rules decide the
program and not its spelling.  Every rewrite is semantics-preserving for the Rust fragment it matches; what is rewritten is
recorded in `facts.normalised` (reported in the evidence files).

N1  constructor wrappers: a call of a crate-local free function whose whole body is one expression built only from its
    parameters, enum/struct constructors, `Rc::new`/`Box::new`/`Some`/`Ok`, references, `clone()`/`into()` and literals is
    replaced by that expression with the arguments substituted (`operator(Ope::List(a, b))` ≡ `Exp::Operator(Rc::new(Ope::List(a, b)))`).
"""
import copy

PURE_CALL_TAILS = {"new", "Some", "Ok", "from"}
PURE_METHODS = {"clone", "into", "to_owned"}


def _is_ctor_expr(e, params):
    k = e.get("k")
    if k == "block":
        st = e["stmts"]
        return len(st) == 1 and st[0]["k"] == "expr" and not st[0].get("semi") and _is_ctor_expr(st[0]["e"], params)
    if k == "path":
        return True
    if k == "lit":
        return True
    if k == "ref":
        return _is_ctor_expr(e["e"], params)
    if k == "tuple":
        return all(_is_ctor_expr(x, params) for x in e["elems"])
    if k == "call":
        f = e["f"]
        if f["k"] != "path":
            return False
        last = f["segs"][-1]
        if not (last[:1].isupper() or (last in PURE_CALL_TAILS and len(f["segs"]) >= 2 and f["segs"][-2] in ("Rc", "Box", "Arc"))):
            return False
        return all(_is_ctor_expr(a, params) for a in e["args"])
    if k == "mcall":
        return e["m"] in PURE_METHODS and not e["args"] and _is_ctor_expr(e["recv"], params)
    if k == "struct":
        return all(_is_ctor_expr(f["e"], params) for f in e["fields"]) and not e.get("rest")
    return False


def _subst(e, env):
    if isinstance(e, list):
        return [_subst(x, env) for x in e]
    if not isinstance(e, dict):
        return e
    if e.get("k") == "path" and len(e["segs"]) == 1 and e.get("qself") is None and e["segs"][0] in env:
        return copy.deepcopy(env[e["segs"][0]])
    return {k: _subst(v, env) for k, v in e.items()}


def ctor_wrappers(facts):
    out = {}
    for key, fn in facts.fns.items():
        if fn.test or fn.impl is not None or fn.node.get("self") is not None:
            continue
        params = []
        ok = True
        for i in fn.node["inputs"]:
            p = i["pat"]
            if p["k"] != "ident" or p.get("by_ref") or p.get("mut"):
                ok = False
                break
            params.append(p["name"])
        if not ok or fn.body is None:
            continue
        if _is_ctor_expr(fn.body, params):
            body = fn.body
            while body.get("k") == "block":
                body = body["stmts"][0]["e"]
            # the body must mention something other than a bare parameter (otherwise it is an identity, handled elsewhere)
            if body.get("k") in ("call", "struct"):
                out[key] = (params, body)
    return out


def _resolve(segs, module, wrappers, facts):
    if len(segs) == 1:
        k = "::".join(module + (segs[0],))
        if k in wrappers:
            return k
        # imported by `use`: unique free function of that name, and the name is imported in this module
        cands = [w for w in wrappers if w.split("::")[-1] == segs[0]]
        if len(cands) == 1:
            for u in facts.uses.get(module, []):
                if u.get("glob") and "::".join(u["path"][-len(cands[0].split("::")) + 1 :]) == "::".join(cands[0].split("::")[:-1]):
                    return cands[0]
                if u.get("alias") == segs[0] and u["path"][-1] == segs[0]:
                    return cands[0]
        return None
    tail = "::".join(segs)
    for w in wrappers:
        if w == tail or w.endswith("::" + tail) or tail.endswith("::" + w):
            return w
    return None


def _rewrite(e, module, wrappers, facts, log, where, depth=0):
    if isinstance(e, list):
        return [_rewrite(x, module, wrappers, facts, log, where, depth) for x in e]
    if not isinstance(e, dict):
        return e
    e = {k: (_rewrite(v, module, wrappers, facts, log, where, depth) if k not in ("pat", "params") else v) for k, v in e.items()}
    if e.get("k") == "call" and e["f"].get("k") == "path" and depth < 4:
        w = _resolve(e["f"]["segs"], module, wrappers, facts)
        if w is not None:
            params, body = wrappers[w]
            if len(params) == len(e["args"]):
                log.append("N1 %s: call of constructor wrapper %s inlined" % (where, w))
                new = _subst(body, dict(zip(params, e["args"])))
                return _rewrite(new, tuple(w.split("::")[:-1]), wrappers, facts, log, where, depth + 1)
    return e


def _self_paths(node, ty):
    """N2  `Self::X` in expressions and patterns of an impl block is the same path as `Type::X`: rewritten in place (type
    strings such as `-> Self` are left alone, only path segments of expression / pattern nodes change)."""
    n = 0
    if isinstance(node, list):
        for x in node:
            n += _self_paths(x, ty)
    elif isinstance(node, dict):
        if node.get("k") in ("path", "tstruct", "struct", "call") or "segs" in node:
            segs = node.get("segs")
            if isinstance(segs, list) and len(segs) >= 1 and segs[0] == "Self":
                segs[0] = ty
                n += 1
        for v in node.values():
            if isinstance(v, (dict, list)):
                n += _self_paths(v, ty)
    return n


def _let_else(node):
    """N3  `let PAT = E else { DIVERGE }; REST` is `match E { PAT => { REST }, _ => DIVERGE }` as the value of the block: the
    else-block never falls through, and the bindings of PAT are in scope exactly in REST."""
    n = 0
    if isinstance(node, list):
        for x in node:
            n += _let_else(x)
    elif isinstance(node, dict):
        if node.get("k") == "block" and isinstance(node.get("stmts"), list):
            st = node["stmts"]
            for i, s_ in enumerate(st):
                if isinstance(s_, dict) and s_.get("k") == "let" and s_.get("else") is not None and s_.get("init") is not None:
                    l_ = s_.get("l")
                    rest = {"k": "block", "l": l_, "stmts": st[i + 1 :]}
                    mt = {
                        "k": "match",
                        "l": l_,
                        "scrut": s_["init"],
                        "arms": [
                            {"l": l_, "pat": s_["pat"], "guard": None, "body": rest, "attrs": []},
                            {"l": l_, "pat": {"k": "wild", "l": l_}, "guard": None, "body": s_["else"], "attrs": []},
                        ],
                    }
                    node["stmts"] = st[:i] + [{"k": "expr", "l": l_, "e": mt, "semi": False}]
                    n += 1
                    break
        for v in node.values():
            if isinstance(v, (dict, list)):
                n += _let_else(v)
    return n


def _local_variant_uses(node, enums):
    """N4  a block that starts with `use Enum::*;` / `use Enum::{A, B};` / `use Enum::A as X;` names the variants of a crate enum
    without their prefix: inside that block the bare names — in expressions and in patterns — are rewritten to `Enum::Variant`
    (a local binding of the same name would shadow the import; none is rewritten when the block binds such a name)."""
    n = 0
    if isinstance(node, list):
        for x in node:
            n += _local_variant_uses(x, enums)
        return n
    if not isinstance(node, dict):
        return 0
    if node.get("k") == "block" and isinstance(node.get("stmts"), list):
        table = {}
        for s_ in node["stmts"]:
            if isinstance(s_, dict) and s_.get("k") == "item" and isinstance(s_.get("item"), dict) and s_["item"].get("k") == "use":
                for nm in s_["item"].get("names", []):
                    path = nm.get("path") or []
                    if nm.get("glob") and path and path[-1] in enums:
                        for v in enums[path[-1]]["variants"]:
                            table.setdefault(v["name"], (path[-1], v["name"]))
                    elif not nm.get("glob") and len(path) >= 2 and path[-2] in enums and any(v["name"] == path[-1] for v in enums[path[-2]]["variants"]):
                        table[nm.get("alias") or path[-1]] = (path[-2], path[-1])
        if table:
            n += _apply_variant_table(node["stmts"], table)
    for v in node.values():
        if isinstance(v, (dict, list)):
            n += _local_variant_uses(v, enums)
    return n


def _apply_variant_table(node, table):
    n = 0
    if isinstance(node, list):
        for x in node:
            n += _apply_variant_table(x, table)
    elif isinstance(node, dict):
        if node.get("k") == "item":
            return 0
        segs = node.get("segs")
        if isinstance(segs, list) and len(segs) == 1 and segs[0] in table and node.get("qself") is None:
            node["segs"] = list(table[segs[0]])
            n += 1
        elif node.get("k") == "ident" and node.get("name") in table and "segs" not in node and not node.get("sub") and not node.get("by_ref") and not node.get("mut"):
            # a bare identifier pattern that names an imported unit variant is a path pattern
            en, vn = table[node["name"]]
            for k_ in [k_ for k_ in node if k_ not in ("l",)]:
                del node[k_]
            node.update({"k": "path", "segs": [en, vn]})
            n += 1
        for v in list(node.values()):
            if isinstance(v, (dict, list)):
                n += _apply_variant_table(v, table)
    return n


def apply(facts):
    facts.normalised = []
    import re as _re

    for key, fn in facts.fns.items():
        if fn.body is None:
            continue
        k_ = _local_variant_uses(fn.node["body"], facts.enums)
        if k_:
            facts.normalised.append("%s: %d names imported by a block-local `use Enum::..` read as `Enum::Variant`" % (key, k_))

    for key, fn in facts.fns.items():
        if fn.body is None:
            continue
        k_ = _let_else(fn.node["body"])
        if k_:
            facts.normalised.append("%s: %d `let … else` read as a two-arm match" % (key, k_))

    for key, fn in facts.fns.items():
        if fn.impl is None or fn.body is None:
            continue
        ty = _re.sub(r"\s+", "", fn.impl["self_ty"] or "")
        ty = _re.sub(r"<(?:'[A-Za-z_]+,?)+>", "", ty)
        if _re.fullmatch(r"[A-Za-z_][A-Za-z0-9_]*", ty):
            k_ = _self_paths(fn.node["body"], ty)
            if k_:
                facts.normalised.append("%s: %d `Self::` paths read as `%s::`" % (key, k_, ty))
    wrappers = ctor_wrappers(facts)
    if not wrappers:
        return facts
    for key, fn in facts.fns.items():
        if fn.body is None or key in wrappers:
            continue
        fn.node["body"] = _rewrite(fn.body, fn.module, wrappers, facts, facts.normalised, key)
    return facts
