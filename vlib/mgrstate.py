"""Layout of a scheme manager's private state, by role.

The rules speak about "the counter", "the list of definitions", "the printer registry" … .  Which private field plays which
role is read from the types and from the three rendering methods, so that fields can be renamed, regrouped into a private
sub-structure (with its own methods) or re-typed without touching the rules:

  var_index     the one integer field (possibly inside a nested state struct)
  vars/init/fini   the Vec<String> joined by definitions() / initialization() / terminate()
  printers      HashMap<_, integer> whose key type mentions Option<char> (destination + terminator)
  matches       HashMap<(String, bool), integer>
  files         HashMap<String, OpenPort-like record>
  default_port  Option<record>

`layout(facts, M)` -> dict(paths={actual dotted path: type}, alias={actual path: canonical name}, problems=[..])"""
import re

from .facts import norm_ty

INTS = ("u8", "u16", "u32", "u64", "u128", "usize", "i8", "i16", "i32", "i64", "isize")


def _is_state_struct(facts, ty):
    """A crate struct with at least one inherent `&mut self` method: private mutable sub-state (not a value record)."""
    if ty not in facts.structs:
        return False
    for k, fn in facts.fns.items():
        if fn.impl is not None and not fn.impl.get("trait") and norm_ty(fn.impl["self_ty"]) == ty and (fn.node.get("self") or "").replace(" ", "") in ("&mutself",):
            return True
    return False


def flatten(facts, ty, prefix="", depth=0):
    out = {}
    sd = facts.structs.get(ty)
    if sd is None or depth > 3:
        return out
    for fl in sd.get("fields", []):
        t = norm_ty(fl["ty"])
        name = prefix + (fl.get("name") or "")
        if _is_state_struct(facts, t):
            out[name] = t
            out.update(flatten(facts, t, name + ".", depth + 1))
        else:
            out[name] = t
    return out


def _leaf_types(facts, ty, depth=0):
    """field types of a key type with tuples and the crate's plain record structs expanded"""
    ty = norm_ty(ty)
    from . import emit as _emit

    if ty in _emit.BOOLLIKE:
        return ["bool"]  # a two-valued internal enum read as a boolean (vlib/codegen.py::ensure_boollike)
    if depth > 3:
        return [ty]
    if ty.startswith("(") and ty.endswith(")"):
        from .facts import split_generics

        out = []
        for part in split_generics(ty[1:-1]):
            out += _leaf_types(facts, part, depth + 1)
        return out
    sd = facts.structs.get(ty)
    if sd is not None and not _is_state_struct(facts, ty):
        out = []
        for fl in sd.get("fields", []):
            out += _leaf_types(facts, fl["ty"], depth + 1)
        return out
    return [ty]


_CACHE = {}


def layout(facts, M):
    k = (id(facts), M)
    if k in _CACHE:
        return _CACHE[k]
    paths = flatten(facts, M)
    alias, problems = {}, []
    ints = [p for p, t in paths.items() if t in INTS]
    if len(ints) == 1:
        alias[ints[0]] = "var_index"
    else:
        problems.append("expected exactly one integer counter in %s, found %s" % (M, ints))
    for p, t in paths.items():
        if re.fullmatch(r"HashMap<.*,(%s)>" % "|".join(INTS), t):
            key = t[len("HashMap<") : t.rfind(",")]
            leaves = sorted(_leaf_types(facts, key))
            if re.fullmatch(r"\(String,bool\)", key) or leaves == ["String", "bool"]:
                # (pattern, case flag) — as a tuple or as a private record of exactly these two fields
                alias[p] = "matches"
            elif "Option<char>" in key or key in facts.enums or key in facts.structs or key.startswith("("):
                alias[p] = "printers"
        elif re.fullmatch(r"HashMap<String,\w+>", t) and t[len("HashMap<String,") : -1] in facts.structs:
            alias[p] = "files"
        elif re.fullmatch(r"Option<\w+>", t) and t[7:-1] in facts.structs:
            alias[p] = "default_port"
    # the three string lists: by the method that renders them
    lists = [p for p, t in paths.items() if t == "Vec<String>"]
    want = {"definitions": "vars", "initialization": "init", "terminate": "fini"}
    if lists:
        from . import emit, codegen

        for meth, canon_name in want.items():
            key = codegen.mgr_key(facts, M, meth)
            if key is None:
                continue
            it = emit.Interp(facts)
            try:
                res = it.run_fn(key, raw_fields=True)
            except Exception:
                res = []
            seen = set()
            for st, v in res:
                for fld in _joined_fields(v):
                    seen.add(fld)
            seen &= set(lists)
            if len(seen) == 1:
                alias[seen.pop()] = canon_name
    for p in lists:
        if p not in alias:
            problems.append("string list %s.%s is rendered by none of definitions()/initialization()/terminate()" % (M, p))
    out = dict(paths=paths, alias=alias, problems=problems, counter=ints[0] if len(ints) == 1 else None, lists=lists)
    _CACHE[k] = out
    return out


def _joined_fields(v, depth=0):
    """field paths whose contents are joined into the value"""
    out = []
    if not isinstance(v, dict) or depth > 8:
        return out
    if v.get("v") == "str":
        for p in v["parts"]:
            if p[0] == "join":
                out += _joined_fields(p[1], depth + 1)
            elif p[0] == "h":
                out += _joined_fields(p[1], depth + 1)
    if v.get("v") == "list" and v.get("field"):
        out.append(v["field"])
    if v.get("v") == "hole":
        if v.get("kind") == "field":
            out.append(v["field"])
        for k in ("recv", "of"):
            if isinstance(v.get(k), dict):
                out += _joined_fields(v[k], depth + 1)
        for a in v.get("args", []) or []:
            out += _joined_fields(a, depth + 1)
    if v.get("v") in ("ok", "some"):
        out += _joined_fields(v["x"], depth + 1)
    return out


def initial_fields(facts, M):
    """Symbolic start state of an allocating method: the counter is `v`, the string lists are empty (what is pushed on a
    path is what the path adds)."""
    lay = layout(facts, M)
    fields = {}
    if lay["counter"]:
        fields[lay["counter"]] = {"v": "affine", "base": "v", "off": 0}
    for p in lay["lists"]:
        fields[p] = []
    return fields
