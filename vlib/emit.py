"""Emission traces: abstract interpretation of the code generator's string-building code.

The interpreter walks the *syntax* of a function (no execution): every `match`/`if` forks, strings are
kept as lists of parts  ("c", text) | ("h", hole) | ("sub", child) | ("join", list, sep),  numeric
state of `self` is tracked as affine forms, pushes to `self.<vec>` and the `buffer` parameter are
collected in order.  Unknown constructs become opaque holes and are listed in state["unknown"] so
rules can fail closed when they matter.
"""
import copy
import re

from . import facts as F
from . import rx
from .facts import src, psrc, norm_ty, find_all


# ------------------------------------------------------------------ values
def S(parts):
    return {"v": "str", "parts": parts}


def C(text):
    return ("c", text)


def H(kind, srcx, **kw):
    d = {"v": "hole", "kind": kind, "src": srcx}
    d.update(kw)
    return d


def is_str(v):
    return isinstance(v, dict) and v.get("v") == "str"


def parse_fmt(fmt):
    """Rust format string -> [("c", text) | ("a", key, spec)] ; key = None (next positional), int, or name"""
    out, i, buf = [], 0, ""
    while i < len(fmt):
        ch = fmt[i]
        if ch == "{":
            if fmt[i + 1 : i + 2] == "{":
                buf += "{"
                i += 2
                continue
            j = fmt.index("}", i)
            inner = fmt[i + 1 : j]
            name, _, spec = inner.partition(":")
            if buf:
                out.append(("c", buf))
                buf = ""
            key = None if name == "" else (int(name) if name.isdigit() else name)
            out.append(("a", key, spec))
            i = j + 1
        elif ch == "}":
            if fmt[i + 1 : i + 2] == "}":
                buf += "}"
                i += 2
                continue
            buf += "}"
            i += 1
        else:
            buf += ch
            i += 1
    if buf:
        out.append(("c", buf))
    return out


class State:
    __slots__ = ("env", "conds", "fields", "buf", "ret", "unknown", "effects")

    def __init__(self):
        self.env = {}
        self.conds = ()
        self.fields = {}
        self.buf = []
        self.ret = None
        self.unknown = []
        self.effects = []

    def fork(self):
        s = State()
        s.env = dict(self.env)
        s.conds = self.conds
        s.fields = {k: (list(v) if isinstance(v, list) else v) for k, v in self.fields.items()}
        s.buf = list(self.buf)
        s.ret = self.ret
        s.unknown = list(self.unknown)
        s.effects = list(self.effects)
        return s


MUTATORS = {"take", "replace", "remove", "remove_entry", "clear", "drain", "pop", "retain", "truncate", "swap_remove", "entry", "get_or_insert", "get_or_insert_with", "insert_unique", "extend", "append", "swap", "sort", "sort_by", "dedup", "reverse", "rotate_left", "rotate_right", "split_off", "get_mut", "iter_mut", "values_mut", "as_mut", "last_mut", "first_mut", "set", "push_front", "pop_front", "pop_back"}
TEXT_IDENTITIES = {"String::from", "str::to_string", "str::to_owned", "String::to_string", "ToString::to_string", "ToOwned::to_owned", "Into::into", "From::from", "String::clone", "Clone::clone", "str::into", "<str>::to_string", "<str>::to_owned", "std::string::String::from", "std::borrow::ToOwned::to_owned", "std::string::ToString::to_string", "String::as_str", "AsRef::as_ref", "Cow::from", "Cow::Borrowed", "Cow::Owned", "Cow::into_owned"}
BOOLLIKE = {}  # private two-valued enum standing in for a bool: enum name -> {variant: True/False} (vlib/codegen.py::boollike)
FIELD_ALIAS = {}  # actual (dotted) field path of the manager being interpreted -> canonical role name (vlib/mgrstate.py)
METHOD_OWNER = {}  # name of an inherent `self` method of a crate type (unique in the crate) -> that type: `x.m()` and `T::m(x)` are one text
ALIAS = {}  # actual function key -> role name (vlib/roles.py): canonical hole names do not depend on what a helper is called


def some_of(rv):
    """The payload of an Option-valued hole on the path where it is Some."""
    return H("some-of", (rv.get("src") or "") + ".some", of=rv, ty=(re.match(r"Option<(.*)>$", rv.get("ty") or "") or [None, None])[1])


def option_label(lab, seen):
    """'Some' / 'None' when the pattern label is an Option pattern (a catch-all after one of them is the other one)."""
    if len(lab) != 1 or not isinstance(lab[0], str):
        return None
    x = lab[0]
    if x == "None":
        return "None"
    if x.startswith("Some("):
        return "Some"
    if x == "_" and seen == {"Some"}:
        return "None"
    if x == "_" and seen == {"None"}:
        return "Some"
    return None


def _no_inline(facts):
    """Verified character maps (escaping helpers) stay visible as call holes."""
    from . import sanitise

    return set(sanitise.discover(facts).keys())


class Interp:
    def __init__(self, facts, scope_of=None):
        self.f = facts
        self.depth = 0
        self.maxdepth = 12
        self.no_inline = _no_inline(facts)
        from . import roles

        ALIAS.clear()
        ALIAS.update(roles.resolve(facts)[1])
        METHOD_OWNER.clear()
        owners = {}
        for fn_ in facts.fns.values():
            if not fn_.test and fn_.impl is not None and not fn_.impl.get("trait") and fn_.node.get("self") is not None:
                owners.setdefault(fn_.name, set()).add(norm_ty(fn_.impl["self_ty"]).split("<")[0])
        for n_, ts_ in owners.items():
            if len(ts_) == 1:
                METHOD_OWNER[n_] = sorted(ts_)[0]

    # -------------------------------------------------------------- helpers
    def payload_type(self, enum, variant, idx):
        try:
            fs = self.f.variant_fields(enum, variant)
            ty = fs[idx] if idx < len(fs) else None
        except F.AnchorMissing:
            return None
        al = self.f.types.get(ty)
        if al is not None:
            return norm_ty(al["ty"])
        return ty

    def bind_pattern(self, p, val, st):
        """Bind pattern variables. val is the scrutinee value (usually a hole)."""
        k = p["k"]
        if k == "ident":
            st.env[p["name"]] = val
            return
        if k in ("ref", "typed"):
            return self.bind_pattern(p["pat"], val, st)
        if k == "tstruct":
            enum, variant = (p["segs"][-2], p["segs"][-1]) if len(p["segs"]) >= 2 else (None, p["segs"][-1])
            enum = {"Exp": "Expression", "Ope": "Operator"}.get(enum, enum)
            if len(p["segs"]) == 1 and variant in self.f.structs and variant not in self.f.enums:
                # `Permission(bits)`: a tuple struct, its fields are positions of the value itself
                for i, e in enumerate(p["elems"]):
                    if isinstance(val, dict) and val.get("v") == "struct" and str(i) in val["fields"]:
                        fv = val["fields"][str(i)]
                    else:
                        fv = H("proj", "%s.%d" % ((val.get("src") if isinstance(val, dict) else None) or "?", i), of=val if isinstance(val, dict) else None, field=str(i), ty=self._field_ty(val, str(i)) if isinstance(val, dict) else None)
                    self.bind_pattern(e, fv, st)
                return
            for i, e in enumerate(p["elems"]):
                if val.get("v") == "some" and variant == "Some":
                    self.bind_pattern(e, val["x"], st)
                    continue
                if variant == "Some" and len(p["segs"]) == 1 and isinstance(val, dict) and val.get("v") == "hole":
                    base = val["of"] if val.get("kind") == "matched" and isinstance(val.get("of"), dict) else val
                    self.bind_pattern(e, some_of(base), st)
                    continue
                ty = self.payload_type(enum, variant, i) if enum in self.f.enums else None
                if ty is None and isinstance(val, dict) and val.get("ty"):
                    # generic payload: Comparison<T> -> T
                    m = re.match(r"[A-Za-z_]+<(.*)>$", val["ty"])
                    if m and enum in self.f.enums and self.f.enums[enum].get("generics"):
                        ty = m.group(1)
                elif ty is not None and enum in self.f.enums and re.fullmatch(r"[A-Z]", ty or "") and isinstance(val, dict) and val.get("ty"):
                    m = re.match(r"[A-Za-z_]+<(.*)>$", val["ty"])
                    if m:
                        ty = m.group(1)
                h = H("payload", "%s::%s.%d" % (enum, variant, i), enum=enum, variant=variant, idx=i, ty=ty, of=val.get("src") if isinstance(val, dict) else None)
                self.bind_pattern(e, h, st)
            return
        if k == "struct":
            # Point { x, y: py, .. }
            for fl in p.get("fields", []):
                nm = fl["name"]
                if isinstance(val, dict) and val.get("v") == "self":
                    # `let Self { a, b, .. } = self;`: the fields themselves
                    fv = self._field_value(st.env.get("__selfprefix", "") + nm, st)
                elif isinstance(val, dict) and val.get("v") == "struct" and nm in val["fields"]:
                    fv = val["fields"][nm]
                elif isinstance(val, dict) and val.get("v") == "tuple" and nm.isdigit() and int(nm) < len(val["xs"]):
                    fv = val["xs"][int(nm)]
                else:
                    fv = H("proj", "%s.%s" % ((val.get("src") if isinstance(val, dict) else None) or "?", nm), of=val if isinstance(val, dict) else None, field=nm, ty=self._field_ty(val, nm) if isinstance(val, dict) else None)
                self.bind_pattern(fl["pat"], fv, st)
            return
        if k == "tuple":
            xs = val.get("xs") if isinstance(val, dict) and val.get("v") == "tuple" else None
            for i, e in enumerate(p["elems"]):
                self.bind_pattern(e, xs[i] if xs and i < len(xs) else H("proj", "%s.%d" % (val.get("src", "?") if isinstance(val, dict) else "?", i), of=val if isinstance(val, dict) else None, field=str(i)), st)
            return
        if k == "or":
            # bind from the first case; every case must bind the same positions. The variants are recorded on the hole.
            before = set(st.env)
            self.bind_pattern(p["cases"][0], val, st)
            names = [rx.pat_variant(c)[0] if rx.pat_variant(c) else psrc(c) for c in rx.pat_cases(p)]
            shapes = {tuple(b for b in rx.pat_bindings(c)) for c in rx.pat_cases(p)}
            for n, v in list(st.env.items()):
                if isinstance(v, dict) and v.get("kind") == "payload" and n in rx.pat_bindings(p["cases"][0]):
                    st.env[n] = dict(v, variants=names, same_shape=len(shapes) == 1)
            return
        # wild, lit, path: nothing to bind

    _CTOR = {"Some": "some", "None": "none", "Ok": "ok", "Err": "err"}

    def static_match(self, p, val):
        """True / False when the pattern certainly matches / certainly does not match the (partly) known value, None when
        that depends on something unknown."""
        while p["k"] in ("ref", "typed", "paren"):
            p = p["pat"]
        k = p["k"]
        if k == "wild" or (k == "ident" and p.get("sub") is None and not (isinstance(val, dict) and p["name"] == "None")):
            return True
        if k == "ident" and p.get("sub") is not None:
            return self.static_match(p["sub"], val)
        if k == "or":
            rs = [self.static_match(c_, val) for c_ in p["cases"]]
            return True if any(r is True for r in rs) else (False if all(r is False for r in rs) else None)
        if not isinstance(val, dict):
            return None
        v = val.get("v")
        if k == "ident" and p["name"] == "None":
            return (v == "none") if v in ("some", "none") else None
        if k in ("tstruct", "path") and len(p["segs"]) == 1 and p["segs"][0] in self._CTOR:
            want = self._CTOR[p["segs"][0]]
            if v in ("some", "none", "ok", "err"):
                if v != want:
                    return False
                if k == "path" or not p.get("elems"):
                    return True
                return self.static_match(p["elems"][0], val["x"]) if len(p["elems"]) == 1 else None
            return None
        if k == "tuple" and v == "tuple" and len(p["elems"]) == len(val["xs"]):
            rs = [self.static_match(q, x) for q, x in zip(p["elems"], val["xs"])]
            return False if any(r is False for r in rs) else (True if all(r is True for r in rs) else None)
        if k == "lit":
            have = {"bool": lambda: val["b"], "char": lambda: val["c"], "int": lambda: val["n"]}.get(v)
            if have is not None and not p.get("neg"):
                try:
                    return have() == (p["v"] if v != "int" else int(p["v"]))
                except (TypeError, ValueError):
                    return None
            if v == "str" and all(q[0] == "c" for q in val["parts"]) and p.get("t") == "str":
                return "".join(q[1] for q in val["parts"]) == p["v"]
        return None

    def _nested_ctor(self, p):
        """a constructor pattern with a constructor pattern inside (`Ok(Some(x))`, `Ok(None)`)"""
        for q in rx.pat_cases(p):
            while q["k"] in ("ref", "typed", "paren"):
                q = q["pat"]
            if q["k"] == "tstruct" and len(q["segs"]) == 1 and q["segs"][0] in self._CTOR and len(q.get("elems", [])) == 1:
                r = q["elems"][0]
                while r["k"] in ("ref", "typed", "paren"):
                    r = r["pat"]
                if r["k"] in ("tstruct", "path") and len(r["segs"]) == 1 and r["segs"][0] in self._CTOR:
                    return True
                if r["k"] == "ident" and r["name"] == "None":
                    return True
        return False

    def static_bind(self, p, val, st):
        while p["k"] in ("ref", "typed", "paren"):
            p = p["pat"]
        if p["k"] == "tstruct" and len(p["segs"]) == 1 and p["segs"][0] in self._CTOR and isinstance(val, dict) and val.get("v") == self._CTOR[p["segs"][0]] and len(p["elems"]) == 1 and "x" in val:
            return self.static_bind(p["elems"][0], val["x"], st)
        if p["k"] == "tuple" and isinstance(val, dict) and val.get("v") == "tuple" and len(p["elems"]) == len(val["xs"]):
            for q, x in zip(p["elems"], val["xs"]):
                self.static_bind(q, x, st)
            return
        if p["k"] == "ident" and p.get("sub") is not None:
            st.env[p["name"]] = val
            return self.static_bind(p["sub"], val, st)
        if p["k"] == "or":
            for c_ in p["cases"]:
                if self.static_match(c_, val) is True:
                    return self.static_bind(c_, val, st)
        return self.bind_pattern(p, val, st)

    def pat_canon(self, p):
        return "|".join(str(x) for x in self.pat_label(p))

    def as_enumval(self, v):
        """(enum, variant, [payload values]) when `v` is a value built in the code under interpretation by a constructor of
        one of the crate's enums (`Sink::File(name)`, `Sink::Stdout`), else None"""
        if not (isinstance(v, dict) and v.get("v") == "hole"):
            return None
        if v.get("kind") == "call" and isinstance(v.get("callee"), str) and "::" in v["callee"]:
            en, var = v["callee"].split("::")[-2:]
            if en in self.f.enums and var in self.f.variants(en):
                return en, var, list(v.get("args") or [])
        if v.get("kind") == "path" and isinstance(v.get("src"), str) and "::" in v["src"]:
            en, var = v["src"].split("::")[-2:]
            if en in self.f.enums and var in self.f.variants(en) and not self.f.variant_fields(en, var):
                return en, var, []
        return None

    def pat_label(self, p):
        cases = rx.pat_cases(p)
        names = []
        for c in cases:
            pv = rx.pat_variant(c)
            if pv and len(pv[0].split("::")) >= 2 and pv[0].split("::")[-2] in BOOLLIKE and pv[0].split("::")[-1] in BOOLLIKE[pv[0].split("::")[-2]] and not c.get("elems"):
                names.append("True" if BOOLLIKE[pv[0].split("::")[-2]][pv[0].split("::")[-1]] else "False")
            elif pv:
                names.append(pv[0])
            elif c["k"] == "lit":
                names.append(repr(c["v"]))
            elif rx.is_catchall(c):
                names.append("_")
            elif c["k"] == "tuple":
                names.append("(%s)" % ",".join(self.pat_canon(x) for x in c["elems"]))
            elif c["k"] == "tstruct":
                names.append("%s(%s)" % (c["segs"][-1], ",".join("_" if rx.is_catchall(x) else self.pat_canon(x) for x in c["elems"])))
            else:
                names.append(psrc(c))
        return tuple(names)

    # -------------------------------------------------------------- expression evaluation
    def ev(self, e, st):
        """-> list of (state, value)"""
        if e is None:
            return [(st, {"v": "unit"})]
        k = e["k"]
        m = getattr(self, "ev_" + k, None)
        if m is None:
            st.unknown.append(src(e)[:120])
            return [(st, H("opaque", src(e)))]
        return m(e, st)

    def ev_repeat(self, e, st):
        """`[V; N]`: N copies of V for a small literal N, otherwise a buffer nothing is known about (a scratch area handed to
        an API; constructing it has no effect)."""
        n_ = rx.int_const(e["len"])
        out = []
        for s1, v in self.ev(e["e"], st):
            if n_ is not None and 0 <= n_ <= 16:
                out.append((s1, {"v": "list", "items": [v] * n_}))
            else:
                out.append((s1, H("opaque", src(e))))
        return out

    def ev_lit(self, e, st):
        if e["t"] == "str":
            return [(st, S([C(e["v"])]))]
        if e["t"] == "char":
            return [(st, {"v": "char", "c": e["v"], "src": src(e)})]
        if e["t"] == "int":
            return [(st, {"v": "int", "n": int(e["v"]), "src": src(e)})]
        if e["t"] == "bool":
            return [(st, {"v": "bool", "b": e["v"], "src": src(e)})]
        return [(st, H("opaque", src(e)))]

    def ev_path(self, e, st):
        segs = e["segs"]
        if len(segs) == 1:
            n = segs[0]
            if n in st.env:
                return [(st, st.env[n])]
            if n == "self":
                fn0 = st.env.get("__fn")
                return [(st, {"v": "self", "ty": norm_ty(fn0.impl["self_ty"]) if fn0 is not None and getattr(fn0, "impl", None) is not None else None})]
            if n == "None":
                return [(st, {"v": "none"})]
            # a free function of the crate?  The one of the module the code is written in; else the one a `use .. [as n]` of that
            # module names (an import may rename: `use target_scheme::escape_template as escape_string`); else by its name
            fn0 = st.env.get("__fn")
            mod0 = tuple(getattr(fn0, "module", ()) or ())
            here_ = "::".join(mod0 + (n,))
            if here_ in self.f.fns and self.f.fns[here_].impl is None and not self.f.fns[here_].test:
                return [(st, {"v": "fn", "key": here_})]
            for u in self.f.uses.get(mod0, []):
                if u.get("glob") or (u.get("alias") or (u.get("path") or [None])[-1]) != n:
                    continue
                tail = [x for x in u["path"] if x not in ("crate", "self", "super")]
                if not tail:
                    continue
                hits = [key for key, fn in self.f.fns.items() if fn.impl is None and not fn.test and fn.name == tail[-1] and (key == "::".join(tail) or key.endswith("::" + "::".join(tail)) or "::".join(tail).endswith(key))]
                if len(hits) == 1:
                    return [(st, {"v": "fn", "key": hits[0]})]
                if tail[-1] != n and not hits:
                    # renamed import of something that is no function of the crate (an external item): not the crate's `n`
                    return [(st, H("name", n))]
            for key, fn in self.f.fns.items():
                if fn.impl is None and fn.name == n and not fn.test:
                    return [(st, {"v": "fn", "key": key})]
            # static / const: the one of the module the code is written in, else one imported there by `use`, else the only
            # one of that name
            cands = [(key, it) for key, it in list(self.f.statics.items()) + list(self.f.consts.items()) if key.split("::")[-1] == n and "@" not in key]
            if cands:
                fn0 = st.env.get("__fn")
                mod = tuple(getattr(fn0, "module", ()) or ())
                here = [c_ for c_ in cands if tuple(c_[0].split("::")[:-1]) == mod]
                if not here and len(cands) > 1:
                    used = [u for u in self.f.uses.get(mod, []) if not u.get("glob") and (u.get("alias") or (u.get("path") or [None])[-1]) == n]
                    here = [c_ for c_ in cands if any(tuple(c_[0].split("::")[-len(u["path"]) :]) == tuple(u["path"]) or c_[0].endswith("::".join(u["path"][-2:])) for u in used)]
                pick = (here or cands)[0]
                return self.ev(pick[1]["e"], st)
            return [(st, H("name", n))]
        full = "::".join(segs)
        if segs[-2] in BOOLLIKE and segs[-1] in BOOLLIKE[segs[-2]]:
            return [(st, {"v": "bool", "b": BOOLLIKE[segs[-2]][segs[-1]], "src": full})]
        fl = self.flag_const(segs)
        if fl is not None:
            return [(st, fl)]
        # associated / module constant: Type::NAME, Self::NAME, module::NAME
        tyname = segs[-2]
        if tyname == "Self":
            fn0 = st.env.get("__fn")
            tyname = norm_ty(fn0.impl["self_ty"]).split("<")[0] if fn0 is not None and fn0.impl is not None else tyname
        for ck, it in self.f.consts.items():
            parts = ck.split("::")
            if parts[-1] == segs[-1] and len(parts) >= 2 and parts[-2] == tyname and "@" not in ck:
                st2 = st.fork()
                st2.env = dict(st.env)
                return self.ev(it["e"], st)
        # Type::method as a function value (Size::byte_size)
        key = "%s::%s" % (segs[-2], segs[-1])
        if key in self.f.fns:
            return [(st, {"v": "fn", "key": key})]
        return [(st, H("path", full))]

    def flag_const(self, segs):
        """`Mode::S_IRWXU` / `SFlag::S_IFMT`: a constant of one of the crate's bitflags types, with its value"""
        if len(segs) < 2:
            return None
        if not hasattr(self, "_flagtys"):
            self._flagtys = {}
            consts = {}
            for k_, it in self.f.consts.items():
                if ".values" in k_ or "::values::" in k_:
                    v_ = rx.int_const(it["e"])
                    if v_ is not None:
                        consts[k_.split("::")[-1]] = v_
            for it in self.f.macro_items:
                if it.get("name") != "bitflags":
                    continue
                raw = re.sub(r'#\[doc="(?:[^"\\]|\\.)*"\]', "", it.get("raw", ""))
                m_ = re.search(r"pub struct (\w+):\w+\{(.*)\}\s*$", raw)
                if m_:
                    tab = {}
                    for x in m_.group(2).split(";"):
                        x = x.strip()
                        if not x:
                            continue
                        # `NAME;` (the crate's own wrapper macro: value = values::NAME) or `const NAME = path::TO::CONST;`
                        m2 = re.fullmatch(r"(?:const\s+)?(\w+)\s*(?:=\s*([\w:\s]+?))?(?:\s*as\s*\w+)?", x)
                        if not m2:
                            continue
                        src_name = (m2.group(2) or m2.group(1)).replace(" ", "").split("::")[-1]
                        tab[m2.group(1)] = consts.get(src_name)
                    self._flagtys[m_.group(1)] = tab
        ty, name = segs[-2], segs[-1]
        tab = self._flagtys.get(ty)
        if tab is not None and tab.get(name) is not None:
            return {"v": "flags", "ty": ty, "bits": tab[name], "src": "%s::%s" % (ty, name)}
        return None

    def ev_ref(self, e, st):
        if e.get("mut"):
            fp = self._self_path(e["e"], st)
            if fp is not None:
                # a mutable borrow of a piece of the manager's state handed to a helper: writes through it are writes to
                # the field
                return [(st, {"v": "fieldref", "field": fp})]
        return self.ev(e["e"], st)

    def _self_path(self, e, st):
        """dotted field path if `e` is self.a[.b..] (relative to the current self prefix), else None"""
        names = []
        while e.get("k") == "field":
            names.append(e["name"])
            e = e["e"]
        if names and not rx.is_var(e, "self"):
            # a local alias of a piece of the state: `let b = &mut self.bindings; b.var_index += 1`
            e0 = e
            while isinstance(e0, dict) and (e0.get("k") == "ref" or (e0.get("k") == "unary" and e0.get("op") == "*")):
                e0 = e0["e"]
            nm = rx.var_name(e0) if isinstance(e0, dict) else None
            v = st.env.get(nm) if nm and nm != "self" else None
            if isinstance(v, dict) and v.get("v") == "fieldref":
                return v["field"] + "." + ".".join(reversed(names))
            if isinstance(v, dict) and v.get("v") == "selfsub":
                return v["prefix"] + ".".join(reversed(names))
            return None
        if not names or not rx.is_var(e, "self"):
            return None
        return st.env.get("__selfprefix", "") + ".".join(reversed(names))

    def _field_value(self, path, st, node=None):
        ty = self._state_ty(path, st)
        if ty is not None:
            return {"v": "selfsub", "prefix": path + ".", "ty": ty}
        if path in st.fields:
            v = st.fields[path]
            return v if not isinstance(v, list) else {"v": "list", "items": v, "field": path, "open": True}
        return H("field", "self." + path, field=path)

    def _self_field_type(self, field, st):
        """Declared type of `self.FIELD` in the impl the current function belongs to (None when not a plain struct field)."""
        fn0 = st.env.get("__fn")
        if fn0 is None or getattr(fn0, "impl", None) is None or not field or "." in field:
            return None
        sd = self.f.structs.get(norm_ty(fn0.impl["self_ty"]).split("<")[0])
        if not sd:
            return None
        for fd in sd.get("fields", []):
            if fd.get("name") == field:
                return norm_ty(fd["ty"])
        return None

    def _state_ty(self, path, st):
        lay = st.env.get("__layout")
        if not lay:
            return None
        t = lay["paths"].get(path)
        if t is not None and any(q.startswith(path + ".") for q in lay["paths"]):
            return t
        return None

    def ev_unary(self, e, st):
        if e["op"] == "*":
            out = []
            for s1, v in self.ev(e["e"], st):
                out.append((s1, self._field_value(v["field"], s1) if isinstance(v, dict) and v.get("v") == "fieldref" else v))
            return out
        out = []
        for s1, v in self.ev(e["e"], st):
            if e["op"] == "!" and v.get("v") == "bool":
                out.append((s1, {"v": "bool", "b": not v["b"], "src": src(e)}))
            else:
                out.append((s1, H("expr", src(e), op=e["op"], operands=[v])))
        return out

    def ev_cast(self, e, st):
        out = []
        for s1, v in self.ev(e["e"], st):
            out.append((s1, H("cast", src(e), operands=[v], to=e["ty"])))
        return out

    def ev_binary(self, e, st):
        if e["op"] in ("+=", "-=", "*=", "|=", "&="):
            inner = dict(e, op=e["op"][0])
            return self.ev_assign({"k": "assign", "l": e["l"], "lhs": e["lhs"], "rhs": inner}, st)
        out = []
        for s1, a in self.ev(e["lhs"], st):
            for s2, b in self.ev(e["rhs"], s1):
                if e["op"] in ("+", "-") and a.get("v") == "affine" and b.get("v") == "int":
                    out.append((s2, {"v": "affine", "base": a["base"], "off": a["off"] + (b["n"] if e["op"] == "+" else -b["n"]), "src": src(e)}))
                elif a.get("v") == "int" and b.get("v") == "int" and e["op"] in ("+", "-", "*"):
                    n = {"+": a["n"] + b["n"], "-": a["n"] - b["n"], "*": a["n"] * b["n"]}[e["op"]]
                    out.append((s2, {"v": "int", "n": n, "src": src(e)}))
                elif a.get("v") == "int" and b.get("v") == "int" and (e["op"] in ("|", "&", "^") or (e["op"] in ("<<", ">>") and 0 <= b["n"] < 128) or (e["op"] in ("/", "%") and b["n"] > 0 and a["n"] >= 0)):
                    # constant expressions: rustc rejects an overflowing or out-of-range constant operation at compile time
                    x, y = a["n"], b["n"]
                    n = {"|": x | y, "&": x & y, "^": x ^ y, "<<": x << y, ">>": x >> y, "/": x // y, "%": x % y}[e["op"]]
                    out.append((s2, {"v": "int", "n": n, "src": src(e)}))
                elif e["op"] == "+" and is_str(a) and (is_str(b) or b.get("v") == "hole"):
                    # String + &str: the texts one after the other
                    out.append((s2, S(list(a["parts"]) + (list(b["parts"]) if is_str(b) else [("h", b)]))))
                elif a.get("v") == "flags" and b.get("v") == "flags" and a["ty"] == b["ty"] and e["op"] in ("|", "&", "^", "-"):
                    n = {"|": a["bits"] | b["bits"], "&": a["bits"] & b["bits"], "^": a["bits"] ^ b["bits"], "-": a["bits"] & ~b["bits"]}[e["op"]]
                    out.append((s2, {"v": "flags", "ty": a["ty"], "bits": n, "src": src(e)}))
                elif e["op"] in ("|", "||") and a.get("kind") == "contains_any" and b.get("kind") == "contains_any" and canon(a["recv"]) == canon(b["recv"]):
                    # s.contains(x) | s.contains(y)  ≡  s.contains([x, y])
                    out.append((s2, H("contains_any", src(e), recv=a["recv"], chars="".join(sorted(set(a["chars"]) | set(b["chars"]))))))
                else:
                    out.append((s2, H("expr", src(e), op=e["op"], operands=[a, b])))
        return out

    def ev_field(self, e, st):
        base = e["e"]
        if rx.is_var(base, "self") and not (isinstance(st.env.get("self"), dict) and st.env["self"].get("v") in ("struct", "hole", "tuple")):
            name = st.env.get("__selfprefix", "") + e["name"]
            return [(st, self._field_value(name, st))]
        out = []
        for s1, v in self.ev(base, st):
            if v.get("v") == "fieldref":
                v = self._field_value(v["field"], s1)
            if v.get("v") == "selfsub":
                out.append((s1, self._field_value(v["prefix"] + e["name"], s1)))
                continue
            if v.get("v") == "struct" and e["name"] in v["fields"]:
                out.append((s1, v["fields"][e["name"]]))
            elif v.get("v") == "tuple" and e["name"].isdigit() and int(e["name"]) < len(v["xs"]):
                out.append((s1, v["xs"][int(e["name"])]))
            elif v.get("v") == "hole" and v.get("kind") == "call" and e["name"].isdigit() and isinstance(v.get("callee"), str) and v["callee"].split("::")[-1] in self.f.structs and self.f.structs[v["callee"].split("::")[-1]].get("tuple") and int(e["name"]) < len(v.get("args") or []):
                # a tuple struct built a few lines above: `Newtype(x).0` is x
                out.append((s1, v["args"][int(e["name"])]))
            else:
                out.append((s1, H("proj", src(e), of=v, field=e["name"], ty=self._field_ty(v, e["name"]))))
        return out

    def _field_ty(self, v, name):
        ty = v.get("ty") if isinstance(v, dict) else None
        if ty and ty in self.f.structs:
            stt = self.f.structs[ty]
            for i, fd in enumerate(stt["fields"]):
                if fd["name"] == name or str(i) == name:
                    return norm_ty(fd["ty"])
        return None

    def ev_tuple(self, e, st):
        outs = [(st, [])]
        for x in e["elems"]:
            nxt = []
            for s1, acc in outs:
                for s2, v in self.ev(x, s1):
                    nxt.append((s2, acc + [v]))
            outs = nxt
        return [(s1, {"v": "tuple", "xs": xs, "src": src(e)}) for s1, xs in outs]

    def ev_struct(self, e, st):
        outs = [(st, {})]
        for f in e["fields"]:
            nxt = []
            for s1, acc in outs:
                for s2, v in self.ev(f["e"], s1):
                    d = dict(acc)
                    d[f["name"]] = v
                    nxt.append((s2, d))
            outs = nxt
        return [(s1, {"v": "struct", "name": e["segs"][-1], "fields": d, "src": src(e)}) for s1, d in outs]

    def ev_closure(self, e, st):
        return [(st, {"v": "closure", "node": e, "env": dict(st.env)})]

    def ev_block(self, e, st):
        return self.exec_block(e["stmts"], st)

    def ev_try(self, e, st):
        out = []
        for s1, v in self.ev(e["e"], st):
            if v.get("v") == "err":
                s1.ret = v
                out.append((s1, {"v": "never"}))
            elif v.get("v") == "ok":
                out.append((s1, v["x"]))
            elif v.get("v") == "sub":
                # child.compile(..)? : records the sub-emission; the error path is the child's
                out.append((s1, {"v": "unit"}))
            else:
                out.append((s1, v))
        return out

    def ev_continue(self, e, st):
        st.ret = {"v": "loopctl", "kind": "continue"}
        return [(st, {"v": "never"})]

    def ev_break(self, e, st):
        st.ret = {"v": "loopctl", "kind": "break"}
        return [(st, {"v": "never"})]

    def ev_return(self, e, st):
        out = []
        for s1, v in self.ev(e["e"], st) if e["e"] is not None else [(st, {"v": "unit"})]:
            s1.ret = v
            out.append((s1, {"v": "never"}))
        return out

    def ev_if(self, e, st, keep_bindings=False):
        cond = e["cond"]
        out = []
        if cond["k"] == "letexpr":
            # if let PAT = EXPR
            for s1, v in self.ev(cond["e"], st):
                ol = option_label(self.pat_label(cond["pat"]), set()) if isinstance(v, dict) and v.get("v") == "hole" else None
                if ol is not None:
                    a = s1.fork()
                    a.conds = a.conds + ((canon(v), ol),)
                    self.bind_pattern(cond["pat"], v, a)
                    out += self.ev(e["then"], a)
                    b = s1.fork()
                    b.conds = b.conds + ((canon(v), "None" if ol == "Some" else "Some"),)
                    out += self.ev(e["else"], b) if e["else"] is not None else [(b, {"v": "unit"})]
                    continue
                if isinstance(v, dict) and v.get("v") in ("some", "none") and option_label(self.pat_label(cond["pat"]), set()) is not None:
                    hit = (v["v"] == "some") == (option_label(self.pat_label(cond["pat"]), set()) == "Some")
                    if hit:
                        a = s1.fork()
                        self.bind_pattern(cond["pat"], v, a)
                        out += self.ev(e["then"], a)
                    else:
                        out += self.ev(e["else"], s1) if e["else"] is not None else [(s1, {"v": "unit"})]
                    continue
                lab_ = self.pat_label(self.norm_pat(cond["pat"], v))
                if isinstance(v, dict) and v.get("v") == "hole" and lab_ and all(isinstance(x_, str) and "::" in x_ and "(" not in x_ for x_ in lab_):
                    # `if let Enum::V(x) = e { A } else { B }` is `match e { Enum::V(x) => A, _ => B }`
                    pat_ = self.norm_pat(cond["pat"], v)
                    a = s1.fork()
                    a.conds = a.conds + ((canon(v), lab_),)
                    self.bind_pattern(pat_, v, a)
                    out += self.ev(e["then"], a)
                    b = s1.fork()
                    b.conds = b.conds + ((canon(v), ("_",)),)
                    out += self.ev(e["else"], b) if e["else"] is not None else [(b, {"v": "unit"})]
                    continue
                a = s1.fork()
                a.conds = a.conds + ((canon(v), "matches " + self.pat_canon(cond["pat"])),)
                self.bind_pattern(cond["pat"], v if v.get("v") != "hole" else H("matched", src(cond["e"]), of=v), a)
                out += self.ev(e["then"], a)
                b = s1.fork()
                b.conds = b.conds + ((canon(v), "no match " + self.pat_canon(cond["pat"])),)
                out += self.ev(e["else"], b) if e["else"] is not None else [(b, {"v": "unit"})]
            return out
        # `if !c {A} else {B}` is `if c {B} else {A}`: conditions are recorded in positive form
        then_, else_ = e["then"], e["else"]
        while cond["k"] == "unary" and cond["op"] == "!":
            cond = cond["e"]
            then_, else_ = else_, then_
        while cond["k"] == "paren":
            cond = cond["e"]

        def run(br, s_):
            return self.ev(br, s_) if br is not None else [(s_, {"v": "unit"})]

        for s1, cv in self.ev(cond, st):
            if cv.get("v") == "bool":
                out += run(then_ if cv["b"] else else_, s1)
                continue
            # `x == 'c'` is the one-literal match on x: same condition names as `match x {'c' => .., _ => ..}`
            if cv.get("v") == "hole" and cv.get("kind") == "expr" and cv.get("op") in ("==", "!=") and len(cv.get("operands", [])) == 2:
                l_, r_ = cv["operands"]
                if l_.get("v") in ("char", "int") and r_.get("v") == "hole":
                    l_, r_ = r_, l_
                if l_.get("v") == "hole" and r_.get("v") in ("char", "int"):
                    lit = repr(r_["c"]) if r_["v"] == "char" else repr(r_["n"])
                    yes, no = (then_, else_) if cv["op"] == "==" else (else_, then_)
                    subj = canon(l_)
                    # the same test met again on the path (values are immutable: same canonical form, same value)
                    if (subj, (lit,)) in s1.conds:
                        out += run(yes, s1)
                        continue
                    if (subj, lit) in s1.env.get("__neq", ()):
                        out += run(no, s1)
                        continue
                    a = s1.fork()
                    a.conds = a.conds + ((subj, (lit,)),)
                    out += run(yes, a)
                    b = s1.fork()
                    b.conds = b.conds + ((subj, ("_",)),)
                    b.env["__neq"] = tuple(b.env.get("__neq", ())) + ((subj, lit),)
                    out += run(no, b)
                    continue
            # Option tests: `o.is_none()`, `o.is_some()`, `map.contains_key(k)` are the Some/None cases of `o` / `map.get(k)`
            opt, some_branch, none_branch = None, None, None
            if cv.get("v") == "hole" and cv.get("kind") == "mcall" and cv.get("method") in ("is_none", "is_some") and not cv.get("args") and isinstance(cv.get("recv"), dict) and cv["recv"].get("v") == "hole":
                opt = cv["recv"]
                some_branch, none_branch = (then_, else_) if cv["method"] == "is_some" else (else_, then_)
            elif cv.get("v") == "hole" and cv.get("kind") == "lookup" and cv.get("method") == "contains_key":
                opt = dict(cv, method="get")
                some_branch, none_branch = then_, else_
            if opt is not None:
                a = s1.fork()
                a.conds = a.conds + ((canon(opt), "Some"),)
                out += run(some_branch, a)
                b = s1.fork()
                b.conds = b.conds + ((canon(opt), "None"),)
                out += run(none_branch, b)
                continue
            if (canon(cv), True) in s1.conds:
                out += run(then_, s1)
                continue
            if (canon(cv), False) in s1.conds:
                out += run(else_, s1)
                continue
            a = s1.fork()
            a.conds = a.conds + ((canon(cv), True),)
            out += run(then_, a)
            b = s1.fork()
            b.conds = b.conds + ((canon(cv), False),)
            out += run(else_, b)
        return out

    def norm_pat(self, p, sv):
        """Variant names imported into scope (`use Enum::{A, B}`) are written without their enum: a pattern name that is a
        variant of the scrutinee's enum type is read as `Enum::Name`."""
        ty = None
        if isinstance(sv, dict):
            ty = re.sub(r"^(&|mut\s*)+", "", (sv.get("ty") or "").strip())
            m0 = re.fullmatch(r"(?:Rc|Box|Arc)<(.*)>", ty)
            ty = (m0.group(1) if m0 else ty).split("::")[-1].split("<")[0]
        if not ty or ty not in self.f.enums:
            return p
        vs = set(self.f.variants(ty))

        def w(q):
            k = q["k"]
            if k in ("ref", "typed"):
                return dict(q, pat=w(q["pat"]))
            if k == "or":
                return dict(q, cases=[w(c) for c in q["cases"]])
            if k == "ident" and q.get("sub") is None and q["name"] in vs:
                return {"k": "path", "l": q.get("l"), "segs": [ty, q["name"]], "gen": [None, None], "qself": None}
            if k in ("tstruct", "struct", "path") and len(q.get("segs", [])) == 1 and q["segs"][0] in vs:
                return dict(q, segs=[ty, q["segs"][0]])
            return q

        return w(p)

    def _nest_literal_payloads(self, arms):
        """`V('@') => A, V(f) => B`  ≡  `V(p) => match p { '@' => A, f => B }`: arms of one single-payload variant that differ
        in a literal on the payload are read as a nested match on the payload (the spelling the tables are frozen in)."""
        out, i = [], 0
        while i < len(arms):
            a = arms[i]
            p = a["pat"]
            while p["k"] in ("ref", "typed"):
                p = p["pat"]

            def lit_payload(q):
                while q["k"] in ("ref", "typed"):
                    q = q["pat"]
                return q["k"] == "tstruct" and len(q["elems"]) == 1 and q["elems"][0]["k"] == "lit"

            if lit_payload(p) and a.get("guard") is None:
                group, j = [a], i + 1
                while j < len(arms):
                    q = arms[j]["pat"]
                    while q["k"] in ("ref", "typed"):
                        q = q["pat"]
                    if q["k"] == "tstruct" and q["segs"] == p["segs"] and len(q["elems"]) == 1 and arms[j].get("guard") is None:
                        group.append(arms[j])
                        j += 1
                        if rx.is_catchall(q["elems"][0]):
                            break
                    else:
                        break
                last = group[-1]["pat"]
                while last["k"] in ("ref", "typed"):
                    last = last["pat"]
                if len(group) >= 2 and rx.is_catchall(last["elems"][0]):
                    var = "__payload%d" % i
                    inner = []
                    for g_ in group:
                        gp = g_["pat"]
                        while gp["k"] in ("ref", "typed"):
                            gp = gp["pat"]
                        inner.append(dict(g_, pat=gp["elems"][0]))
                    scr = {"k": "path", "l": a.get("l"), "segs": [var], "gen": [[]], "qself": None, "global": False}
                    body = {"k": "match", "l": a.get("l"), "scrut": scr, "arms": inner}
                    newpat = dict(p, elems=[{"k": "ident", "l": a.get("l"), "name": var, "by_ref": False, "mut": False, "sub": None}])
                    out.append(dict(a, pat=newpat, body=body))
                    i = j
                    continue
            out.append(a)
            i += 1
        return out

    def ev_match(self, e, st):
        out = []
        e = dict(e, arms=self._nest_literal_payloads(e["arms"]))
        for s1, sv in self.ev(e["scrut"], st):
            e = dict(e, arms=[dict(a_, pat=self.norm_pat(a_["pat"], sv)) for a_ in e["arms"]])
            # literal scrutinee: select statically when possible
            remaining = None  # variants not yet taken by an earlier arm (for the catch-all)
            # a match on a tuple of values is a conjunction of conditions on the components (so that
            # `match (a, b) { (true, false) => .. }` and `if a { if !b { .. } }` name their paths alike)
            if isinstance(sv, dict) and sv.get("v") == "tuple" and all(self._tuple_arm(arm["pat"], len(sv["xs"])) for arm in e["arms"]):
                for arm in e["arms"]:
                    a = s1.fork()
                    pat = arm["pat"]
                    while pat["k"] in ("ref", "typed"):
                        pat = pat["pat"]
                    feasible = True
                    if pat["k"] == "tuple":
                        for x, pe_ in zip(sv["xs"], pat["elems"]):
                            q = pe_
                            while q["k"] in ("ref", "typed"):
                                q = q["pat"]
                            if rx.is_catchall(q):
                                if q["k"] == "ident":
                                    a.env[q["name"]] = x
                                continue
                            lab = self.pat_label(q)
                            if x.get("v") in ("bool", "char", "int"):
                                have = {"bool": lambda: repr(x["b"]), "char": lambda: repr(x["c"]), "int": lambda: repr(x["n"])}[x["v"]]()
                                if have not in lab:
                                    feasible = False
                                    break
                                continue
                            if len(lab) == 1 and lab[0] in ("True", "False"):
                                cnd = (canon(x), lab[0] == "True")
                            else:
                                ol = option_label(lab, set()) if x.get("v") == "hole" else None
                                cnd = (canon(x), ol) if ol is not None else (canon(x), lab)
                            # contradiction with an earlier condition on the same subject: infeasible arm
                            if any(c0[0] == cnd[0] and c0[1] != cnd[1] and not isinstance(c0[1], tuple) and not isinstance(cnd[1], tuple) for c0 in a.conds):
                                feasible = False
                                break
                            a.conds = a.conds + (cnd,)
                            self.bind_pattern(q, x, a)
                    elif pat["k"] == "ident":
                        a.env[pat["name"]] = sv
                    if not feasible:
                        continue
                    if arm["guard"] is not None:
                        gv = self.ev(arm["guard"], a.fork())
                        a.conds = a.conds + ((canon(gv[0][1]) if len(gv) == 1 else src(arm["guard"]), True),)
                    out += self.ev(arm["body"], a)
                continue
            def _slice_pat(pt):
                while pt["k"] in ("ref", "typed"):
                    pt = pt["pat"]
                return pt if pt["k"] == "slice" else None

            if isinstance(sv, dict) and sv.get("v") in ("mapped", "hole", "self") and any(_slice_pat(a_["pat"]) is not None for a_ in e["arms"]) and all(_slice_pat(a_["pat"]) is not None or rx.is_catchall(a_["pat"]) for a_ in e["arms"]):
                lenv = H("len", src(e["scrut"]), of=sv)
                okay = True
                arms_out = []
                for arm in e["arms"]:
                    sp = _slice_pat(arm["pat"])
                    a = s1.fork()
                    if sp is None:
                        a.conds = a.conds + ((canon(lenv), ("_",)),)
                        self.bind_pattern(arm["pat"], sv, a)
                    else:
                        if any(x["k"] == "rest" or (x["k"] == "ident" and x.get("sub") and x["sub"]["k"] == "rest") for x in sp["elems"]):
                            okay = False
                            break
                        n_ = len(sp["elems"])
                        a.conds = a.conds + ((canon(lenv), (repr(n_),)),)
                        for i_, pe_ in enumerate(sp["elems"]):
                            which = "first" if i_ == 0 else ("last" if i_ == n_ - 1 else "nth%d" % i_)
                            self.bind_pattern(pe_, H("elem-of-mapped", src(e["scrut"]), mapped=sv, which=which), a)
                    if arm["guard"] is not None:
                        okay = False
                        break
                    arms_out.append((arm, a))
                if okay:
                    for arm, a in arms_out:
                        out += self.ev(arm["body"], a)
                    continue
            ev_ = self.as_enumval(sv)
            if ev_ is not None:
                # a value constructed a few lines above: the arm is selected statically, payloads are the arguments
                chosen = None
                for arm in e["arms"]:
                    for pc in rx.pat_cases(arm["pat"]):
                        q = pc
                        while q["k"] in ("ref", "typed"):
                            q = q["pat"]
                        pv = rx.pat_variant(q)
                        if pv and pv[0].split("::")[-1] == ev_[1] and (len(pv[0].split("::")) < 2 or pv[0].split("::")[-2] in (ev_[0], "Self")) and arm["guard"] is None:
                            chosen = (arm, q)
                            break
                        if rx.is_catchall(q) and arm["guard"] is None:
                            chosen = (arm, q)
                            break
                    if chosen:
                        break
                if chosen is not None:
                    arm, q = chosen
                    a = s1.fork()
                    if q["k"] == "tstruct" and len(q["elems"]) == len(ev_[2]):
                        for pe_, x in zip(q["elems"], ev_[2]):
                            self.bind_pattern(pe_, x, a)
                    elif q["k"] == "ident":
                        a.env[q["name"]] = sv
                    out += self.ev(arm["body"], a)
                    continue
            if isinstance(sv, dict) and sv.get("v") == "entry":
                okay = True
                arms_out = []
                for arm in e["arms"]:
                    pt = arm["pat"]
                    while pt["k"] in ("ref", "typed"):
                        pt = pt["pat"]
                    if pt["k"] != "tstruct" or pt["segs"][-1] not in ("Occupied", "Vacant") or len(pt["elems"]) != 1 or arm["guard"] is not None:
                        okay = False
                        break
                    occ = pt["segs"][-1] == "Occupied"
                    if sv["known"] is not None and not occ:
                        continue
                    a = s1.fork()
                    if sv["known"] is None:
                        a.conds = a.conds + ((canon(sv["lookup"]), "Some" if occ else "None"),)
                    val = sv["known"] if sv["known"] is not None else some_of(sv["lookup"])
                    self.bind_pattern(pt["elems"][0], {"v": "occupied", "entry": sv, "val": val} if occ else {"v": "vacant", "entry": sv}, a)
                    arms_out.append((arm, a))
                if okay:
                    for arm, a in arms_out:
                        out += self.ev(arm["body"], a)
                    continue
            if isinstance(sv, dict) and (sv.get("v") in ("ok", "err") or (sv.get("v") in ("some", "none") and any(self._nested_ctor(a_["pat"]) for a_ in e["arms"]))):
                # a value whose constructors are known is matched statically, through nested patterns
                chosen, undecided = None, False
                for arm in e["arms"]:
                    r = self.static_match(arm["pat"], sv)
                    if r is False:
                        continue
                    if r is True and arm["guard"] is None:
                        chosen = arm
                    else:
                        undecided = True
                    break
                if chosen is not None and not undecided:
                    a = s1.fork()
                    self.static_bind(chosen["pat"], sv, a)
                    out += self.ev(chosen["body"], a)
                    continue
            if isinstance(sv, dict) and sv.get("v") in ("some", "none"):
                taken = False
                for arm in e["arms"]:
                    lab = self.pat_label(arm["pat"])
                    ol = option_label(lab, set())
                    hit = (ol == "Some" and sv["v"] == "some") or (ol == "None" and sv["v"] == "none") or (ol is None and len(lab) == 1 and lab[0] == "_")
                    if not hit:
                        continue
                    a = s1.fork()
                    self.bind_pattern(arm["pat"], sv, a)
                    if arm["guard"] is not None:
                        gv = self.ev(arm["guard"], a.fork())
                        if len(gv) == 1 and gv[0][1].get("v") == "bool":
                            if not gv[0][1]["b"]:
                                continue
                        else:
                            a.conds = a.conds + ((canon(gv[0][1]) if len(gv) == 1 else src(arm["guard"]), True),)
                    out += self.ev(arm["body"], a)
                    taken = True
                    break
                if taken:
                    continue
            is_opt = isinstance(sv, dict) and sv.get("v") == "hole" and any(self.pat_label(a_["pat"])[0] in ("None",) or str(self.pat_label(a_["pat"])[0]).startswith("Some(") for a_ in e["arms"] if len(self.pat_label(a_["pat"])) == 1)
            seen_opt = set()
            for arm in e["arms"]:
                a = s1.fork()
                lab = self.pat_label(arm["pat"])
                scr = canon(sv)
                if is_opt and arm["guard"] is None:
                    ol = option_label(lab, seen_opt)
                    if ol is not None:
                        seen_opt.add(ol)
                        a.conds = a.conds + ((scr, ol),)
                        self.bind_pattern(arm["pat"], sv, a)
                        out += self.ev(arm["body"], a)
                        continue
                # path feasibility: an earlier condition on the same scrutinee restricts the variants that can occur here
                prior = [c[1] for c in s1.conds if c[0] == scr and isinstance(c[1], tuple)]
                if prior and all(isinstance(x, str) and "::" in x for x in lab):
                    allowed = set(prior[-1])
                    if all(isinstance(x, str) and "::" in x for x in allowed):
                        narrowed = tuple(x for x in lab if x in allowed)
                        if not narrowed:
                            continue
                        lab = narrowed
                a.conds = a.conds + ((scr, lab) + ((("attrs",) + tuple(arm["attrs"])) if arm.get("attrs") else ()),)
                self.bind_pattern(arm["pat"], sv if isinstance(sv, dict) else H("opaque", "?"), a)
                if arm["guard"] is not None:
                    gv = self.ev(arm["guard"], a.fork())
                    a.conds = a.conds + ((canon(gv[0][1]) if len(gv) == 1 else src(arm["guard"]), True),)
                out += self.ev(arm["body"], a)
        return out

    def _tuple_arm(self, pat, n):
        while pat["k"] in ("ref", "typed"):
            pat = pat["pat"]
        if pat["k"] == "tuple":
            return len(pat["elems"]) == n and not any(x["k"] == "rest" for x in pat["elems"])
        return rx.is_catchall(pat)

    def ev_assign(self, e, st):
        out = []
        for s1, v in self.ev(e["rhs"], st):
            lhs = e["lhs"]
            fp = self._self_path(lhs, s1) if lhs["k"] == "field" else None
            if fp is None and lhs["k"] == "unary" and lhs["op"] == "*":
                tgt = [x for _, x in self.ev(lhs["e"], s1.fork())]
                if len(tgt) == 1 and isinstance(tgt[0], dict) and tgt[0].get("v") == "fieldref":
                    fp = tgt[0]["field"]
            if fp is not None:
                s1.fields[fp] = v
                s1.effects.append(("assign", fp, v))
            elif lhs["k"] == "path" and len(lhs["segs"]) == 1:
                s1.env[lhs["segs"][0]] = v
            else:
                s1.unknown.append(src(e)[:120])
            out.append((s1, {"v": "unit"}))
        return out

    def ev_macro(self, e, st):
        name = e["name"]
        if "expanded" in e:
            return self.ev(e["expanded"], st)
        if name in ("format", "format_args") and e.get("args"):
            return self.ev_format(e, st)
        if name in ("write", "writeln") and len(e.get("args") or []) >= 2:
            # write!(target, fmt, args..)  ≡  target.push_str(&format!(fmt, args..))  (Write for String cannot fail)
            tgt, rest = e["args"][0], e["args"][1:]
            fmt = dict(e, name="format", args=rest)
            if name == "writeln":
                fmt = dict(fmt, newline=True)
            push = {"k": "mcall", "l": e.get("l"), "recv": tgt, "m": "push_str", "targs": [], "args": [fmt]}
            out = []
            for s1, _ in self.ev(push, st):
                if name == "writeln":
                    for s2, _2 in self.ev({"k": "mcall", "l": e.get("l"), "recv": tgt, "m": "push", "targs": [], "args": [{"k": "lit", "l": e.get("l"), "t": "char", "v": "\n"}]}, s1):
                        out.append((s2, {"v": "okunit"}))
                else:
                    out.append((s1, {"v": "okunit"}))
            return out
        if name == "vec":
            outs = [(st, [])]
            for x in e.get("args", []):
                nxt = []
                for s1, acc in outs:
                    for s2, v in self.ev(x, s1):
                        nxt.append((s2, acc + [v]))
                outs = nxt
            return [(s1, {"v": "list", "items": xs}) for s1, xs in outs]
        if name in ("unreachable", "todo", "unimplemented", "panic"):
            st.ret = {"v": "panic", "macro": name}
            return [(st, {"v": "never"})]
        if name in ("debug", "warn", "error", "info", "trace"):
            return [(st, {"v": "unit"})]
        if name == "matches":
            return [(st, H("cond", src(e)))]
        st.unknown.append(src(e)[:120])
        return [(st, H("opaque", src(e)))]

    def ev_format(self, e, st):
        args = e["args"]
        f0 = args[0]
        if not (f0["k"] == "lit" and f0["t"] == "str"):
            st.unknown.append(src(e)[:120])
            return [(st, H("opaque", src(e)))]
        segs = parse_fmt(f0["v"])
        pos = [a for a in args[1:] if a["k"] != "assign"]
        named = {rx.var_name(a["lhs"]): a["rhs"] for a in args[1:] if a["k"] == "assign"}
        outs = [(st, [])]
        nexti = 0
        for sg in segs:
            if sg[0] == "c":
                outs = [(s1, acc + [C(sg[1])]) for s1, acc in outs]
                continue
            _, key, spec = sg
            if key is None:
                ex = pos[nexti] if nexti < len(pos) else None
                nexti += 1
            elif isinstance(key, int):
                ex = pos[key] if key < len(pos) else None
            else:
                ex = named.get(key) or {"k": "path", "segs": [key], "gen": [[]], "qself": None, "l": e["l"]}
            nxt = []
            for s1, acc in outs:
                for s2, v in self.ev(ex, s1) if ex is not None else [(s1, H("opaque", "missing-arg"))]:
                    dt_ = self.display_text(v, s2) if not spec else None
                    if dt_ is not None:
                        nxt += [(s3, acc + parts_) for s3, parts_ in dt_]
                    elif "?" in spec:
                        nxt.append((s2, acc + [("h", H("debug", src(ex), of=v, spec=spec))]))
                    elif is_str(v) and not spec:
                        nxt.append((s2, acc + v["parts"]))
                    elif isinstance(v, dict) and v.get("v") == "int" and not spec:
                        nxt.append((s2, acc + [C(str(v["n"]))]))
                    elif isinstance(v, dict) and v.get("v") == "char" and isinstance(v.get("c"), str) and not spec:
                        nxt.append((s2, acc + [C(v["c"])]))  # a character constant formatted with {} is that character
                    else:
                        vv = dict(v) if isinstance(v, dict) else H("opaque", str(v))
                        vv["spec"] = spec
                        vv.setdefault("src", src(ex))
                        nxt.append((s2, acc + [("h", vv)]))
            outs = nxt
        return [(s1, S(parts)) for s1, parts in outs]

    def ev_index(self, e, st):
        """`TABLE[i]` on a table whose rows are known (a const array, an array literal): the row is selected by the index;
        an index computed from a condition (`usize::from(flag)`, `flag as usize`) splits the path on that condition."""
        out = []
        for s1, base in self.ev(e["e"], st):
            if isinstance(base, dict) and base.get("v") == "fieldref":
                base = self._field_value(base["field"], s1)
            if isinstance(base, dict) and base.get("v") == "hole" and base.get("kind") == "field" and re.match(r"(std::collections::)?(Hash|BTree)Map<", norm_ty(((s1.env.get("__layout") or {}).get("paths") or {}).get(base.get("field")) or "")):
                # `map[&k]` is `*map.get(&k).unwrap()` (Index for maps panics on a missing key)
                get = {"k": "mcall", "l": e.get("l"), "recv": e["e"], "m": "get", "targs": [], "args": [e["idx"]]}
                out += self.ev({"k": "mcall", "l": e.get("l"), "recv": get, "m": "unwrap", "targs": [], "args": []}, s1)
                continue
            if isinstance(base, dict) and base.get("v") == "mapped" and rx.int_const(e["idx"]) == 0:
                # `xs[0]` of a collection built element by element: its first element
                out.append((s1, H("elem-of-mapped", src(e), mapped=base, which="first")))
                continue
            if not (isinstance(base, dict) and base.get("v") == "list" and not base.get("open") and not base.get("field")):
                out.append((s1, H("opaque", src(e))))
                continue
            for s2, iv in self.ev(e["idx"], s1):
                cond = None
                if isinstance(iv, dict) and iv.get("v") == "int":
                    n = iv["n"]
                    out.append((s2, base["items"][n]) if 0 <= n < len(base["items"]) else (s2, H("opaque", src(e))))
                    continue
                if isinstance(iv, dict) and iv.get("v") == "hole" and iv.get("kind") == "call" and str(iv.get("callee")).split("::")[-1] == "from" and str(iv.get("callee")).split("::")[0] in ("usize", "u8", "u32", "u64") and len(iv.get("args") or []) == 1:
                    cond = iv["args"][0]
                elif isinstance(iv, dict) and iv.get("v") == "hole" and iv.get("kind") == "cast" and len(iv.get("operands") or []) == 1:
                    cond = iv["operands"][0]
                if cond is None or len(base["items"]) != 2:
                    out.append((s2, H("opaque", src(e))))
                    continue
                if isinstance(cond, dict) and cond.get("v") == "bool":
                    out.append((s2, base["items"][1 if cond["b"] else 0]))
                    continue
                for val in (False, True):
                    prior = [c0[1] for c0 in s2.conds if c0[0] == canon(cond) and isinstance(c0[1], bool)]
                    if prior and prior[-1] != val:
                        continue
                    a = s2.fork()
                    if not prior:
                        a.conds = a.conds + ((canon(cond), val),)
                    out.append((a, base["items"][1 if val else 0]))
        return out

    def ev_paren(self, e, st):
        return self.ev(e["e"], st)

    def ev_array(self, e, st):
        outs = [(st, [])]
        for x in e["elems"]:
            nxt = []
            for s1, acc in outs:
                for s2, v in self.ev(x, s1):
                    nxt.append((s2, acc + [v]))
            outs = nxt
        return [(s1, {"v": "list", "items": xs}) for s1, xs in outs]

    def ev_for(self, e, st):
        """`for PAT in ITER { BODY }`.  A list whose elements are all known (array / vec literal, tuple of arguments) is
        unrolled.  For a symbolic collection the body is run once on a symbolic element; what each path of the body
        *appends* to strings, lists and local maps is recorded as the per-element contribution, exactly like
        `iter().map(..)`; anything else a body does to the enclosing state cannot be summarised and is reported."""
        out = []
        idx = None
        it_e = e["iter"]
        pt_ = e["pat"]
        while pt_["k"] in ("typed", "paren"):
            pt_ = pt_["pat"]
        if it_e.get("k") == "mcall" and it_e["m"] == "enumerate" and not it_e["args"] and pt_["k"] == "tuple" and len(pt_["elems"]) == 2 and pt_["elems"][0]["k"] in ("ident", "wild"):
            # `for (i, x) in ITER.enumerate()`: the loop over ITER with the position of the element at hand
            idx = pt_["elems"][0].get("name") or "_"
            e = dict(e, iter=it_e["recv"], pat=pt_["elems"][1], enum_iter=it_e)
        for s1, it in self.ev(e["iter"], st):
            if isinstance(it, dict) and it.get("v") == "fieldref":
                it = self._field_value(it["field"], s1)
            if isinstance(it, dict) and it.get("v") == "list" and not it.get("open") and not it.get("field"):
                states = [s1]
                for i_, item in enumerate(it["items"]):
                    nxt = []
                    for s2 in states:
                        if s2.ret is not None:
                            nxt.append(s2)
                            continue
                        if getattr(s2, "_broke", False):
                            nxt.append(s2)
                            continue
                        a = s2.fork()
                        self.bind_pattern(e["pat"], item, a)
                        if idx is not None:
                            a.env[idx] = {"v": "int", "n": i_, "src": idx}
                        for s3, _ in self.ev(e["body"], a):
                            if isinstance(s3.ret, dict) and s3.ret.get("v") == "loopctl":
                                kind = s3.ret["kind"]
                                s3.ret = None
                                if kind == "break":
                                    s3.unknown.append("break inside an unrolled loop")
                            nxt.append(s3)
                    states = nxt
                out += [(s2, {"v": "unit"}) for s2 in states]
                continue
            out += self._for_symbolic(e, s1, it, idx)
        return out

    def _for_symbolic(self, e, st, coll, idx=None):
        elem = H("elem", "element of " + ((coll.get("src") if isinstance(coll, dict) else None) or "collection"), of=coll, ty=self._elem_ty(coll) if isinstance(coll, dict) else None)
        if isinstance(coll, dict) and coll.get("v") == "hole" and coll.get("kind") == "payload":
            elem = H("payload", (coll.get("src") or "") + "[]", enum=None, ty=self._elem_ty(coll), of=coll.get("src"), elem_of=coll)
        if isinstance(coll, dict) and coll.get("v") == "self":
            fn0 = st.env.get("__fn")
            sty = norm_ty(fn0.impl["self_ty"]) if fn0 is not None and fn0.impl is not None else ""
            m2 = re.match(r"Vec<(.*)>$", sty)
            elem = H("payload", "self[]", enum=None, ty=m2.group(1) if m2 else None, of="self", elem_of=coll)
        # a record value the body changes field by field (`call.template.push_str(..)`, `acc.args.push(..)`, a `&mut self` method
        # of the record) accumulates in each of its fields: for the duration of the analysis every field of such a local is a
        # local of its own (`name§field`); they are put together again when the loop is done
        exploded = {}
        for k_, v_ in list(st.env.items()):
            if isinstance(v_, dict) and v_.get("v") == "struct" and not k_.startswith("__") and "§" not in k_ and self._mentions(e["body"], k_):
                exploded[k_] = v_
                for f_, fv_ in v_["fields"].items():
                    st.env["%s§%s" % (k_, f_)] = fv_

        def implode(state):
            for k_, v_ in exploded.items():
                flds = {}
                for f_ in v_["fields"]:
                    pv = state.env.pop("%s§%s" % (k_, f_), None)
                    flds[f_] = pv if pv is not None else v_["fields"][f_]
                cur = state.env.get(k_)
                if isinstance(cur, dict) and cur.get("v") == "struct":
                    state.env[k_] = dict(cur, fields=flds)

        try:
            return self._for_symbolic_inner(e, st, coll, idx, elem, exploded, implode)
        finally:
            for k_, v_ in exploded.items():
                for f_ in v_["fields"]:
                    st.env.pop("%s§%s" % (k_, f_), None)

    def _for_symbolic_inner(self, e, st, coll, idx, elem, exploded, implode):
        base = st.fork()
        base.conds = ()
        base.effects = []
        snap_env = {k: v for k, v in st.env.items()}
        snap_buf = list(st.buf)
        # separator bookkeeping: `if !acc.is_empty() { acc.push(' ') }` in front of the pieces appended to an accumulator that
        # is empty when the loop starts is `join(' ')` of the (non-empty) pieces; `if i > 0 { acc.push(' ') }` on the position
        # of the element is `join(' ')` whatever the pieces are; the statement is taken out of the body and the separator is
        # attached to the accumulated part.  It must stand in front of every other use of the accumulator.
        seps = {}
        exact_sep = set()
        body_ = e["body"]
        if body_.get("k") == "block":
            kept = []
            for st_ in body_["stmts"]:
                sp = None  # the emptiness-test form is decided on the paths of the body (below), wherever it stands
                exact = False
                if sp is None and idx is not None:
                    sp = self._index_separator_stmt(st_, idx, snap_env)
                    exact = sp is not None
                if sp is not None and sp[0] not in seps and not any(self._mentions(k_, sp[2]) for k_ in kept):
                    seps[sp[0]] = sp[1]
                    if exact:
                        exact_sep.add(sp[0])
                    continue
                kept.append(st_)
            if seps:
                body_ = dict(body_, stmts=kept)
        # a loop over `X.iter().map(f)` / `.filter_map(f)` is the loop over X with f applied first: one run of the body per
        # alternative of f (an element filtered out contributes nothing, not even a separator)
        compose = None
        if isinstance(coll, dict) and coll.get("v") == "mapped" and coll.get("how") in ("map", "filter_map") and not coll.get("collected") and not coll.get("prefix") and set(coll.get("adaptors", [])) <= {"cloned", "peekable"}:
            compose = coll["how"]
            for c0, v0 in coll["elems"]:
                if compose == "filter_map" and not (isinstance(v0, dict) and v0.get("v") in ("some", "none")):
                    compose = None
                    break
        filtered = []

        def enter(body_start):
            # the record as the body sees it: its fields are the field-locals (possibly the "carried" ones)
            for k_, v_ in exploded.items():
                body_start.env[k_] = dict(v_, fields={f_: body_start.env.get("%s§%s" % (k_, f_), fv_) for f_, fv_ in v_["fields"].items()})

        def leave(results):
            # what the body left in the record goes back to the field-locals; the record itself counts as unchanged
            for s2, _ in results:
                for k_, v_ in exploded.items():
                    cur = s2.env.get(k_)
                    if isinstance(cur, dict) and cur.get("v") == "struct" and cur.get("name") == v_.get("name"):
                        for f_ in v_["fields"]:
                            s2.env["%s§%s" % (k_, f_)] = cur["fields"].get(f_)
                        s2.env[k_] = snap_env[k_]
            return results

        def run_body(start_env):
            results = []
            del filtered[:]
            if compose is None:
                body_start = base.fork()
                body_start.env.update(start_env)
                enter(body_start)
                self.bind_pattern(e["pat"], elem, body_start)
                if idx is not None:
                    body_start.env[idx] = H("index", idx, of=coll)
                results = self.ev(body_, body_start)
            else:
                for c0, v0 in coll["elems"]:
                    if compose == "filter_map" and v0["v"] == "none":
                        filtered.append(c0)
                        continue
                    body_start = base.fork()
                    body_start.env.update(start_env)
                    enter(body_start)
                    body_start.conds = tuple(c0)
                    self.bind_pattern(e["pat"], v0["x"] if compose == "filter_map" else v0, body_start)
                    if idx is not None:
                        body_start.env[idx] = H("index", idx, of=coll)
                    results += self.ev(body_, body_start)
            return leave(results)

        def analyse(results, start_env):
            # which accumulators changed, and by what, on each path of the body
            deltas = {}  # name -> [(conds, appended value)]
            problems = []
            err_paths = []
            for s2, _ in results:
                if isinstance(s2.ret, dict) and s2.ret.get("v") == "loopctl":
                    if s2.ret["kind"] == "break":
                        problems.append("break inside the loop")
                    s2.ret = None
                if s2.ret is not None:
                    if isinstance(s2.ret, dict) and s2.ret.get("v") == "err":
                        err_paths.append((s2.conds, s2.ret))
                        continue
                    if isinstance(s2.ret, dict) and s2.ret.get("v") == "panic":
                        err_paths.append((s2.conds, s2.ret))
                        continue
                    problems.append("the loop body returns a value")
                    continue
                for u in s2.unknown:
                    if u not in st.unknown:
                        problems.append(u)
                for (kind, name, val) in [x for x in s2.effects if x[0] in ("push", "assign", "insert")]:
                    problems.append("the loop body changes the manager state (%s %s)" % (kind, name))
                for name, before in snap_env.items():
                    if name.startswith("__"):
                        continue
                    before = start_env.get(name, before)
                    after = s2.env.get(name)
                    if after is before or after == before:
                        deltas.setdefault(name, []).append((s2.conds, None))
                        continue
                    d = self._delta(before, after)
                    if d is None:
                        import os as _os
                        if _os.environ.get("VERIF_DEBUG"):
                            print("DEBUG delta", name, "before", before, "\nafter", after)
                        problems.append("`%s` is changed by the loop body in a way that is not an append" % name)
                    else:
                        deltas.setdefault(name, []).append((s2.conds, d))
                if s2.buf[: len(snap_buf)] == snap_buf:
                    deltas.setdefault("__buf", []).append((s2.conds, S(s2.buf[len(snap_buf):]) if len(s2.buf) > len(snap_buf) else None))
                else:
                    problems.append("the output buffer is rewritten by the loop body")
            return deltas, problems, err_paths

        deltas, problems, err_paths = analyse(run_body({}), {})
        # a string the body appends to is not, when an iteration starts, what it was before the loop: it also holds what the
        # earlier iterations appended.  The body is evaluated again with that part as an unknown; the one question a body may
        # ask about it is whether it is still empty (`if !acc.is_empty() { acc.push(' ') }`), which is the separator idiom:
        # decided below on the paths, wherever the test stands in the body.
        guarded = set()  # accumulators whose separator goes with each piece: an element that appends nothing is left out
        carried = {name: S(list(snap_env[name]["parts"]) + [("h", H("carried", name, name=name, empty_before=not snap_env[name]["parts"]))]) for name, alts in deltas.items() if name != "__buf" and name not in seps and is_str(snap_env.get(name)) and any(d is not None for _, d in alts)}
        if carried:
            deltas, problems, err_paths = analyse(run_body(carried), carried)
            for name in carried:
                mark = "carried-empty(%s)" % name
                alts = deltas.get(name, [])
                if not any(c0[0] == mark for cnd, _ in alts for c0 in cnd):
                    continue
                strip = lambda cnd: tuple(c0 for c0 in cnd if c0[0] != mark)
                firsts = {strip(cnd): d for cnd, d in alts if (mark, True) in cnd}
                nexts = {strip(cnd): d for cnd, d in alts if (mark, False) in cnd}
                loose = [cnd for cnd, d in alts if d is not None and not any(c0[0] == mark for c0 in cnd)]
                sep_, okp = None, not loose and set(firsts) == set(nexts)
                for key_ in firsts if okp else []:
                    f_, n_ = firsts[key_], nexts[key_]
                    if f_ is None and n_ is None:
                        continue
                    if f_ is None or n_ is None:
                        okp = False
                        break
                    fp, np_ = merge_consts(flat_parts(f_["parts"])), merge_consts(flat_parts(n_["parts"]))
                    s1_ = None
                    if fp and np_ and fp[0][0] == "c" and np_[0][0] == "c" and np_[0][1].endswith(fp[0][1]) and len(np_[0][1]) > len(fp[0][1]) and np_[1:] == fp[1:]:
                        s1_ = np_[0][1][: len(np_[0][1]) - len(fp[0][1])]
                    elif np_ and np_[0][0] == "c" and np_[1:] == fp and (not fp or fp[0][0] != "c"):
                        s1_ = np_[0][1]
                    # the emptiness test stands for "nothing appended so far" only if every piece is non-empty
                    if s1_ is None or (sep_ is not None and s1_ != sep_) or not any(p_[0] == "c" and p_[1] for p_ in fp):
                        okp = False
                        break
                    sep_ = s1_
                if okp and sep_:
                    seps[name] = sep_
                    exact_sep.add(name)
                    guarded.add(name)
                    deltas[name] = [(key_, d) for key_, d in firsts.items()] + [(cnd, None) for cnd, d in alts if not any(c0[0] == mark for c0 in cnd)]
                    for nm2, alts2 in list(deltas.items()):
                        if nm2 != name:
                            # the other accumulators do not depend on the test: one entry per path without it
                            seen_, kept_ = set(), []
                            for cnd, d in alts2:
                                k2_ = (strip(cnd), canon(d) if isinstance(d, dict) and d.get("v") else repr(d))
                                if k2_ not in seen_:
                                    seen_.add(k2_)
                                    kept_.append((strip(cnd), d))
                            deltas[nm2] = kept_
                    err_paths = [(strip(cnd), rv) for cnd, rv in err_paths]
                else:
                    import os as _os
                    if _os.environ.get("VERIF_DEBUG"):
                        print("DEBUG carried", name, "loose", loose, "\nfirsts", [(k_, canon(v_) if v_ else None) for k_, v_ in firsts.items()], "\nnexts", [(k_, canon(v_) if v_ else None) for k_, v_ in nexts.items()])
                    problems.append("`%s` is tested for emptiness inside the loop in a way that is not the separator idiom" % name)
        # an accumulator of type Option<String> that is None when the loop starts (`fold(None, |acc, x| match acc { None =>
        # Some(x), Some(j) => Some(j + SEP + &x) })`): the first element is seen with None, every later one with Some(text so
        # far).  The body is evaluated a second time with Some(carried); where the two runs differ by a constant in front of the
        # piece, that constant is the separator by position (base case and step of the induction over the elements).
        optacc = {name for name, alts in deltas.items() if name != "__buf" and isinstance(snap_env.get(name), dict) and snap_env[name].get("v") == "none" and any(d is not None for _, d in alts)}
        if optacc and not carried and not problems:
            start2 = {name: {"v": "some", "x": S([("h", H("carried", name, name=name, empty_before=False))])} for name in optacc}
            deltas2, problems2, err2 = analyse(run_body(start2), start2)
            problems += [p_ for p_ in problems2 if p_ not in problems]
            for name in optacc:
                firsts, nexts = dict(deltas[name]), dict(deltas2.get(name, []))
                okp, sep_ = set(firsts) == set(nexts) and len(firsts) == len(deltas[name]), None
                for key_ in firsts if okp else []:
                    f_, n_ = firsts[key_], nexts[key_]
                    if f_ is None or n_ is None:
                        okp = False  # an element that leaves the accumulator as it is: "first" is then not a matter of position
                        break
                    fp, np_ = merge_consts(flat_parts(f_["parts"])), merge_consts(flat_parts(n_["parts"]))
                    if np_ == fp:
                        s1_ = ""
                    elif fp and np_ and fp[0][0] == "c" and np_[0][0] == "c" and np_[0][1].endswith(fp[0][1]) and np_[1:] == fp[1:]:
                        s1_ = np_[0][1][: len(np_[0][1]) - len(fp[0][1])]
                    elif np_ and np_[0][0] == "c" and np_[1:] == fp and (not fp or fp[0][0] != "c"):
                        s1_ = np_[0][1]
                    else:
                        s1_ = None
                    if s1_ is None or (sep_ is not None and s1_ != sep_):
                        okp = False
                        break
                    sep_ = s1_
                if okp and sep_ is not None:
                    seps[name] = sep_
                    exact_sep.add(name)
                else:
                    problems.append("`%s` is an Option accumulator whose first and later steps do not differ by a separator" % name)
            for o_ in deltas:
                if o_ not in optacc and [(c_, canon(d_) if isinstance(d_, dict) and d_.get("v") else repr(d_)) for c_, d_ in deltas[o_]] != [(c_, canon(d_) if isinstance(d_, dict) and d_.get("v") else repr(d_)) for c_, d_ in deltas2.get(o_, [])]:
                    problems.append("`%s` accumulates differently once the Option accumulator is set" % o_)
            if sorted(map(repr, err_paths)) != sorted(map(repr, err2)):
                problems.append("the error exits of the loop body depend on the Option accumulator")
        elif optacc:
            problems.append("an Option accumulator next to other carried accumulators")
        out_state = st
        for pr in problems:
            if pr not in out_state.unknown:
                out_state.unknown.append("for-loop over a symbolic collection: " + pr)
        under = coll["of"] if compose is not None else coll
        for name, alts in deltas.items():
            if all(d is None for _, d in alts):
                continue
            how_ = compose or "for"
            if name in guarded:
                el_ = [(cnd, {"v": "some", "x": d} if d is not None else {"v": "none"}) for cnd, d in alts] + [(c0, {"v": "none"}) for c0 in filtered]
                how_ = "filter_map"
            elif compose == "filter_map":
                el_ = [(cnd, {"v": "some", "x": d if d is not None else S([])}) for cnd, d in alts] + [(c0, {"v": "none"}) for c0 in filtered]
            else:
                el_ = [(cnd, d if d is not None else S([])) for cnd, d in alts]
                if name in exact_sep and any(d is None for _, d in alts):
                    out_state.unknown.append("for-loop over a symbolic collection: a separator is written for every position but `%s` gets no piece on some path" % name)
            mapped = {"v": "mapped", "of": under, "elems": el_, "how": how_, "src": src(e["iter"])}
            plain = {"v": "mapped", "of": coll, "elems": [(cnd, d if d is not None else S([])) for cnd, d in alts], "how": "for", "src": src(e["iter"])}
            if name == "__buf":
                out_state.buf = out_state.buf + [("join", mapped, seps.get("__buf", ""))]
                continue
            before = snap_env[name]
            kinds = {self._delta_kind(d) for _, d in alts if d is not None}
            if kinds == {"str"} and name in optacc and name in exact_sep:
                out_state.env[name] = {"v": "optjoin", "x": S([("join", mapped, seps[name])]), "src": src(e["iter"])}
            elif kinds == {"str"} and is_str(before):
                sep_ = seps.get(name, "")
                if sep_ and name not in exact_sep:
                    # join semantics need every appended piece to be non-empty (an empty first piece would lose its separator)
                    if not all(d is None or any(p_[0] == "c" and p_[1] for p_ in d["parts"]) for _, d in alts):
                        out_state.unknown.append("for-loop over a symbolic collection: separator logic on `%s` with a piece that may be empty" % name)
                out_state.env[name] = S(before["parts"] + [("join", mapped, sep_)])
            elif kinds == {"items"} and isinstance(before, dict) and before.get("v") == "list":
                out_state.env[name] = {"v": "mapped", "of": coll, "elems": [(cnd, (d["items"][0] if d is not None and len(d["items"]) == 1 else {"v": "list", "items": d["items"] if d else []})) for cnd, d in alts], "how": "for", "src": src(e["iter"]), "prefix": before["items"]}
            elif kinds == {"entries"}:
                out_state.env[name] = {"v": "mapped", "of": coll, "elems": [(cnd, {"v": "tuple", "xs": list(d["entries"][0])} if d is not None and len(d["entries"]) == 1 else {"v": "unit"}) for cnd, d in alts], "how": "for-insert", "src": src(e["iter"]), "collected": "map"}
            else:
                out_state.unknown.append("for-loop over a symbolic collection: `%s` accumulates values of mixed kinds" % name)
        for name in seps:
            if name not in deltas or all(d is None for _, d in deltas[name]):
                out_state.unknown.append("for-loop over a symbolic collection: separator pushed on `%s` but nothing else" % name)
        res = [(out_state, {"v": "unit"})]
        for cnd, rv in err_paths:
            b = st.fork()
            b.conds = b.conds + tuple(("∃" + str(c0[0]), c0[1]) for c0 in cnd)
            b.ret = rv
            res.append((b, {"v": "never"}))
        for s_, _ in res:
            implode(s_)
        return res

    def _mentions(self, node, name):
        return bool(find_all(node, lambda n: isinstance(n, dict) and n.get("k") == "path" and n.get("segs") == [name]))

    def _index_separator_stmt(self, st_, idx, env):
        """(accumulator, separator text, accumulator variable) for `if IDX > 0 { ACC.push(C); }` with IDX the position of the
        element in the loop and ACC a local string or the output buffer, else None"""
        if st_.get("k") != "expr" or st_["e"].get("k") != "if" or st_["e"].get("else") is not None:
            return None
        c_ = st_["e"]["cond"]
        while c_.get("k") == "paren":
            c_ = c_["e"]
        if c_.get("k") != "binary":
            return None
        l_, r_, op = c_["lhs"], c_["rhs"], c_["op"]
        if rx.var_name(r_) == idx:
            l_, r_ = r_, l_
            op = {"<": ">", ">": "<", "<=": ">=", ">=": "<="}.get(op, op)
        if rx.var_name(l_) != idx:
            return None
        n_ = rx.int_const(r_)
        if not ((op in (">", "!=") and n_ == 0) or (op == ">=" and n_ == 1)):
            return None
        th = [x for x in st_["e"]["then"]["stmts"] if x["k"] != "item"]
        if len(th) != 1 or th[0]["k"] != "expr":
            return None
        pe_ = th[0]["e"]
        if not (pe_.get("k") == "mcall" and pe_["m"] in ("push", "push_str") and len(pe_["args"]) == 1):
            return None
        acc = rx.var_name(pe_["recv"])
        cur = env.get(acc) if acc else None
        if is_str(cur):
            name = acc
        elif isinstance(cur, dict) and cur.get("v") == "bufref":
            name = "__buf"
        else:
            return None
        a0 = rx.peel(pe_["args"][0])
        if a0.get("k") == "lit" and a0.get("t") in ("char", "str") and a0["v"]:
            return name, a0["v"], acc
        return None

    def _separator_stmt(self, st_, env):
        """(accumulator name, separator text) for `if !ACC.is_empty() { ACC.push(C); }` with ACC a local string that is empty
        before the loop, else None"""
        if st_.get("k") != "expr" or st_["e"].get("k") != "if" or st_["e"].get("else") is not None:
            return None
        c_ = st_["e"]["cond"]
        if not (c_.get("k") == "unary" and c_["op"] == "!" and c_["e"].get("k") == "mcall" and c_["e"]["m"] == "is_empty" and not c_["e"]["args"]):
            return None
        acc = rx.var_name(c_["e"]["recv"])
        cur = env.get(acc) if acc else None
        if not (is_str(cur) and not cur["parts"]):
            return None
        th = [x for x in st_["e"]["then"]["stmts"] if x["k"] != "item"]
        if len(th) != 1 or th[0]["k"] != "expr":
            return None
        pe_ = th[0]["e"]
        if not (pe_.get("k") == "mcall" and pe_["m"] in ("push", "push_str") and len(pe_["args"]) == 1 and rx.var_name(pe_["recv"]) == acc):
            return None
        a0 = rx.peel(pe_["args"][0])
        if a0.get("k") == "lit" and a0.get("t") in ("char", "str") and a0["v"]:
            return acc, a0["v"], acc
        return None

    def _delta_kind(self, d):
        if is_str(d):
            return "str"
        if isinstance(d, dict) and "items" in d:
            return "items"
        if isinstance(d, dict) and "entries" in d:
            return "entries"
        return "?"

    def _delta(self, before, after):
        """what was appended to `before` to obtain `after` (strings, lists, local maps), or None"""
        if is_str(before) and is_str(after):
            bp, ap = before["parts"], after["parts"]
            if ap[: len(bp)] == bp:
                return S(ap[len(bp):])
            return None
        if isinstance(before, dict) and isinstance(after, dict) and after.get("v") == "some" and is_str(after.get("x")):
            # an Option<String> accumulator: None before the first element, Some(text so far) afterwards
            if before.get("v") == "none":
                return S(list(after["x"]["parts"]))
            if before.get("v") == "some" and is_str(before.get("x")):
                return self._delta(before["x"], after["x"])
            return None
        if isinstance(before, dict) and isinstance(after, dict) and before.get("v") == "list" and after.get("v") == "list" and not before.get("field"):
            bi, ai = before["items"], after["items"]
            if ai[: len(bi)] == bi:
                return {"items": ai[len(bi):]}
            return None
        if isinstance(before, dict) and isinstance(after, dict) and before.get("v") == "localmap" and after.get("v") == "localmap":
            be, ae = before["entries"], after["entries"]
            if ae[: len(be)] == be:
                return {"entries": ae[len(be):]}
            return None
        return None

    def ev_call(self, e, st):
        f = e["f"]
        fname = "::".join(f["segs"]) if f["k"] == "path" else None
        # evaluate arguments
        outs = [(st, [])]
        for a in e["args"]:
            nxt = []
            for s1, acc in outs:
                for s2, v in self.ev(a, s1):
                    nxt.append((s2, acc + [v]))
            outs = nxt
        res = []
        for s1, argv in outs:
            if fname in ("String::from", "Some", "Box::new", "Rc::new", "Cow::Borrowed", "Cow::Owned", "Cow::from", "Arc::new", "std::borrow::Cow::Borrowed", "std::borrow::Cow::Owned") and len(argv) == 1:
                res.append((s1, argv[0] if fname != "Some" else {"v": "some", "x": argv[0]}))
                continue
            if fname == "Ok" and len(argv) == 1:
                res.append((s1, {"v": "ok", "x": argv[0]}))
                continue
            if fname == "Err" and len(argv) == 1:
                res.append((s1, {"v": "err", "x": argv[0]}))
                continue
            if fname == "String::new" and not argv:
                res.append((s1, S([])))
                continue
            if fname in ("String::with_capacity",) and len(argv) == 1:
                res.append((s1, S([])))
                continue
            if fname in ("Vec::new", "Vec::with_capacity", "VecDeque::new") and len(argv) <= 1:
                res.append((s1, {"v": "list", "items": []}))
                continue
            if fname in ("HashMap::new", "HashMap::with_capacity", "BTreeMap::new", "HashMap::default") and len(argv) <= 1 and not s1.env.get("__in_default"):
                res.append((s1, {"v": "localmap", "entries": [], "ty": fname.split("::")[0]}))
                continue
            if fname and fname.endswith("::default") and not argv and len(f["segs"]) == 2:
                dv = self.derived_default(f["segs"][0])
                if dv is not None:
                    res.append((s1, dv))
                    continue
            # local closure / fn value
            callee = None
            if f["k"] == "path" and len(f["segs"]) == 1 and f["segs"][0] in s1.env:
                callee = s1.env[f["segs"][0]]
            elif f["k"] == "path":
                cs = self.ev_path(f, s1)
                callee = cs[0][1]
            if callee is not None and callee.get("v") == "closure":
                res += self.call_closure(callee, argv, s1)
                continue
            if callee is not None and callee.get("v") == "fn":
                res += self.call_fn(callee["key"], argv, s1, e)
                continue
            if callee is not None and is_str(callee):
                # format_cmp!(cmp, "gid") expands to `$target` used as a value, never called; defensive
                res.append((s1, callee))
                continue
            if f["k"] == "path" and len(f["segs"]) >= 2 and f["segs"][-1] in ("from", "try_from") and len(argv) == 1:
                k_ = self._conversion_impl(f["segs"][-2], f["segs"][-1], argv[0], s1)
                if k_ is not None:
                    res += self.call_fn(k_, argv, s1, e)
                    continue
            # enum constructor or unknown function: symbolic
            res.append((s1, H("call", src(e), callee=fname, args=argv)))
        return res

    def _value_type(self, v):
        """the Rust type of a value as far as the interpreter knows it"""
        if not isinstance(v, dict):
            return None
        k = v.get("v")
        if k == "char":
            return "char"
        if k == "bool":
            return "bool"
        if k == "str":
            return "&str"
        if k == "struct" and v.get("name"):
            return v["name"]
        ev_ = self.as_enumval(v)
        if ev_ is not None:
            return ev_[0]
        if k == "hole" and v.get("kind") == "call" and isinstance(v.get("callee"), str) and v["callee"].split("::")[-1] in self.f.structs:
            return v["callee"].split("::")[-1]
        if k == "hole" and v.get("ty"):
            return norm_ty(v["ty"]).lstrip("&")
        if k in ("some", "none"):
            return "Option"
        return None

    def _resolve_into(self, v, ty, st, callnode, aexpr=None):
        """An argument written `x.into()` means nothing until the parameter type is known: with a parameter of a crate type T
        that has an `impl From<..> for T`, it is that conversion applied to x (when it has one outcome and no effect)."""
        src_v = None
        if isinstance(v, dict) and v.get("v") == "hole" and v.get("kind") == "mcall" and v.get("method") == "into" and not v.get("args"):
            src_v = v.get("recv")
        elif aexpr is not None and rx.peel(aexpr).get("k") == "mcall" and rx.peel(aexpr)["m"] == "into" and not rx.peel(aexpr)["args"] and self._value_type(v) != norm_ty(ty or "").lstrip("&").split("<")[0]:
            src_v = v  # `.into()` was read as the identity on the way: the value is still the source of the conversion
        if src_v is None:
            return v
        tgt = norm_ty(ty or "").lstrip("&").split("<")[0]
        if tgt not in self.f.structs and tgt not in self.f.enums:
            return v
        k_ = self._conversion_impl(tgt, "from", src_v, st)
        if k_ is None:
            return v
        v = dict(v) if False else v
        res = self.call_fn(k_, [src_v], st.fork(), callnode, force=True)
        if len(res) == 1 and not res[0][0].effects[len(st.effects):] and res[0][0].ret is None:
            return res[0][1]
        return v

    def _conversion_impl(self, target, method, arg, st):
        """key of the crate's `impl From<X> for Target` / `TryFrom<X>` whose X is the type of `arg`; the only impl when there is
        just one"""
        if target == "Self":
            fn0 = st.env.get("__fn")
            target = norm_ty(fn0.impl["self_ty"]).split("<")[0] if fn0 is not None and fn0.impl is not None else target
        trait = "TryFrom" if method == "try_from" else "From"
        cands = []
        for k_ in self.f.fns:
            m_ = re.match(r"^<%s as (?:std::convert::)?%s<(.*)>>::%s$" % (re.escape(target), trait, method), k_)
            if m_:
                cands.append((k_, m_.group(1)))
        if not cands:
            return None
        if len(cands) == 1:
            return cands[0][0]
        ty = self._value_type(arg)
        if ty is None:
            return None
        hit = [k_ for k_, x_ in cands if norm_ty(x_).lstrip("&").split("<")[0] == ty.split("<")[0] or (ty == "&str" and norm_ty(x_) in ("&str", "String", "&'staticstr"))]
        return hit[0] if len(hit) == 1 else None

    def display_text(self, v, st):
        """[(state, parts)] of `format!("{}", v)` for a value of one of the crate's own types with a hand-written Display impl
        (its `fmt` is run with the formatter as a string that is written to), else None"""
        ty = self._value_type(v)
        if ty is None or (ty not in self.f.enums and ty not in self.f.structs):
            return None
        key = next((k_ for k_ in self.f.fns if re.match(r"^<%s as (?:std::fmt::|fmt::|core::fmt::)?Display>::fmt$" % re.escape(ty), k_)), None)
        if key is None:
            return None
        fn = self.f.fns[key]
        fname = next((n for n, t_ in fn.params if n and n != "self"), None)
        if fname is None or self.depth >= self.maxdepth:
            return None
        self.depth += 1
        try:
            s1 = st.fork()
            saved_env, saved_ret = s1.env, s1.ret
            s1.env = {"__layout": saved_env.get("__layout"), "__fn": fn, "self": v, fname: S([])}
            s1.ret = None
            out = []
            for s2, rv in self.exec_block(fn.body["stmts"], s1):
                txt = s2.env.get(fname)
                if not is_str(txt):
                    return None
                s2.env = dict(saved_env)
                s2.ret = saved_ret
                out.append((s2, list(txt["parts"])))
            return out
        finally:
            self.depth -= 1

    def derived_default(self, ty, depth=0):
        """Value of `T::default()` for a crate struct that derives Default (no hand-written impl)."""
        sd = self.f.structs.get(ty)
        if sd is None or depth > 3 or "Default" not in self.f.derives(sd) or ("<%s as Default>::default" % ty) in self.f.fns:
            return None
        fields = {}
        for fl in sd.get("fields", []):
            t = norm_ty(fl["ty"])
            nm = fl.get("name")
            if t in ("u8", "u16", "u32", "u64", "usize", "i8", "i16", "i32", "i64", "isize", "u128", "i128"):
                fields[nm] = {"v": "int", "n": 0, "src": "0"}
            elif t == "bool":
                fields[nm] = {"v": "bool", "b": False, "src": "false"}
            elif t == "String":
                fields[nm] = S([])
            elif t.startswith("Vec<"):
                fields[nm] = {"v": "list", "items": []}
            elif t.startswith("Option<"):
                fields[nm] = {"v": "none"}
            elif t in self.f.structs:
                sub = self.derived_default(t, depth + 1)
                if sub is None:
                    return None
                fields[nm] = sub
            else:
                fields[nm] = H("call", "%s::default()" % t, callee="%s::default" % t.split("<")[0], args=[])
        return {"v": "struct", "name": ty, "fields": fields, "src": "%s::default()" % ty, "ctor": "%s::default" % ty}

    def call_closure(self, clo, argv, st):
        node = clo["node"]
        s1 = st.fork()
        saved = s1.env
        s1.env = dict(clo["env"])
        # closures see later bindings of the enclosing state too (captured by name at call time)
        for k, v in saved.items():
            s1.env.setdefault(k, v)
        for p, v in zip(node["params"], argv):
            self.bind_pattern(p, v, s1)
        out = []
        for s2, v in self.ev(node["body"], s1):
            s2.env = dict(saved)
            out.append((s2, v))
        return out

    def _payload_accessor(self, fn):
        """`fn count(&self) -> T { let (A(s) | B(s) | ..) = self; *s }` (or the same as a one-arm match): a method of an enum
        that hands out the payload every variant carries at one position, whatever the variant is."""
        if fn.impl is None or fn.impl.get("trait") or fn.node.get("self") not in ("&self", "self") or fn.body is None or len(fn.params) > 1:
            return False
        en = norm_ty(fn.impl["self_ty"]).split("<")[0]
        if en not in self.f.enums:
            return False
        sts = [x for x in fn.body.get("stmts", []) if x.get("k") != "item"]
        pat = tail = None
        if len(sts) == 2 and sts[0].get("k") == "let" and sts[0].get("else") is None and sts[0].get("init") is not None and rx.is_var(rx.peel(sts[0]["init"]), "self") and sts[1].get("k") == "expr" and not sts[1].get("semi"):
            pat, tail = sts[0]["pat"], sts[1]["e"]
        elif len(sts) == 1 and sts[0].get("k") == "expr" and rx.peel(sts[0]["e"]).get("k") == "match":
            mt = rx.peel(sts[0]["e"])
            if rx.is_var(rx.peel(mt["scrut"]), "self") and len(mt["arms"]) == 1 and mt["arms"][0].get("guard") is None:
                pat, tail = mt["arms"][0]["pat"], mt["arms"][0]["body"]
        if pat is None:
            return False
        while isinstance(pat, dict) and pat.get("k") in ("paren", "ref"):
            pat = pat.get("pat") or pat.get("p")
        alts = pat.get("cases") if isinstance(pat, dict) and pat.get("k") == "or" else None
        if not alts:
            return False
        seen, where = set(), set()
        for a_ in alts:
            if a_.get("k") != "tstruct" or len(a_["segs"]) < 2 or a_["segs"][-2] not in (en, "Self"):
                return False
            ids = [(i_, x["name"]) for i_, x in enumerate(a_["elems"]) if x.get("k") == "ident" and not x.get("sub")]
            if len(ids) != 1 or any(x.get("k") not in ("ident", "wild") for x in a_["elems"]):
                return False
            seen.add(a_["segs"][-1])
            where.add(ids[0])
        t_ = rx.peel(tail)
        while t_.get("k") == "unary" and t_.get("op") == "*":
            t_ = rx.peel(t_["e"])
        if t_.get("k") == "mcall" and t_["m"] in ("clone", "to_owned") and not t_["args"]:
            t_ = rx.peel(t_["recv"])
        return len(where) == 1 and seen == set(self.f.variants(en)) and rx.is_var(t_, sorted(where)[0][1])

    def call_fn(self, key, argv, st, callnode, self_val=None, force=False):
        fn = self.f.fns.get(key)
        if fn is None or self.depth >= self.maxdepth or key in self.no_inline:
            return [(st, H("call", src(callnode), callee=key, args=argv))]
        if not force and self._payload_accessor(fn):
            # `TimeSpec::count(t)` / `t.count()`: the payload itself
            force = True
            if self_val is None and argv:
                self_val, argv = argv[0], list(argv[1:])
        out_ty = norm_ty(fn.node["output"])
        inline = (
            out_ty in ("String", "&'staticstr", "&str", "CResult<&'staticstr>", "CResult<Option<String>>", "CResult", "CResult<()>", "()", "u32", "OpenPort", "Option<Mode>")
            or "String" in out_ty
            or out_ty.startswith("Box<dyn")
            or out_ty.startswith("(")
        )
        # private helpers are an implementation detail: always looked into, so that extracting or renaming one changes
        # nothing; public functions keep the allow-list (their names are interface and appear in the reference tables)
        if fn.node.get("vis") != "pub" and not fn.test:
            inline = True
        # a constructor helper: an associated function without receiver that returns its own (crate) type —
        # `CompileError::unsupported_test(x)` builds `CompileError::UnsupportedTest(format!("{x:?}"))`
        if fn.impl is not None and not fn.impl.get("trait") and fn.node.get("self") is None and not fn.test:
            own = norm_ty(fn.impl["self_ty"]).split("<")[0]
            if out_ty in ("Self", own) and (own in self.f.enums or own in self.f.structs):
                inline = True
        stack = getattr(self, "_callstack", [])
        if key in stack:
            return [(st, H("call", src(callnode), callee=key, args=argv, ty=out_ty, recursive=True))]
        if not inline and not force:
            return [(st, H("call", src(callnode), callee=key, args=argv, ty=out_ty))]
        self._callstack = stack + [key]
        self.depth += 1
        try:
            s1 = st.fork()
            saved_env, saved_ret = s1.env, s1.ret
            s1.env = {"__layout": saved_env.get("__layout"), "__fn": fn}
            s1.ret = None
            names = [n for n, _ in fn.params]
            for i_, ((n, ty), v) in enumerate(zip(fn.params, argv)):
                v = self._resolve_into(v, ty, s1, callnode)
                if n:
                    if isinstance(v, dict) and v.get("v") == "hole" and not v.get("ty"):
                        v = dict(v, ty=ty.lstrip("&"))
                    s1.env[n] = v
                else:
                    # a parameter written as a pattern: `fn from((pattern, insensitive): (&str, bool))`
                    ins_ = [x for x in fn.node.get("inputs", []) if x.get("pat") is not None]
                    if i_ < len(ins_) and ins_[i_]["pat"].get("k") in ("tuple", "tstruct", "struct", "typed"):
                        self.bind_pattern(ins_[i_]["pat"], v, s1)
            # a text the caller handed over by `&mut` (a String being built, a formatter modelled as one): what the callee
            # appended is in the caller's variable afterwards
            byref = []
            for (n, ty), a_ in zip(fn.params, (callnode.get("args") or []) if isinstance(callnode, dict) and callnode.get("k") == "call" else []):
                a0 = a_
                while isinstance(a0, dict) and a0.get("k") in ("ref", "paren"):
                    a0 = a0["e"]
                if n and ty.startswith("&mut") and isinstance(a0, dict) and a0.get("k") == "path" and len(a0["segs"]) == 1 and is_str(saved_env.get(a0["segs"][0])):
                    byref.append((n, a0["segs"][0]))
            out = []
            for s2, v in self.exec_block(fn.body["stmts"], s1):
                rv = s2.ret if s2.ret is not None else v
                wb = [(cv, s2.env.get(n)) for n, cv in byref if is_str(s2.env.get(n))]
                s2.env = dict(saved_env)
                for cv, val in wb:
                    s2.env[cv] = val
                s2.ret = saved_ret
                if isinstance(rv, dict) and rv.get("v") == "panic":
                    s2.ret = rv
                    out.append((s2, {"v": "never"}))
                else:
                    out.append((s2, rv))
            return out
        finally:
            self.depth -= 1
            self._callstack = stack

    def ev_mcall(self, e, st):
        m = e["m"]
        recv = e["recv"]
        r0_ = rx.peel(recv)
        if isinstance(r0_, dict) and r0_.get("k") == "field" and not e.get("_placed"):
            b0_ = rx.peel(r0_["e"])
            if isinstance(b0_, dict) and b0_.get("k") == "path" and len(b0_["segs"]) == 1 and isinstance(st.env.get(b0_["segs"][0]), dict) and st.env[b0_["segs"][0]].get("v") == "struct" and r0_["name"] in st.env[b0_["segs"][0]]["fields"]:
                # a method called on a field of a record value held in a local (`call.template.push_str(..)`, `self.args.extend(..)`
                # inside a method of the record): the field is a place — evaluated as a local of its own, and what the call left
                # there is stored back into the record
                var_, fld_ = b0_["segs"][0], r0_["name"]
                self._nplace = getattr(self, "_nplace", 0) + 1
                tmp_ = "§place%d" % self._nplace
                st.env[tmp_] = st.env[var_]["fields"][fld_]
                out_ = []
                for s1, v1 in self.ev_mcall(dict(e, recv={"k": "path", "l": e.get("l"), "segs": [tmp_], "gen": [[]], "qself": None}, _placed=True), st):
                    nv_ = s1.env.pop(tmp_, None)
                    cur_ = s1.env.get(var_)
                    if nv_ is not None and isinstance(cur_, dict) and cur_.get("v") == "struct":
                        s1.env[var_] = dict(cur_, fields=dict(cur_["fields"], **{fld_: nv_}))
                    out_.append((s1, v1))
                st.env.pop(tmp_, None)
                return out_
        if m in ("map_err", "inspect_err", "inspect") and len(e["args"]) == 1 and e["args"][0].get("k") == "closure" and len(e["args"][0]["params"]) == 1:
            # RESULT.inspect(..) / .inspect_err(..) hand the result on; so does `.map_err(|e| { log::warn!(..); e })` — a closure
            # that returns the error it was given.  The result of a call stays the event it is (who was called, with what).
            probe_ = st.fork()
            got_, same_ = [], True
            for s1, rv in self.ev(recv, probe_):
                if not (isinstance(rv, dict) and (rv.get("v") == "sub" or (rv.get("v") == "hole" and rv.get("kind") in ("mcall", "call", "mgr")))):
                    same_ = False
                    break
                if m == "map_err":
                    ph = H("name", "<the error>")
                    n_unk = len(s1.unknown)
                    try:
                        res_ = self.call_closure({"node": e["args"][0], "env": dict(s1.env)}, [ph], s1.fork())
                    except Exception:
                        res_ = []
                    if not res_ or not all(canon(v_) == canon(ph) and len(s2.unknown) == n_unk and len(s2.effects) == len(s1.effects) for s2, v_ in res_):
                        same_ = False
                        break
                got_.append((s1, rv))
            if same_ and got_:
                return got_
        if m == "for_each" and len(e["args"]) == 1 and e["args"][0].get("k") == "closure" and len(e["args"][0]["params"]) == 1:
            # ITER.for_each(|PAT| BODY) is `for PAT in ITER { BODY }`
            clo = e["args"][0]
            body = clo["body"] if clo["body"].get("k") == "block" else {"k": "block", "l": clo.get("l"), "stmts": [{"k": "expr", "e": clo["body"], "semi": True}]}
            return self.ev_for({"k": "for", "l": e.get("l"), "pat": clo["params"][0], "iter": recv, "body": body}, st)
        if m in ("try_fold", "fold") and len(e["args"]) == 2 and e["args"][1].get("k") == "closure" and len(e["args"][1]["params"]) == 2:
            # ITER.fold(INIT, |acc, x| BODY) is `let mut acc = INIT; for x in ITER { acc = BODY; } acc`; try_fold is the same loop
            # whose body may leave early with an error (`?` inside the closure, or an `Err(..)` result), the value being Ok(acc)
            clo = e["args"][1]
            ap = clo["params"][0]
            while isinstance(ap, dict) and ap.get("k") == "typed":
                ap = ap["pat"]
            if isinstance(ap, dict) and ap.get("k") == "ident" and not ap.get("by_ref") and not ap.get("sub"):
                acc = ap["name"]
                l_ = e.get("l")
                cb = clo["body"]
                stmts = list(cb["stmts"]) if cb.get("k") == "block" else [{"k": "expr", "l": l_, "e": cb, "semi": False}]
                tail = stmts[-1]["e"] if stmts and stmts[-1].get("k") == "expr" and not stmts[-1].get("semi") else None
                if tail is not None:
                    t0 = tail
                    if m == "try_fold" and t0.get("k") == "call" and t0["f"].get("k") == "path" and t0["f"]["segs"][-1] in ("Ok", "Some") and len(t0["args"]) == 1:
                        t0 = t0["args"][0]
                        wrapped = True
                    else:
                        wrapped = False
                    accp = {"k": "path", "l": l_, "segs": [acc], "gen": [[]], "qself": None}
                    if t0.get("k") == "path" and t0.get("segs") == [acc] and (wrapped or m == "fold"):
                        body_stmts = stmts[:-1]  # the accumulator is handed on as it is
                    else:
                        rhs = tail if m == "fold" else {"k": "try", "l": l_, "e": tail}
                        body_stmts = stmts[:-1] + [{"k": "expr", "l": l_, "e": {"k": "assign", "l": l_, "lhs": accp, "rhs": rhs}, "semi": True}]
                    loop = {"k": "for", "l": l_, "pat": clo["params"][1], "iter": recv, "body": {"k": "block", "l": l_, "stmts": body_stmts}}
                    out = []
                    for s0, iv in self.ev(e["args"][0], st):
                        had = acc in s0.env
                        old_ = s0.env.get(acc)
                        s0.env[acc] = iv
                        for s1, _ in self.ev_for(loop, s0):
                            val = s1.env.get(acc)
                            if had:
                                s1.env[acc] = old_
                            else:
                                s1.env.pop(acc, None)
                            if st.ret is None and isinstance(s1.ret, dict) and s1.ret.get("v") == "err":
                                v_ = s1.ret
                                s1.ret = None
                                out.append((s1, v_))
                            elif m == "try_fold":
                                out.append((s1, {"v": "ok", "x": val, "src": src(e)}))
                            else:
                                out.append((s1, val))
                    return out
        if m == "try_for_each" and len(e["args"]) == 1 and e["args"][0].get("k") == "closure" and len(e["args"][0]["params"]) == 1:
            # ITER.try_for_each(|PAT| BODY) is `for PAT in ITER { BODY?; }` whose first error is the value of the whole
            clo = e["args"][0]
            body = {"k": "block", "l": clo.get("l"), "stmts": [{"k": "expr", "l": clo.get("l"), "e": {"k": "try", "l": clo.get("l"), "e": clo["body"]}, "semi": True}]}
            out = []
            for s1, _ in self.ev_for({"k": "for", "l": e.get("l"), "pat": clo["params"][0], "iter": recv, "body": body}, st):
                if st.ret is None and isinstance(s1.ret, dict) and s1.ret.get("v") == "err":
                    v_ = s1.ret
                    s1.ret = None
                    out.append((s1, v_))
                else:
                    out.append((s1, {"v": "okunit"}))
            return out
        # buffer.push_str(X)
        out = []
        for s1, rv in self.ev(recv, st):
            # evaluate args
            argouts = [(s1, [])]
            for a in e["args"]:
                nxt = []
                for s2, acc in argouts:
                    for s3, v in self.ev(a, s2):
                        nxt.append((s3, acc + [v]))
                argouts = nxt
            for s2, argv in argouts:
                out += self.method(e, m, rv, argv, s2)
        return out

    def method(self, e, m, rv, argv, st):
        if isinstance(rv, dict) and rv.get("v") == "fieldref":
            rv = self._field_value(rv["field"], st)
        k = rv.get("v") if isinstance(rv, dict) else None
        if k == "flags":
            if m == "bits" and not argv:
                return [(st, {"v": "int", "n": rv["bits"], "src": src(e)})]
            if m in ("union", "intersection", "difference", "symmetric_difference") and len(argv) == 1 and argv[0].get("v") == "flags":
                o = argv[0]["bits"]
                n = {"union": rv["bits"] | o, "intersection": rv["bits"] & o, "difference": rv["bits"] & ~o, "symmetric_difference": rv["bits"] ^ o}[m]
                return [(st, dict(rv, bits=n, src=src(e)))]
        if m in ("contains", "starts_with", "ends_with") and k == "str" and len(rv["parts"]) == 1 and rv["parts"][0][0] == "h" and isinstance(rv["parts"][0][1], dict) and rv["parts"][0][1].get("v") == "hole":
            # an owned copy of a symbolic string (`s.to_string()`) is that string
            rv = rv["parts"][0][1]
            k = "hole"
        if m == "contains" and len(argv) == 1 and k in ("hole",) and argv[0].get("v") in ("closure", "fn"):
            # a character predicate: the finite set it accepts, whatever its spelling (closure, named function, matches!)
            try:
                from . import peg as _peg

                bld = getattr(self, "_pegb", None) or _peg.Builder(self.f)
                self._pegb = bld
                fn0 = st.env.get("__fn")
                env_ = {"__module": fn0.module if fn0 is not None else (), "__tsubst": {}}
                node = argv[0]["node"] if argv[0]["v"] == "closure" else {"k": "path", "segs": argv[0]["key"].split("::")[-1:], "gen": [None], "l": 0}
                if argv[0]["v"] == "fn":
                    env_["__module"] = self.f.fns[argv[0]["key"]].module
                pr = bld.pred(node, env_)
                if pr is not None and pr[0] == "cs" and pr[1][0] == "in":
                    return [(st, H("contains_any", src(e), recv=rv, chars="".join(sorted(pr[1][1]))))]
            except Exception:
                pass
        if m == "contains" and len(argv) == 1 and k in ("hole",):
            a0 = argv[0]
            chars = None
            if isinstance(a0, dict) and a0.get("v") == "char":
                chars = [a0["c"]]
            elif isinstance(a0, dict) and a0.get("v") == "list" and a0["items"] and all(isinstance(x, dict) and x.get("v") == "char" for x in a0["items"]):
                chars = [x["c"] for x in a0["items"]]
            if chars is not None:
                return [(st, H("contains_any", src(e), recv=rv, chars="".join(sorted(set(chars)))))]
        if k == "localmap" and m == "insert" and len(argv) == 2:
            tgt = self._local_name(e["recv"], st)
            if tgt is not None:
                st.env[tgt] = dict(rv, entries=rv["entries"] + [(argv[0], argv[1])])
                return [(st, {"v": "none"})]
        if k == "list" and not rv.get("field") and m == "push" and len(argv) == 1:
            tgt = self._local_name(e["recv"], st)
            if tgt is not None:
                st.env[tgt] = dict(rv, items=rv["items"] + [argv[0]])
                return [(st, {"v": "unit"})]
        if k == "list" and not rv.get("field") and m == "extend" and len(argv) == 1:
            # extend with an Option is "push if Some"; with a known list it appends its items
            tgt = self._local_name(e["recv"], st)
            a0 = argv[0]
            if tgt is not None and isinstance(a0, dict):
                if a0.get("v") == "some":
                    st.env[tgt] = dict(rv, items=rv["items"] + [a0["x"]])
                    return [(st, {"v": "unit"})]
                if a0.get("v") == "none":
                    return [(st, {"v": "unit"})]
                if a0.get("v") == "list" and not a0.get("open") and not a0.get("field"):
                    st.env[tgt] = dict(rv, items=rv["items"] + list(a0["items"]))
                    return [(st, {"v": "unit"})]
                if a0.get("v") == "hole":
                    prior = [c0[1] for c0 in st.conds if c0[0] == canon(a0) and c0[1] in ("Some", "None")]
                    out_ = []
                    for lab in ("Some", "None"):
                        if prior and prior[-1] != lab:
                            continue
                        s2 = st.fork()
                        if not prior:
                            s2.conds = s2.conds + ((canon(a0), lab),)
                        if lab == "Some":
                            s2.env[tgt] = dict(rv, items=rv["items"] + [some_of(a0)])
                        out_.append((s2, {"v": "unit"}))
                    return out_
        if k == "str" and m in ("push_str", "push") and len(argv) == 1:
            tgt = self._local_name(e["recv"], st)
            if tgt is not None:
                v = argv[0]
                add = v["parts"] if is_str(v) else ([C(v["c"])] if isinstance(v, dict) and v.get("v") == "char" else [("h", v)])
                st.env[tgt] = S(rv["parts"] + add)
                return [(st, {"v": "unit"})]
        # a list of pieces (string constants and string-valued expressions) glued together: each non-constant piece is a hole
        piece = lambda x: x["parts"] if is_str(x) else ([C(x["c"])] if isinstance(x, dict) and x.get("v") == "char" else [("h", x)])
        strish = lambda x: is_str(x) or (isinstance(x, dict) and x.get("v") in ("hole", "char"))
        if k == "list" and not rv.get("field") and not rv.get("open") and m in ("concat",) and not argv and rv["items"] and all(strish(x) for x in rv["items"]) and any(is_str(x) for x in rv["items"]):
            parts = []
            for x in rv["items"]:
                parts += piece(x)
            return [(st, S(parts))]
        if k == "list" and not rv.get("field") and not rv.get("open") and m == "join" and len(argv) == 1 and is_str(argv[0]) and rv["items"] and all(strish(x) for x in rv["items"]) and any(is_str(x) for x in rv["items"]):
            parts = []
            for i_, x in enumerate(rv["items"]):
                if i_:
                    parts += argv[0]["parts"]
                parts += piece(x)
            return [(st, S(parts))]
        if k == "selfsub":
            key = "%s::%s" % (rv["ty"], m)
            if key in self.f.fns:
                return self.call_method(key, argv, st, e, prefix=rv["prefix"])
            return [(st, H("mcall", src(e), method=m, recv=H("field", "self." + rv["prefix"][:-1], field=rv["prefix"][:-1]), args=argv, ty=None))]
        if m == "write_str" and len(argv) == 1 and k in ("bufref", "str"):
            # fmt::Write::write_str on a String (or a formatter modelled as one) appends and cannot fail
            res_ = self.ev({"k": "mcall", "l": e.get("l"), "recv": e["recv"], "m": "push_str", "targs": [], "args": [e["args"][0]]}, st)
            return [(s1, {"v": "okunit"}) for s1, _ in res_]
        if m == "to_string" and not argv and k in ("hole", "struct"):
            dt_ = self.display_text(rv, st)
            if dt_ is not None:
                return [(s3, S(parts_)) for s3, parts_ in dt_]
        if m == "write_fmt" and len(argv) == 1 and k in ("bufref", "str"):
            # String::write_fmt(format_args!(..)) appends the formatted text and cannot fail
            res_ = self.ev({"k": "mcall", "l": e.get("l"), "recv": e["recv"], "m": "push_str", "targs": [], "args": [e["args"][0]]}, st)
            return [(s1, {"v": "okunit"}) for s1, _ in res_]
        if k == "okunit" and m in ("unwrap", "expect", "ok", "unwrap_or_default"):
            return [(st, {"v": "unit"})]
        if k == "bufref" and m == "push_str" and len(argv) == 1:
            v = argv[0]
            st.buf = st.buf + (v["parts"] if is_str(v) else [("h", v)])
            return [(st, {"v": "unit"})]
        if k == "bufref" and m == "push" and len(argv) == 1:
            v = argv[0]
            st.buf = st.buf + ([C(v["c"])] if v.get("v") == "char" else [("h", v)])
            return [(st, {"v": "unit"})]
        if m == "encode_utf8" and len(argv) == 1:
            # the character as text (in a scratch buffer instead of a new String): `c.to_string()`
            return self.ev({"k": "mcall", "l": e.get("l"), "recv": e["recv"], "m": "to_string", "targs": [], "args": []}, st)
        if m in ("to_string", "to_owned", "clone", "into", "as_str", "as_ref", "borrow", "as_mut", "to_vec", "iter", "into_iter", "cloned", "copied", "unwrap", "as_deref", "into_owned", "as_slice", "into_boxed_str", "into_string", "deref") and not argv:
            if m == "unwrap":
                if k == "some":
                    return [(st, rv["x"])]
                if k == "hole":
                    if (canon(rv), "Some") in st.conds:
                        # the path condition says the option is Some: the same value `if let Some(x)` would bind
                        return [(st, some_of(rv))]
                    return [(st, H("unwrap", src(e), of=rv, ty=rv.get("ty")))]
            if m == "to_string" and k in ("int",):
                return [(st, S([C(str(rv["n"]))]))]
            if m == "to_string" and k in ("hole", "affine", "char"):
                return [(st, S([("h", rv)]))]
            return [(st, rv)]
        if k in ("ok", "err", "some", "none") or (k == "hole" and m in ("and_then", "map") and argv and argv[0].get("v") in ("closure", "fn") and self._optionish(rv)) or (k == "hole" and m in ("map_or", "map_or_else") and len(argv) == 2 and self._optionish(rv)):
            r = self.optres(e, m, rv, argv, st)
            if r is not None:
                return r
        if m in ("map", "filter_map", "flat_map") and len(argv) == 1 and argv[0].get("v") in ("closure", "fn") and k in ("hole", "list", "mapped", "self"):
            elem = H("elem", "element of " + (rv.get("src") or "list"), of=rv, ty=self._elem_ty(rv))
            if k == "self":
                fn0 = st.env.get("__fn")
                sty = norm_ty(fn0.impl["self_ty"]) if fn0 is not None and fn0.impl is not None else ""
                m2 = re.match(r"Vec<(.*)>$", sty)
                elem = H("payload", "self[]", enum=None, ty=m2.group(1) if m2 else None, of="self", elem_of=rv)
            if k == "hole" and rv.get("kind") == "payload":
                elem = H("payload", (rv.get("src") or "") + "[]", enum=None, ty=self._elem_ty(rv), of=rv.get("src"), elem_of=rv)
            if k == "mapped":
                elem = None
            alts = []
            srcs = rv["elems"] if k == "mapped" else [((), elem)]
            for c0, ev0 in srcs:
                a = st.fork()
                a.conds = ()
                a.buf = []
                if argv[0].get("v") == "closure":
                    rs = self.call_closure(argv[0], [ev0], a)
                else:
                    rs = self.call_fn(argv[0]["key"], [ev0], a, e)
                for s2, v in rs:
                    alts.append((c0 + s2.conds, v if s2.ret is None else s2.ret))
                    for u in s2.unknown:
                        if u not in st.unknown:
                            st.unknown.append(u)
            return [(st, {"v": "mapped", "of": rv, "elems": alts, "how": m, "src": src(e)})]
        if k == "mapped" and m in ("collect", "rev", "enumerate", "peekable", "skip", "take", "cloned") and True:
            if m == "collect":
                into = ",".join(e.get("targs") or [])
                flat = re.sub(r"\s+", "", into)
                if re.fullmatch(r"(String|(C?Result|Option)<String(,[^<>]*)?>)", flat):
                    # collecting string pieces into a String is their concatenation: join("") of the collected Vec
                    return [(st, S([("join", dict(rv, collected=into), "")]))]
                return [(st, dict(rv, collected=into))]
            return [(st, dict(rv, adaptors=rv.get("adaptors", []) + [m]))]
        if k == "mapped" and m in ("first", "last", "next"):
            return [(st, {"v": "some", "x": H("elem-of-mapped", src(e), mapped=rv, which=m)})]
        if k == "mapped" and m == "get" and len(argv) == 1 and isinstance(argv[0], dict) and argv[0].get("v") == "int" and argv[0].get("n") == 0:
            return [(st, {"v": "some", "x": H("elem-of-mapped", src(e), mapped=rv, which="first")})]
        if k == "optjoin":
            # None for an empty collection, Some(join) otherwise: the join of nothing is the empty text
            if m == "unwrap_or_default" and not argv:
                return [(st, rv["x"])]
            if m == "unwrap_or" and len(argv) == 1 and is_str(argv[0]) and not argv[0]["parts"]:
                return [(st, rv["x"])]
        if m == "len" and not argv and (k in ("mapped", "self") or (k == "hole" and rv.get("kind") in ("payload", "param", "elem", "some-of"))):
            return [(st, H("len", src(e), of=rv))]
        if m == "join" and len(argv) == 1 and is_str(argv[0]):
            septext = "".join(p[1] for p in argv[0]["parts"] if p[0] == "c")
            return [(st, S([("join", rv, septext)]))]
        if m == "is_empty" and not argv:
            if k == "str" and any(p[0] == "h" and isinstance(p[1], dict) and p[1].get("kind") == "carried" for p in rv["parts"]):
                ci = [i_ for i_, p in enumerate(rv["parts"]) if p[0] == "h" and isinstance(p[1], dict) and p[1].get("kind") == "carried"][0]
                ch = rv["parts"][ci][1]
                if any(p[0] == "c" and p[1] for p in rv["parts"]):
                    return [(st, {"v": "bool", "b": False, "src": src(e)})]
                if ch.get("empty_before") and ci == len(rv["parts"]) - 1 and ci == 0:
                    return [(st, H("carried-empty", src(e), name=ch["name"]))]
            if k == "str":
                consts = "".join(p[1] for p in rv["parts"] if p[0] == "c")
                if consts:
                    return [(st, {"v": "bool", "b": False, "src": src(e)})]
                if all(p[0] == "c" for p in rv["parts"]):
                    return [(st, {"v": "bool", "b": True, "src": src(e)})]
            if k == "list":
                return [(st, {"v": "bool", "b": len(rv["items"]) == 0, "src": src(e)})] if not rv.get("open") else [(st, H("cond", src(e)))]
            return [(st, H("cond", src(e), of=rv))]
        if m == "then" and len(argv) == 1 and argv[0].get("v") == "closure" and k == "bool":
            if rv["b"]:
                return [(s2, {"v": "some", "x": v}) for s2, v in self.call_closure(argv[0], [], st)]
            return [(st, {"v": "none"})]
        if m == "then" and len(argv) == 1 and argv[0].get("v") == "closure":
            a = st.fork()
            a.conds = a.conds + ((canon(rv), True),)
            res = []
            for s2, v in self.call_closure(argv[0], [], a):
                res.append((s2, {"v": "some", "x": v}))
            b = st.fork()
            b.conds = b.conds + ((canon(rv), False),)
            res.append((b, {"v": "none"}))
            return res
        if k == "self" or (k == "hole" and rv.get("kind") == "selfhole"):
            # method on the manager itself: inline
            key = None
            fn0 = st.env.get("__fn")
            if fn0 is not None and fn0.impl is not None:
                sty = norm_ty(fn0.impl["self_ty"])
                for cand in ("%s::%s" % (sty, m),):
                    if cand in self.f.fns:
                        key = cand
                if key is None:
                    for kk in self.f.fns:
                        if kk.startswith("<%s as " % sty) and kk.endswith("::" + m):
                            key = kk
            if key:
                return self.call_method(key, argv, st, e, prefix=st.env.get("__selfprefix", ""))
        if k == "list" and rv.get("field") and m == "push" and len(argv) == 1:
            st.fields[rv["field"]] = st.fields[rv["field"]] + [argv[0]]
            st.effects.append(("push", rv["field"], argv[0]))
            return [(st, {"v": "unit"})]
        if k == "hole" and rv.get("kind") == "field" and m in ("get", "contains_key", "insert", "entry", "remove", "get_mut") and argv and isinstance(argv[0], dict) and argv[0].get("v") == "struct" and argv[0].get("name") in self.f.structs:
            # a private record used as a map key is the tuple of its fields (in declaration order): derived equality and
            # hashing compare exactly these
            sd_ = self.f.structs[argv[0]["name"]]
            names_ = [fl.get("name") or str(i_) for i_, fl in enumerate(sd_.get("fields", []))]
            if all(n_ in argv[0]["fields"] for n_ in names_) and all(d_ in self.f.derives(sd_) for d_ in ("PartialEq", "Eq", "Hash")):
                argv = [{"v": "tuple", "xs": [argv[0]["fields"][n_] for n_ in names_], "src": argv[0].get("src")}] + list(argv[1:])
        if ((k == "list" and rv.get("field")) or (k == "hole" and rv.get("kind") == "field")) and m in ("extend", "extend_from_slice", "append") and len(argv) == 1 and isinstance(argv[0], dict) and argv[0].get("v") == "list" and not argv[0].get("open") and not argv[0].get("field"):
            # `vars.extend([a, b])`: the elements pushed one after the other
            fld = rv["field"]
            if not isinstance(st.fields.get(fld), list):
                st.fields[fld] = []
            for it_ in argv[0]["items"]:
                st.fields[fld] = st.fields[fld] + [it_]
                st.effects.append(("push", fld, it_))
            return [(st, {"v": "unit"})]
        if k == "hole" and rv.get("kind") == "field" and m == "push" and len(argv) == 1:
            fld = rv["field"]
            st.fields.setdefault(fld, [])
            if not isinstance(st.fields[fld], list):
                st.fields[fld] = []
            st.fields[fld] = st.fields[fld] + [argv[0]]
            st.effects.append(("push", fld, argv[0]))
            return [(st, {"v": "unit"})]
        if k == "hole" and rv.get("kind") == "field" and m in ("insert",):
            st.effects.append(("insert", rv["field"], argv))
            if len(argv) == 2:
                mk = "#map:" + rv["field"]
                st.fields[mk] = [x for x in st.fields.get(mk, []) if x[0] != canon(argv[0])] + [(canon(argv[0]), argv[1])]
            return [(st, {"v": "unit"})]
        if k == "hole" and rv.get("kind") == "field" and m == "entry" and len(argv) == 1:
            # HashMap entry API: the same case split as `get(key)` = Some / None, decided where the entry is matched on
            known = None
            for kc, val in st.fields.get("#map:" + rv["field"], []):
                if kc == canon(argv[0]):
                    known = val
            return [(st, {"v": "entry", "field": rv["field"], "key": argv[0], "known": known, "lookup": H("lookup", src(e), field=rv["field"], key=argv, method="get")})]
        if k == "occupied" and m in ("get", "into_mut", "get_mut") and not argv:
            return [(st, rv["val"])]
        if k == "occupied" and m == "key" and not argv:
            return [(st, rv["entry"]["key"])]
        if k == "vacant" and m in ("key", "into_key") and not argv:
            return [(st, rv["entry"]["key"])]
        if k == "vacant" and m == "insert" and len(argv) == 1:
            ent = rv["entry"]
            st.effects.append(("insert", ent["field"], [ent["key"], argv[0]]))
            mk = "#map:" + ent["field"]
            st.fields[mk] = [x for x in st.fields.get(mk, []) if x[0] != canon(ent["key"])] + [(canon(ent["key"]), argv[0])]
            return [(st, argv[0])]
        if k == "entry" and m in ("or_insert", "or_insert_with", "or_insert_with_key") and len(argv) == 1:
            if rv["known"] is not None:
                return [(st, rv["known"])]
            out_ = []
            a_ = st.fork()
            a_.conds = a_.conds + ((canon(rv["lookup"]), "Some"),)
            out_.append((a_, some_of(rv["lookup"])))
            b_ = st.fork()
            b_.conds = b_.conds + ((canon(rv["lookup"]), "None"),)
            vals = [(b_, argv[0])] if m == "or_insert" else self.call_closure(argv[0], [rv["key"]] if m == "or_insert_with_key" else [], b_)
            for s2, v2 in vals:
                s2.effects.append(("insert", rv["field"], [rv["key"], v2]))
                mk = "#map:" + rv["field"]
                s2.fields[mk] = [x for x in s2.fields.get(mk, []) if x[0] != canon(rv["key"])] + [(canon(rv["key"]), v2)]
                out_.append((s2, v2))
            return out_
        if k == "hole" and rv.get("kind") == "field" and m in ("replace", "insert") and len(argv) == 1 and (self._self_field_type(rv.get("field"), st) or "").startswith("Option<"):
            # Option::replace / Option::insert on a field of self: the field is Some(argument) afterwards — an assignment;
            # `replace` hands back what was there before, `insert` the new content
            new_ = {"v": "some", "x": argv[0], "src": src(e)}
            st.fields[rv["field"]] = new_
            st.effects.append(("assign", rv["field"], new_))
            return [(st, rv if m == "replace" else argv[0])]
        if k == "hole" and rv.get("kind") == "field" and m in MUTATORS:
            # the generator's own state is changed in a way the interpreter has no model for: every rule that reads the
            # paths of this function must treat them as not understood (fail closed)
            st.unknown.append("state-changing call self.%s.%s(..) is not modelled" % (rv.get("field"), m))
            return [(st, H("mcall", src(e), method=m, recv=rv, args=argv, ty=None))]
        if k == "hole" and rv.get("kind") == "field" and m in ("get", "contains_key"):
            # an entry inserted earlier on this very path is known to be there, with the value it was given
            for kc, val in st.fields.get("#map:" + rv["field"], []) if len(argv) == 1 else []:
                if kc == canon(argv[0]):
                    return [(st, {"v": "some", "x": val} if m == "get" else {"v": "bool", "b": True, "src": src(e)})]
            return [(st, H("lookup", src(e), field=rv["field"], key=argv, method=m))]
        if k == "hole" and rv.get("kind") == "payload" and m == "compile":
            st.buf = st.buf + [("sub", rv)]
            return [(st, {"v": "sub"})]
        if k == "hole" and rv.get("kind") in ("param",) and rv.get("dyn") and True:
            return [(st, H("mgr", src(e), method=m, args=argv))]
        if k == "struct" and rv.get("name") in self.f.structs:
            # a method of a crate record type called on a value built a few lines above: looked into, `self` = that value
            key0 = "%s::%s" % (rv["name"], m)
            fn0 = self.f.fns.get(key0)
            if fn0 is not None and not fn0.test and fn0.node.get("self") is not None and fn0.node.get("vis") != "pub" and key0 not in getattr(self, "_callstack", []):
                stack = getattr(self, "_callstack", [])
                self._callstack = stack + [key0]
                try:
                    return self.call_method(key0, argv, st, e, prefix="", self_val=rv)
                finally:
                    self._callstack = stack
        if k == "hole" and self.as_enumval(rv) is not None:
            en_ = self.as_enumval(rv)[0]
            key0 = "%s::%s" % (en_, m)
            fn0 = self.f.fns.get(key0)
            if fn0 is not None and not fn0.test and fn0.node.get("self") is not None and key0 not in getattr(self, "_callstack", []) and self.f.enums[en_].get("vis") != "pub":
                stack = getattr(self, "_callstack", [])
                self._callstack = stack + [key0]
                try:
                    return self.call_method(key0, argv, st, e, prefix="", self_val=rv)
                finally:
                    self._callstack = stack
        if k == "hole":
            # a private method of a crate type called on a symbolic value of that type: looked into, with `self` bound to the
            # value (public methods stay symbolic: their names are interface)
            ty0 = re.sub(r"^(&|mut\s*)+", "", (rv.get("ty") or "").strip())
            m0 = re.fullmatch(r"(?:Rc|Box|Arc)<(.*)>", ty0)
            ty0 = m0.group(1) if m0 else ty0
            ty0 = ty0.split("::")[-1]
            key0 = "%s::%s" % (ty0, m)
            fn0 = self.f.fns.get(key0)
            if fn0 is not None and fn0.node.get("vis") != "pub" and not fn0.test and fn0.node.get("self") is not None and key0 not in getattr(self, "_callstack", []):
                stack = getattr(self, "_callstack", [])
                self._callstack = stack + [key0]
                try:
                    return self.call_method(key0, argv, st, e, prefix="", self_val=rv)
                finally:
                    self._callstack = stack
        if k == "fn":
            pass
        # symbolic method call
        if k == "hole" and not argv and rv.get("ty"):
            en_ = norm_ty(rv["ty"]).lstrip("&").split("<")[0]
            fn_ = self.f.fns.get("%s::%s" % (en_, m))
            if fn_ is not None and en_ in self.f.enums and self._payload_accessor(fn_):
                return self.call_fn(fn_.key, [], st, e, self_val=rv, force=True)
        return [(st, H("mcall", src(e), method=m, recv=rv, args=argv, ty=self._mret(rv, m)))]

    def _local_name(self, recv, st):
        """name of the local variable a method receiver denotes (through & and *), if it is one"""
        r = rx.peel(recv)
        if r.get("k") == "path" and len(r["segs"]) == 1 and r["segs"][0] in st.env and not r["segs"][0].startswith("__"):
            return r["segs"][0]
        return None

    def _optionish(self, rv):
        ty = rv.get("ty") or ""
        if ty.startswith("Option<"):
            return True
        # a field projection of a struct parameter: look the field type up
        if rv.get("kind") == "proj" and isinstance(rv.get("of"), dict):
            st_ty = (rv["of"].get("ty") or "").split("::")[-1]
            sd = self.f.structs.get(st_ty)
            if sd:
                for f_ in sd.get("fields", []):
                    if f_.get("name") == rv.get("field"):
                        return norm_ty(f_["ty"]).startswith("Option<")
        return rv.get("kind") in ("lookup",) or False

    def _mret(self, rv, m):
        return None

    def _elem_ty(self, rv):
        ty = rv.get("ty") if isinstance(rv, dict) else None
        if ty:
            mm = re.match(r"(?:Vec|Option|&\[)?<?(.*?)>?\]?$", ty)
            m2 = re.match(r"Vec<(.*)>$", ty)
            if m2:
                return m2.group(1)
        return None

    def optres(self, e, m, rv, argv, st):
        k = rv.get("v")

        def apply(fv, x, s0):
            if fv.get("v") == "closure":
                return self.call_closure(fv, [x], s0)
            if fv.get("v") == "fn":
                return self.call_fn(fv["key"], [x], s0, e)
            if fv.get("v") == "hole" and fv.get("kind") == "path" and str(fv.get("src")).replace(" ", "") in TEXT_IDENTITIES:
                # `String::from`, `str::to_string`, `ToOwned::to_owned`, … named as a function: the same text, owned
                return [(s0, x)]
            return [(s0, H("call", src(e), callee=str(fv.get("src")) if fv.get("v") == "hole" and fv.get("kind") == "path" else None, args=[x]))]

        if k == "ok":
            if m == "map" and argv:
                return [(s2, {"v": "ok", "x": v}) for s2, v in apply(argv[0], rv["x"], st)]
            if m in ("unwrap_or_else", "unwrap_or", "unwrap", "expect", "unwrap_or_default"):
                return [(st, rv["x"])]
            if m == "map_err":
                return [(st, rv)]
            if m == "ok":
                return [(st, {"v": "some", "x": rv["x"]})]
        if k == "err":
            if m == "map":
                return [(st, rv)]
            if m == "unwrap_or_else" and argv:
                return apply(argv[0], rv["x"], st)
            if m == "unwrap_or" and argv:
                return [(st, argv[0])]
            if m == "ok":
                return [(st, {"v": "none"})]
        if k == "some":
            if m == "map" and argv:
                return [(s2, {"v": "some", "x": v}) for s2, v in apply(argv[0], rv["x"], st)]
            if m == "and_then" and argv:
                return apply(argv[0], rv["x"], st)
            if m in ("unwrap_or", "unwrap_or_else", "unwrap", "expect", "unwrap_or_default"):
                return [(st, rv["x"])]
            if m in ("is_some",):
                return [(st, {"v": "bool", "b": True, "src": src(e)})]
            if m in ("is_none",):
                return [(st, {"v": "bool", "b": False, "src": src(e)})]
        if k == "optjoin" and m == "unwrap_or_else" and len(argv) == 1:
            alts_ = apply(argv[0], {"v": "unit"}, st)
            if alts_ and all(is_str(v_) and not v_["parts"] for _, v_ in alts_):
                return [(s2, rv["x"]) for s2, _ in alts_]
        if k == "none":
            if m in ("map", "and_then"):
                return [(st, rv)]
            if m == "unwrap_or" and argv:
                return [(st, argv[0])]
            if m == "unwrap_or_else" and argv:
                return apply(argv[0], {"v": "unit"}, st)
            if m in ("is_some",):
                return [(st, {"v": "bool", "b": False, "src": src(e)})]
            if m in ("is_none",):
                return [(st, {"v": "bool", "b": True, "src": src(e)})]
        if m in ("map_or", "map_or_else") and len(argv) == 2:
            dflt, fn_ = argv
            def default_value(s0):
                if m == "map_or":
                    return [(s0, dflt)]
                return apply(dflt, {"v": "unit"}, s0) if dflt.get("v") == "closure" else (self.call_fn(dflt["key"], [], s0, e) if dflt.get("v") == "fn" else [(s0, H("call", src(e), args=[]))])
            if k == "some":
                return apply(fn_, rv["x"], st)
            if k == "none":
                return default_value(st)
            if k == "hole":
                a = st.fork()
                a.conds = a.conds + ((canon(rv), "Some"),)
                res = list(apply(fn_, some_of(rv), a))
                b = st.fork()
                b.conds = b.conds + ((canon(rv), "None"),)
                res += default_value(b)
                return res
        if k == "hole" and m in ("and_then", "map") and argv:
            a = st.fork()
            a.conds = a.conds + ((canon(rv), "Some"),)
            res = list(apply(argv[0], some_of(rv), a))
            if m == "map":
                res = [(s2, {"v": "some", "x": v}) for s2, v in res]
            b = st.fork()
            b.conds = b.conds + ((canon(rv), "None"),)
            res.append((b, {"v": "none"}))
            return res
        return None

    def call_method(self, key, argv, st, callnode, prefix="", self_val=None):
        fn = self.f.fns.get(key)
        if fn is None or self.depth >= self.maxdepth:
            return [(st, H("call", src(callnode), callee=key, args=argv))]
        self.depth += 1
        try:
            s1 = st.fork()
            saved_env, saved_ret = s1.env, s1.ret
            s1.env = {"__fn": fn, "__selfprefix": prefix, "__layout": saved_env.get("__layout")}
            if self_val is not None:
                s1.env["self"] = self_val
            s1.ret = None
            aexprs = (callnode.get("args") or []) if isinstance(callnode, dict) and callnode.get("k") in ("mcall", "call") else []
            for i_, ((n, ty), v) in enumerate(zip([p_ for p_ in fn.params if p_[0] != "self"], argv)):
                if n:
                    s1.env[n] = self._resolve_into(v, ty, s1, callnode, aexprs[i_] if i_ < len(aexprs) else None)
            # `&mut self` on a record value held in a local of the caller: the record the method leaves behind is the caller's
            # variable afterwards (a receiver that is no plain local cannot be written back: not understood)
            wb_ = None
            if isinstance(self_val, dict) and self_val.get("v") == "struct" and str(fn.node.get("self") or "").replace(" ", "").startswith("&mut"):
                rr_ = rx.peel(callnode["recv"]) if isinstance(callnode, dict) and callnode.get("k") == "mcall" else None
                if isinstance(rr_, dict) and rr_.get("k") == "path" and len(rr_["segs"]) == 1 and rr_["segs"][0] in saved_env:
                    wb_ = rr_["segs"][0]
                else:
                    s1.unknown.append("&mut self method %s on a record value that is not a plain local" % key)
            out = []
            for s2, v in self.exec_block(fn.body["stmts"], s1):
                rv = s2.ret if s2.ret is not None else v
                new_self = s2.env.get("self")
                s2.env = dict(saved_env)
                if wb_ is not None and isinstance(new_self, dict):
                    s2.env[wb_] = new_self
                s2.ret = saved_ret
                out.append((s2, rv))
            return out
        finally:
            self.depth -= 1

    # -------------------------------------------------------------- statements
    def exec_block(self, stmts, st):
        states = [(st, {"v": "unit"})]
        for i, s_ in enumerate(stmts):
            nxt = []
            for s1, _ in states:
                if s1.ret is not None:
                    nxt.append((s1, {"v": "never"}))
                    continue
                nxt += self.exec_stmt(s_, s1, last=(i == len(stmts) - 1))
            states = nxt
        return states

    def exec_stmt(self, s_, st, last=False):
        k = s_["k"]
        if k == "let" and s_.get("else") is not None and s_["init"] is not None:
            # let PAT = INIT else { diverge };   ≡   if let PAT = INIT { bind } else { diverge }
            out = []
            as_if = {"k": "if", "l": s_.get("l"), "cond": {"k": "letexpr", "l": s_.get("l"), "pat": s_["pat"], "e": s_["init"]}, "then": {"k": "block", "l": s_.get("l"), "stmts": []}, "else": s_["else"]}
            for s1, v in self.ev_if(as_if, st, keep_bindings=True):
                out.append((s1, {"v": "unit"}))
            return out
        if k == "let":
            out = []
            for s1, v in self.ev(s_["init"], st) if s_["init"] is not None else [(st, {"v": "unit"})]:
                if s1.ret is None:
                    self.bind_pattern(s_["pat"], v, s1)
                out.append((s1, {"v": "unit"}))
            return out
        if k == "expr":
            out = []
            for s1, v in self.ev(s_["e"], st):
                if not (last and not s_.get("semi")) and isinstance(v, dict) and v.get("v") == "hole" and v.get("kind") in ("mcall", "call", "mgr"):
                    # a call whose result is dropped (or only `?`-checked): kept as an observable event of the path
                    s1.effects.append(("call", v))
                out.append((s1, v if (last and not s_.get("semi")) else {"v": "unit"}))
            return out
        if k == "item":
            return [(st, {"v": "unit"})]
        st.unknown.append(src(s_)[:120])
        return [(st, {"v": "unit"})]

    # -------------------------------------------------------------- entry points
    def run_fn(self, key, bindings=None, fields=None, self_kind=None, raw_fields=False):
        """Abstractly execute a function. Parameters of type `&mut String` become the buffer; `&mut dyn X`
        become manager holes; everything else a param hole (tainted by type)."""
        fn = self.f.fn(key)
        st = State()
        st.env["__fn"] = fn
        st.env["__selfprefix"] = ""
        FIELD_ALIAS.clear()
        sty = norm_ty(fn.impl["self_ty"]) if fn.impl is not None else None
        if sty in self.f.structs and not raw_fields:
            from . import mgrstate

            if any(t == "Vec<String>" for t in mgrstate.flatten(self.f, sty).values()):
                lay = mgrstate.layout(self.f, sty)
                st.env["__layout"] = lay
                FIELD_ALIAS.update(lay["alias"])
                if fields is not None and fields.get("__auto__"):
                    fields = mgrstate.initial_fields(self.f, sty)
        elif sty in self.f.structs:
            from . import mgrstate

            st.env["__layout"] = dict(paths=mgrstate.flatten(self.f, sty), alias={})
        if fields is not None and fields.get("__auto__"):
            fields = {}
        for pos, (n, ty) in enumerate(fn.params):
            if not n:
                continue
            if bindings and n in bindings:
                st.env[n] = bindings[n]
            elif ty in ("&mutString",):
                st.env[n] = {"v": "bufref"}
            elif ty.startswith("&mutdyn"):
                st.env[n] = H("param", n, dyn=True, ty=ty, pos=pos)
            else:
                st.env[n] = H("param", n, ty=ty.lstrip("&"), name=n, pos=pos)
        if fields:
            st.fields.update(fields)
        res = self.exec_block(fn.body["stmts"], st)
        out = []
        for s1, v in res:
            rv = s1.ret if s1.ret is not None else v
            out.append((s1, rv))
        return out


# ------------------------------------------------------------------ rendering helpers
def merge_consts(parts):
    out = []
    for p in parts:
        if p[0] == "c" and out and out[-1][0] == "c":
            out[-1] = ("c", out[-1][1] + p[1])
        elif p[0] == "c" and not p[1]:
            continue
        else:
            out.append(p)
    return out


def flat_parts(parts):
    """Merge adjacent constants."""
    out = []
    for p in parts:
        if p[0] == "c" and out and out[-1][0] == "c":
            out[-1] = ("c", out[-1][1] + p[1])
        else:
            out.append(p)
    return out


def show_parts(parts):
    s_ = ""
    for p in flat_parts(parts):
        if p[0] == "c":
            s_ += p[1]
        elif p[0] == "h":
            h = p[1]
            if h.get("v") == "affine":
                s_ += "⟨%s%+d⟩" % (h["base"], h["off"]) if h["off"] else "⟨%s⟩" % h["base"]
            elif h.get("v") == "int":
                s_ += str(h["n"])
            else:
                s_ += "⟨%s⟩" % (h.get("src") or h.get("kind") or h.get("v"))
        elif p[0] == "sub":
            s_ += "⟦%s⟧" % p[1].get("src")
        elif p[0] == "join":
            s_ += "⟨join %r⟩" % p[2]
    return s_


def show_conds(conds):
    out = []
    for c in conds:
        a, b = c[0], c[1]
        if isinstance(b, tuple):
            out.append("%s∈{%s}" % (a, ",".join(str(x) for x in b)))
        else:
            out.append("%s=%s" % (a, b))
    return " ∧ ".join(out)


# ------------------------------------------------------------------ Guile lexical model over parts
def scan_scheme(parts, in_string=False, depth=0):
    """Walk constant text with Guile's string/paren lexical rules. Returns dict(depth_end, min_depth, in_string_end,
    holes=[(hole, in_string, depth_at, after_backslash)], hole_ctx=[(head of the enclosing form, index of the argument the
    hole is in)] parallel to holes, ctx_end (the same for the end of the text), bad_escapes=[...], subs=[..])."""
    holes, subs, bad, hctx = [], [], [], []
    mind = depth
    esc = False
    forms = [{"head": None, "nargs": 0}]  # enclosing forms, innermost last (the first entry is the top level)
    atom = [""]

    def end_atom():
        if atom[0]:
            f = forms[-1]
            if f["head"] is None:
                f["head"] = atom[0]
            else:
                f["nargs"] += 1
            atom[0] = ""

    def ctx():
        f = forms[-1]
        return (f["head"], f["nargs"])

    for p in flat_parts(parts):
        if p[0] == "c":
            text = p[1]
            i = 0
            while i < len(text):
                ch = text[i]
                if in_string:
                    if esc:
                        if ch not in '\\"0abfnrtvx\n ':
                            bad.append("\\" + ch)
                        esc = False
                    elif ch == "\\":
                        esc = True
                    elif ch == '"':
                        in_string = False
                else:
                    if ch == '"':
                        end_atom()
                        in_string = True
                        f = forms[-1]
                        if f["head"] is None:
                            f["head"] = "<string>"
                        else:
                            f["nargs"] += 1
                    elif ch == "#" and text[i + 1 : i + 2] == "\\":
                        # character literal #\x.. or #\c : skip the char after #\
                        atom[0] += "#\\"
                        i += 2
                        if i < len(text):
                            atom[0] += text[i]
                            if text[i] == "x":
                                while i + 1 < len(text) and text[i + 1] in "0123456789abcdefABCDEF":
                                    i += 1
                    elif ch == ";":
                        end_atom()
                        while i < len(text) and text[i] != "\n":
                            i += 1
                    elif ch == "(":
                        end_atom()
                        f = forms[-1]
                        if f["head"] is None:
                            f["head"] = "<form>"
                        else:
                            f["nargs"] += 1
                        forms.append({"head": None, "nargs": 0})
                        depth += 1
                    elif ch == ")":
                        end_atom()
                        if len(forms) > 1:
                            forms.pop()
                        depth -= 1
                        mind = min(mind, depth)
                    elif ch.isspace():
                        end_atom()
                    else:
                        atom[0] += ch
                i += 1
        elif p[0] == "h":
            holes.append((p[1], in_string, depth, esc))
            hctx.append(ctx())
            if not in_string:
                atom[0] += "{}"
            esc = False
        elif p[0] == "sub":
            subs.append((p[1], in_string, depth))
            if not in_string:
                end_atom()
                f = forms[-1]
                if f["head"] is None:
                    f["head"] = "<sub>"
                else:
                    f["nargs"] += 1
        elif p[0] == "join":
            holes.append(({"v": "join", "list": p[1], "sep": p[2], "src": "join"}, in_string, depth, esc))
            hctx.append(ctx())
            if not in_string:
                atom[0] += "{}"
    return dict(depth_end=depth, min_depth=mind, in_string_end=in_string, holes=holes, hole_ctx=hctx, ctx_end=ctx(), subs=subs, bad_escapes=bad, dangling_escape=esc)


# ------------------------------------------------------------------ skeleton (CompiledExpression::scheme)
def skeleton(facts):
    key = "CompiledExpression::scheme"
    if key not in facts.fns:
        return None
    it = Interp(facts)
    res = it.run_fn(key)
    if len(res) != 1:
        return {"error": "scheme() forks into %d paths" % len(res)}
    st, v = res[0]
    if not is_str(v):
        return {"error": "scheme() does not return a single format!"}
    parts = flat_parts(v["parts"])
    text = ""
    holes = []
    for p in parts:
        if p[0] == "c":
            text += p[1]
        elif p[0] == "h":
            holes.append(p[1])
            text += "{%s}" % canon(p[1])
        else:
            text += "{?}"
    out = {"parts": parts, "text": text, "holes": holes, "unknown": st.unknown}
    # locate (lipe-scan a b c d e)
    m = re.search(r"\(lipe-scan\s", text)
    if m:
        args = sexp_args(text, m.start())
        out["lipe_scan_args"] = args
    out["top_forms"] = top_forms(text)
    return out


def sexp_args(text, start):
    """Arguments of the list starting at text[start] == '(' (strings and nested lists kept whole)."""
    assert text[start] == "("
    i = start + 1
    args, cur, depth, instr = [], "", 0, False
    while i < len(text):
        ch = text[i]
        if instr:
            cur += ch
            if ch == "\\":
                cur += text[i + 1]
                i += 1
            elif ch == '"':
                instr = False
        elif ch == '"':
            instr = True
            cur += ch
        elif ch == "(":
            depth += 1
            cur += ch
        elif ch == ")":
            if depth == 0:
                if cur.strip():
                    args.append(cur.strip())
                return args[1:]
            depth -= 1
            cur += ch
        elif ch.isspace() and depth == 0:
            if cur.strip():
                args.append(cur.strip())
            cur = ""
        else:
            cur += ch
        i += 1
    return None


def top_forms(text):
    forms, depth, instr, cur = [], 0, False, ""
    i = 0
    while i < len(text):
        ch = text[i]
        cur += ch
        if instr:
            if ch == "\\":
                i += 1
                cur += text[i] if i < len(text) else ""
            elif ch == '"':
                instr = False
        elif ch == '"':
            instr = True
        elif ch == "(":
            depth += 1
        elif ch == ")":
            depth -= 1
            if depth == 0:
                forms.append(cur.strip())
                cur = ""
        i += 1
    if cur.strip():
        forms.append("<unbalanced>" + cur.strip())
    return forms


# ------------------------------------------------------------------ canonical (rename-independent) hole names
COMMUTATIVE = {"||", "&&", "|", "&", "^", "==", "!=", "+", "*"}


def canon(h):
    if isinstance(h, dict) and h.get("spec") and h.get("v") != "hole":
        return canon({k: x for k, x in h.items() if k != "spec"}) + ":" + h["spec"]
    if not isinstance(h, dict):
        return str(h)
    v = h.get("v")
    if v == "int":
        return str(h["n"])
    if v == "char":
        return "'" + h["c"].encode("unicode_escape").decode() + "'"
    if v == "bool":
        return "true" if h["b"] else "false"
    if v == "affine":
        return "v%+d" % h["off"] if h["off"] else "v"
    if v == "str":
        fp = flat_parts(h["parts"])
        if len(fp) == 1 and fp[0][0] == "h" and isinstance(fp[0][1], dict) and not fp[0][1].get("spec") and fp[0][1].get("v") == "hole":
            # `x.to_string()` / `format!("{x}")` of a single value is that value (a &str parameter and its owned copy are
            # the same text)
            return canon(fp[0][1])
        return '"' + canon_parts(h["parts"]) + '"'
    if v == "some":
        return "Some(%s)" % canon(h["x"])
    if v == "none":
        return "None"
    if v == "tuple":
        return "(%s)" % ",".join(canon(x) for x in h["xs"])
    if v == "struct":
        return "%s{%s}" % (h["name"], ",".join("%s:%s" % (k, canon(x)) for k, x in sorted(h["fields"].items())))
    if v == "self":
        return "self"
    if v == "flags":
        return "%s(%s)" % (h["ty"], oct(h["bits"]))
    if v == "mapped":
        return "map(%s)" % canon(h.get("of"))
    if v == "list":
        return "[%s]" % ",".join(canon(x) for x in h.get("items", []))
    if v == "localmap":
        return "{%s}" % ",".join("%s:%s" % (canon(a), canon(b)) for a, b in h.get("entries", []))
    if v == "fn":
        return h["key"]
    if v != "hole":
        return "<%s>" % v
    k = h.get("kind")
    spec = (":" + h["spec"]) if h.get("spec") else ""
    if k == "payload":
        if h.get("elem_of") is not None:
            return "$elem(%s)%s" % (canon(h["elem_of"]) if isinstance(h["elem_of"], dict) else h["elem_of"], spec)
        var = "|".join(x.split("::")[-1] for x in h["variants"]) if h.get("variants") else h.get("variant")
        return "$%s::%s.%s%s" % (h.get("enum"), var, h.get("idx"), spec)
    if k == "param":
        return "@%s%s" % (h.get("pos"), spec)
    if k == "call":
        cal_ = str(h.get("callee"))
        if re.fullmatch(r"(u8|u16|u32|u64|u128|usize|i8|i16|i32|i64|i128|isize)::from", cal_) and len(h.get("args", [])) == 1:
            # a lossless integer widening: `u32::from(x)` is `x as u32`
            return "(%s as %s)%s" % (canon(h["args"][0]), cal_.split("::")[0], spec)
        return "%s(%s)%s" % (ALIAS.get(h.get("callee"), h.get("callee")), ",".join(canon(a) for a in h.get("args", [])), spec)
    if k == "mcall":
        own_ = METHOD_OWNER.get(h.get("method"))
        if own_ is not None and isinstance(h.get("recv"), dict) and h["recv"].get("v") == "hole" and h["recv"].get("kind") in ("payload", "elem", "proj"):
            key_ = "%s::%s" % (own_, h.get("method"))
            return "%s(%s)%s" % (ALIAS.get(key_, key_), ",".join(canon(a) for a in [h["recv"]] + list(h.get("args", []))), spec)
        return "%s.%s(%s)%s" % (canon(h.get("recv")), h.get("method"), ",".join(canon(a) for a in h.get("args", [])), spec)
    if k == "mgr":
        return "mgr.%s(%s)%s" % (h.get("method"), ",".join(canon(a) for a in h.get("args", [])), spec)
    if k == "proj":
        return "%s.%s%s" % (canon(h.get("of")), h.get("field"), spec)
    if k == "field":
        return "self.%s%s" % (FIELD_ALIAS.get(h.get("field"), h.get("field")), spec)
    if k == "contains_any":
        return "%s.contains_any(%r)%s" % (canon(h.get("recv")), h.get("chars"), spec)
    if k == "cast":
        return "(%s as %s)%s" % (canon(h["operands"][0]), h.get("to"), spec)
    if k == "expr":
        ops = h.get("operands", [])
        if len(ops) == 2:
            a_, b_ = canon(ops[0]), canon(ops[1])
            if h.get("op") in COMMUTATIVE and b_ < a_:
                # `x || y` and `y || x` (operands are values: what evaluating them *does* is recorded as effects, in order)
                a_, b_ = b_, a_
            return "(%s %s %s)%s" % (a_, h.get("op"), b_, spec)
        return "(%s%s)%s" % (h.get("op", ""), canon(ops[0]) if ops else "?", spec)
    if k == "unwrap":
        return "%s.unwrap()%s" % (canon(h.get("of")), spec)
    if k == "lookup":
        return "self.%s.%s(%s)%s" % (FIELD_ALIAS.get(h.get("field"), h.get("field")), h.get("method"), ",".join(canon(a) for a in h.get("key", [])), spec)
    if k == "debug":
        return "{:?}(%s)" % canon(h.get("of"))
    if k == "path":
        return h.get("src")
    if k == "carried-empty":
        return "carried-empty(%s)" % h.get("name")
    if k == "carried":
        return "carried(%s)" % h.get("name")
    if k == "elem-of-mapped":
        return "%s(%s)" % (h.get("which"), canon(h.get("mapped")))
    if k == "some-of":
        return "%s.some" % canon(h.get("of"))
    if k == "matched":
        return "matched(%s)" % canon(h.get("of"))
    if k == "cond" and isinstance(h.get("of"), dict):
        return "cond(%s)" % canon(h["of"])
    if k == "len" and isinstance(h.get("of"), dict):
        # a one-to-one map keeps the length
        o_ = h["of"]
        while isinstance(o_, dict) and o_.get("v") == "mapped" and (o_.get("how") == "map" or (o_.get("how") == "for" and all(not (isinstance(v_, dict) and v_.get("v") == "list") for _, v_ in o_.get("elems", [])))) and not o_.get("prefix") and not (set(o_.get("adaptors", [])) - {"rev", "enumerate", "peekable", "cloned"}) and isinstance(o_.get("of"), dict):
            o_ = o_["of"]
        return "len(%s)" % canon(o_)
    if k in ("name", "cond", "len"):
        return "%s:%s" % (k, h.get("src"))
    return "?%s:%s" % (k, h.get("src"))


def single_element_joins(parts, conds):
    """On a path whose condition says the joined collection has exactly one element, `join(sep)` of the pieces is the first
    piece: `[x].join(" ")` and `first().unwrap()` name the same text."""
    out = []
    for p in parts:
        if p[0] == "join" and isinstance(p[1], dict) and p[1].get("v") == "mapped" and not p[1].get("prefix"):
            o_ = p[1]
            while isinstance(o_, dict) and o_.get("v") == "mapped" and not o_.get("prefix") and not (set(o_.get("adaptors", [])) - {"rev", "enumerate", "peekable", "cloned"}) and (o_.get("how") == "map" or (o_.get("how") == "for" and all(is_str(v_) for _, v_ in o_["elems"]))) and isinstance(o_.get("of"), dict):
                o_ = o_["of"]
            if ("len(%s)" % canon(o_), ("1",)) in conds:
                out.append(("h", H("elem-of-mapped", "first", mapped=p[1], which="first")))
                continue
        if p[0] == "c" or p[0] == "h" or p[0] == "join":
            out.append(p)
        elif p[0] == "sub" and isinstance(p[1], dict) and is_str(p[1]):
            out.append(("sub", dict(p[1], parts=single_element_joins(p[1]["parts"], conds))))
        else:
            out.append(p)
    return out


def canon_parts(parts):
    out = ""
    for p in flat_parts(parts):
        if p[0] == "c":
            out += p[1]
        elif p[0] == "h":
            out += "{%s}" % canon(p[1])
        elif p[0] == "sub":
            out += "{sub %s}" % canon(p[1])
        elif p[0] == "join":
            out += "{join%r %s}" % (p[2], canon(p[1]))
    return out


def canon_conds(conds):
    out = []
    seen = set()
    def structural(c):
        # conditions that destructure the input (self, parameters, payloads) keep the order in which they were met — an
        # inner payload can only be examined after the outer one; all other conditions are sorted
        subj = str(c[0])
        return subj == "self" or re.fullmatch(r"@\d+", subj) is not None or re.fullmatch(r"\$[A-Za-z_:|]+(\.\d+)+", subj) is not None

    ordered = [c for c in conds if structural(c)] + sorted([c for c in conds if not structural(c)], key=lambda c: (str(c[0]), str(c[1])))
    for c in ordered:
        if (c[0], c[1]) in seen:
            continue
        seen.add((c[0], c[1]))
        a, b = c[0], c[1]
        if isinstance(b, tuple):
            out.append("%s∈{%s}" % (a, ",".join(str(x) for x in b)))
        else:
            out.append("%s=%s" % (a, b))
    return " ∧ ".join(out)


def scheme_tokens(text):
    """Whitespace-insensitive token list of a Scheme template (holes already rendered as {..})."""
    toks, i, n = [], 0, len(text)
    while i < n:
        ch = text[i]
        if ch.isspace():
            i += 1
        elif ch in "()":
            toks.append(ch)
            i += 1
        elif ch == '"':
            j = i + 1
            while j < n and text[j] != '"':
                if text[j] == "\\":
                    j += 1
                elif text[j] == "{":
                    # holes may contain quotes in their canonical names: skip to matching brace
                    d = 0
                    while j < n:
                        if text[j] == "{":
                            d += 1
                        elif text[j] == "}":
                            d -= 1
                            if d == 0:
                                break
                        j += 1
                j += 1
            toks.append(text[i : j + 1])
            i = j + 1
        elif ch == "{":
            d, j = 0, i
            while j < n:
                if text[j] == "{":
                    d += 1
                elif text[j] == "}":
                    d -= 1
                    if d == 0:
                        break
                j += 1
            # a hole glued to an atom stays part of it
            k = j + 1
            while k < n and not text[k].isspace() and text[k] not in "()\"":
                k += 1
            toks.append(text[i:k])
            i = k
        else:
            j = i
            while j < n and not text[j].isspace() and text[j] not in '()"':
                if text[j] == "{":
                    d = 0
                    while j < n:
                        if text[j] == "{":
                            d += 1
                        elif text[j] == "}":
                            d -= 1
                            if d == 0:
                                break
                        j += 1
                j += 1
            toks.append(text[i:j])
            i = j
    return toks


# ------------------------------------------------------------------ taint
TAINT_TYPES = ("String", "str", "&str", "char", "S", "&String", "Option<char>")
TAINT_CARRIERS = set()  # names of the crate's types that (transitively) hold user text: set_taint_carriers(facts)


def set_taint_carriers(facts):
    """Types of the crate with a String / char / str field, directly or through other such types: a value of such a type that
    reaches the emitted text through a construct the interpreter did not look into may carry user text."""
    carr = set()
    changed = True

    def carries(ty):
        t = norm_ty(ty or "")
        if re.search(r"\b(String|str|char|OsString|PathBuf|Cow)\b", t):
            return True
        return any(re.search(r"\b%s\b" % re.escape(c_), t) for c_ in carr)

    while changed:
        changed = False
        for name, en in facts.enums.items():
            if "::" in name or name in carr:
                continue
            if any(carries(f_["ty"]) for v_ in en.get("variants", []) for f_ in v_.get("fields", [])):
                carr.add(name)
                changed = True
        for name, sd in facts.structs.items():
            if "::" in name or name in carr:
                continue
            if any(carries(f_["ty"]) for f_ in sd.get("fields", [])):
                carr.add(name)
                changed = True
        for name, al in facts.types.items():
            if name not in carr and carries(al.get("ty")):
                carr.add(name)
                changed = True
    TAINT_CARRIERS.clear()
    TAINT_CARRIERS.update(carr)
    return carr


def tainted(h, depth=0):
    """Does the value derive from user-supplied text (String/char payloads, string parameters)?
    Returns a list of source descriptions (empty = clean)."""
    if not isinstance(h, dict) or depth > 12:
        return []
    v = h.get("v")
    if v == "self":
        ty_ = h.get("ty") or ""
        if ty_ and (ty_ in TAINT_TYPES or (TAINT_CARRIERS and any(re.search(r"\b%s\b" % re.escape(c_), ty_) for c_ in TAINT_CARRIERS))):
            return ["self"]
        return []
    if v in ("int", "bool", "affine", "none", "unit", "fn"):
        return []
    if v == "char":
        return []
    if v == "str":
        out = []
        for p in h["parts"]:
            if p[0] == "h":
                out += tainted(p[1], depth + 1)
        return out
    if v in ("some", "ok", "err"):
        return tainted(h["x"], depth + 1)
    if v == "tuple":
        return [x for e in h["xs"] for x in tainted(e, depth + 1)]
    if v == "struct":
        return [x for e in h["fields"].values() for x in tainted(e, depth + 1)]
    if v != "hole":
        return []
    k = h.get("kind")
    ty = (h.get("ty") or "").replace("'static", "").replace("'_", "")
    if k in ("payload", "param"):
        if ty in TAINT_TYPES or ty.startswith("&str") or ty == "&'a str":
            return [canon(h)]
        if k == "param" and ("AsRef<str>" in ty or ty in ("S", "&S")):
            return [canon(h)]
        if TAINT_CARRIERS and any(re.search(r"\b%s\b" % re.escape(c_), ty) for c_ in TAINT_CARRIERS):
            # a structured value holding user text (a format element list, an action, …) used as a whole
            return [canon(h)]
        return []
    if k == "contains_any":
        return []
    if k == "cast" and norm_ty(h.get("to") or ty) in ("u8", "u16", "u32", "u64", "u128", "usize", "i8", "i16", "i32", "i64", "i128", "isize"):
        # an integer is rendered with digits (or hex digits) only: whatever it was computed from, its text is not user text
        return []
    if k in ("call", "mcall", "cast", "expr", "unwrap", "proj", "debug", "matched", "some-of"):
        out = []
        if k == "call" and TAINT_CARRIERS:
            # a value of a text-carrying type of the crate that the interpreter holds only as "the result of this call" (its
            # constructor / default, not looked into, or changed afterwards by methods that were not followed): whatever text it
            # carries when it is rendered is unknown — treated as user text (fail closed)
            cal_ = str(h.get("callee") or "")
            ty_c = (h.get("ty") or "").split("<")[0] or (cal_.split("::")[-2] if cal_.count("::") >= 1 else "")
            if ty_c in TAINT_CARRIERS and cal_.split("::")[-1] in ("default", "new", "from", "try_from", "with_capacity", "clone", "into"):
                out.append(canon(h))
        for key in ("args", "operands", "key"):
            for a in h.get(key, []) or []:
                out += tainted(a, depth + 1)
        for key in ("recv", "of"):
            if isinstance(h.get(key), dict):
                out += tainted(h[key], depth + 1)
        return out
    return []
