"""Path summary of the public compile() function, computed by the emission interpreter with every local helper inlined.

Each path is: the truth value of the predicates it branched on (canonical, negations folded), the constructor of the manager,
the expression whose compile() is invoked and its arguments, and the fields of the returned CompiledExpression.  Rules about
compile() (mode choice, default print wrap, option rendering, fresh state) are stated on these paths, so that helper
extraction, branch order, `match` vs `and_then`, and renamed locals make no difference."""
import re

from . import emit, facts as F
from .facts import find_all


def compile_fn(facts):
    comp = F.api_fn(facts, "compile") or facts.fns.get("scheme::compile")
    if comp is None:
        for k, fn in facts.fns.items():
            if fn.name == "compile" and fn.impl is None and not fn.test and fn.node["vis"] == "pub":
                comp = fn
    if comp is None:
        raise F.AnchorMissing("public compile function")
    return comp


def norm_cond(cs, val):
    """('(!X)', True) -> ('X', False); outer parentheses dropped."""
    cs = cs.strip()
    while True:
        if cs.startswith("(") and cs.endswith(")") and _balanced(cs[1:-1]):
            cs = cs[1:-1].strip()
            continue
        if cs.startswith("!") and isinstance(val, bool):
            cs, val = cs[1:].strip(), (not val)
            continue
        return cs, val


def _balanced(s):
    d = 0
    for ch in s:
        if ch == "(":
            d += 1
        elif ch == ")":
            d -= 1
            if d < 0:
                return False
    return d == 0


def summary(facts):
    if getattr(facts, "_compile_summary", None) is not None:
        return facts._compile_summary
    comp = compile_fn(facts)
    it = emit.Interp(facts)
    paths = []
    for st, v in it.run_fn(comp.key):
        conds = {}
        clash = False
        for cs, val in st.conds:
            k, b = norm_cond(cs, val)
            if k in conds and conds[k] != b:
                clash = True
            conds[k] = b
        if clash:
            continue  # infeasible
        p = {"conds": conds, "unknown": list(st.unknown), "calls": [], "ret": v, "fields": None, "outcome": v.get("v") if isinstance(v, dict) else None}
        for e in st.effects:
            if e[0] == "call":
                h = e[1]
                p["calls"].append({"method": h.get("method") or h.get("callee"), "recv": h.get("recv"), "args": h.get("args", []), "hole": h})
        x = v.get("x") if isinstance(v, dict) and v.get("v") == "ok" else None
        if isinstance(x, dict) and x.get("v") == "struct":
            p["fields"] = x["fields"]
            p["struct"] = x.get("name")
        paths.append(p)
    out = {"fn": comp, "paths": paths}
    facts._compile_summary = out
    return out


def ctor_of(v):
    """Constructor call a value comes from, looking through Box::new / method receivers: 'LocalSchemeManager::default'."""
    seen = 0
    while isinstance(v, dict) and seen < 10:
        seen += 1
        if v.get("v") == "struct" and v.get("ctor"):
            return v["ctor"]  # value of a derived Default
        if v.get("kind") == "call":
            cal = v.get("callee") or ""
            if cal.split("::")[-2:] in (["Box", "new"], ["Rc", "new"]) and v.get("args"):
                v = v["args"][0]
                continue
            return cal
        if v.get("kind") == "mcall":
            v = v.get("recv")
            continue
        return None
    return None
