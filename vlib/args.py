"""Semantic description of argument sub-parsers (rename tolerant) and extraction of their tables."""
import re

from . import peg, rx
from .facts import src


def unwrap(ir):
    while ir["t"] in ("ctx", "cut"):
        ir = ir["p"]
    return ir


def single_body(fb):
    if fb["t"] == "fnbody" and not fb["steps"] and fb["tail"] is not None and not fb["unknown"] and not fb["lets"]:
        return unwrap(fb["tail"])
    return None


def flat_alts(ir):
    ir = unwrap(ir)
    if ir["t"] == "alt":
        out = []
        for a in ir["alts"]:
            out += flat_alts(a)
        return out
    return [ir]


def type_of_key(key, targs):
    if key.startswith("<") and " as " in key:
        ty = key[1:].split(" as ")[0]
        for k, v in (targs or {}).items():
            ty = ty.replace("<%s>" % k, "<%s>" % v)
        return ty
    return key.split("::")[-1]


def comparison_shape(g, fb, scope):
    """alt[ map(seq[~'+',D], |v| Cmp::GreaterThan(v.into())), map(seq[~'-',D], ..), map(cut(D), ..) ]
    -> dict(table={sign: ctor}, inners=[ref nodes], order=[signs], into=[bool]) or None"""
    body = single_body(fb)
    if body is None or body["t"] != "alt":
        return None
    table, inners, order, intos = {}, [], [], []
    for a in body["alts"]:
        a = unwrap(a)
        if a["t"] != "map":
            return None
        inner = unwrap(a["p"])
        sign = ""
        if inner["t"] == "seq" and len(inner["items"]) == 2 and not inner["items"][0]["keep"] and unwrap(inner["items"][0]["p"])["t"] == "lit":
            sign = unwrap(inner["items"][0]["p"])["s"]
            inner = unwrap(inner["items"][1]["p"])
        if inner["t"] != "ref":
            return None
        f = a["f"]
        ctor, into = None, False
        if f["k"] == "closure" and len(f["params"]) == 1:
            pn = rx.closure_params(f)[0].get("name")
            chain, args = rx.ctor_chain(rx.closure_body(f))
            if chain and len(chain) == 2 and chain[1].split("::")[-1] in ("from", "into") and args is not None and len(args) == 1:
                # Comparison::X(T::from(v)) — the conversion is the `into()` of the other spelling
                chain = chain[:1]
            if chain and args is not None and len(args) == 1:
                ctor = rx.canon_path(chain[-1], scope)
                a0 = args[0]
                if a0["k"] == "mcall" and a0["m"] == "into" and rx.is_var(a0["recv"], pn):
                    into = True
                elif rx.is_var(a0, pn):
                    into = True
        elif f["k"] == "path":
            ctor = rx.canon_path("::".join(f["segs"]), scope)
            into = True
        if sign in table:
            return None
        table[sign] = ctor
        inners.append(inner)
        order.append(sign)
        intos.append(into)
    return dict(table=table, inners=inners, order=order, into=intos)


def arg_sem(g, n, scope, depth=0):
    n = unwrap(n)
    t = n["t"]
    if depth > 10:
        return "?"
    if t == "andthen":
        return "%s>>%s" % (arg_sem(g, n["outer"], scope, depth + 1), arg_sem(g, n["inner"], scope, depth + 1))
    if t == "seq":
        return ",".join(arg_sem(g, i["p"], scope, depth + 1) for i in n["items"] if i["keep"])
    if t == "ref":
        fb = g.deref(n)
        if fb.get("returns_parser"):
            return "word"
        body = single_body(fb)
        if body is not None and body["t"] == "ref":
            r = arg_sem(g, body, scope, depth + 1)
            if n["fn"].startswith("<") and not body["fn"].startswith("<") and r == type_of_key(body["fn"], body.get("targs")):
                # `impl Parseable for u32 { parse = unsigned::<u32> }`: nothing more specific was learned from the generic
                # helper, the meaning is "the parser of this type"
                return type_of_key(n["fn"], n.get("targs"))
            return r
        if body is not None and body["t"] in ("andthen", "seq") and not n["fn"].startswith("<"):
            # a free helper function that only names a composite argument parser is described by its body
            return arg_sem(g, body, scope, depth + 1)
        cs = comparison_shape(g, fb, scope)
        if cs is not None and set(cs["table"]) == {"+", "-", ""}:
            inn = {arg_sem(g, i, scope, depth + 1) for i in cs["inners"]}
            return "cmp(%s)" % "|".join(sorted(inn))
        inner = None
        if body is not None and body["t"] == "map" and unwrap(body["p"])["t"] == "ref" and unwrap(body["p"]).get("extra"):
            inner = unwrap(body["p"])
        elif fb.get("t") == "fnbody" and len(fb["steps"]) == 1 and not fb["unknown"] and not fb["lets"] and fb["tail"] is None and fb["ret"] is not None and unwrap(fb["steps"][0]["p"])["t"] == "ref" and unwrap(fb["steps"][0]["p"]).get("extra"):
            # `let spec = TimeSpec::parse(input, DEFAULT)?; Ok(Wrapper(spec, ..))`
            inner = unwrap(fb["steps"][0]["p"])
        if inner is not None:
            ex = inner["extra"]
            d = rx.path_str(ex[0]) if len(ex) == 1 else None
            if d and "::" in d and d.split("::")[0] in (n.get("targs") or {}):
                # the default named through a type parameter of the wrapper (`U::wrap` with U = Minutes): the trait function
                # of that type; when it only applies a constructor to its argument it stands for that constructor
                ty0 = (n.get("targs") or {})[d.split("::")[0]]
                cands = [k_ for k_ in g.b.facts.fns if re.match(r"<%s as \w+>::%s$" % (re.escape(ty0), re.escape(d.split("::")[-1])), k_)]
                if len(cands) == 1:
                    f_ = g.b.facts.fns[cands[0]]
                    t_ = rx.tail_expr(f_.body)
                    if t_ is not None and len(f_.body["stmts"]) == 1 and t_["k"] == "call" and t_["f"]["k"] == "path" and len(t_["args"]) == 1 and len(f_.params) == 1 and rx.is_var(t_["args"][0], f_.params[0][0]):
                        d = "::".join(t_["f"]["segs"])
            return "%s/default=%s" % (type_of_key(inner["fn"], inner.get("targs")), rx.canon_path(d, scope) if d else src(ex))
        return type_of_key(n["fn"], n.get("targs"))
    return peg.show(n)


def match_table(f, scope, want_params=None):
    """closure `|x| match x {'b' => Size::Block(..), ..}` or `|(num, unit)| match unit {..}` ->
    (table {literal: ctor}, catchall_bodies, scrutinee-name, payload-ok)"""
    if f["k"] != "closure":
        return None
    body = rx.closure_body(f)
    if body["k"] != "match":
        return None
    scr = rx.var_name(body["scrut"])
    params = []
    for p in rx.closure_params(f):
        params += rx.pat_bindings(p)
    table, other, payload_ok = {}, [], True
    for arm in body["arms"]:
        for p in rx.pat_cases(arm["pat"]):
            if p["k"] == "lit":
                chain, args = rx.ctor_chain(arm["body"])
                ctor = rx.canon_path(chain[-1], scope) if chain else (rx.canon_path(rx.path_str(arm["body"]), scope) if rx.path_str(arm["body"]) else None)
                table[p["v"]] = ctor
                if args:
                    # payload must be the *other* closure parameter(s), unchanged
                    for a in args:
                        if rx.var_name(a) not in params or rx.var_name(a) == scr:
                            payload_ok = False
            else:
                other.append((p, arm["body"]))
    return table, other, scr, payload_ok


def open_alt(g, a, facts=None):
    """An alternative given by name (`alt((with_unit, ..))`) stands for the body of that function. -> (node, module)"""
    a = unwrap(a)
    module = None
    hops = 0
    while a["t"] == "ref" and hops < 4 and not a.get("extra"):
        fb = g.deref(a)
        b = single_body(fb)
        if b is None:
            break
        if facts is not None and a["fn"] in facts.fns:
            module = tuple(facts.fns[a["fn"]].module)
        a = b
        hops += 1
    return a, module


def value_table(g, facts, a, scope, module):
    """`a` = map(P, F) where P reads a number and/or one character of a finite set: the value built for every character,
    decided by evaluating F (and the character's own value function, if it has one) — whatever way F is written.
    -> dict(table={char: ctor}, payload_ok, chars, one, problems) or None when `a` does not have that shape."""
    from . import probe as P

    if a["t"] != "map":
        return None
    inner = unwrap(a["p"])
    items = [unwrap(i["p"]) for i in inner["items"] if i["keep"]] if inner["t"] == "seq" else [inner]
    tupled = inner["t"] == "seq" and len(items) > 1
    chars = [i for i in items if i["t"] == "set" and i["cs"][0] == "in" and i.get("max") == 1 and i.get("min") == 1]
    lit_values = None
    if not chars and len(items) <= 2:
        # the character read by a parser of its own that yields a value per letter: `alt(('s'.value(A), 'm'.value(B), ..))`,
        # possibly behind a named function
        for it_ in items:
            n_ = it_
            mod_ = None
            if n_["t"] == "ref" and not n_.get("extra"):
                sb_ = single_body(g.deref(n_))
                mod_ = tuple(facts.fns[n_["fn"]].module) if n_["fn"] in facts.fns else None
                n_ = unwrap(sb_) if sb_ is not None else n_
            if n_["t"] == "alt":
                rows = []
                for x_ in flat_alts(n_):
                    x_ = unwrap(x_)
                    if x_["t"] == "value" and unwrap(x_["p"])["t"] == "lit" and len(unwrap(x_["p"])["s"]) == 1 and x_.get("v") is not None:
                        rows.append((unwrap(x_["p"])["s"], x_["v"]))
                    else:
                        rows = None
                        break
                if rows:
                    lit_values = (it_, rows, mod_)
                    chars = [dict(it_, cs=("in", frozenset(ch for ch, _ in rows)), one=True)]
                    items = [chars[0] if i is it_ else i for i in items]
                    break
    if len(chars) != 1 or len(items) > 2:
        return None
    cn = chars[0]
    NUM = P.Opq("the number read")
    pr = P.Probe(facts, None, module or ())
    table, probs, payload_ok = {}, [], True
    try:
        fv = pr.ev(a["f"], {})
        vm = None
        if cn.get("vmap") is not None:
            vm = P.Probe(facts, None, cn.get("vmod") or module or ())
            vfn = vm.ev(cn["vmap"], {})
        lit_tab = {}
        if lit_values is not None:
            pl = P.Probe(facts, None, lit_values[2] or module or ())
            for ch_, vx_ in lit_values[1]:
                if ch_ in lit_tab:
                    probs.append("%r: listed twice" % ch_)
                lit_tab.setdefault(ch_, pl.ev(vx_, {}))
        for ch in sorted(cn["cs"][1]):
            v = lit_tab.get(ch, ch)
            if vm is not None:
                r = vm.apply(vfn, [ch])
                if not (isinstance(r, tuple) and r and r[0] == "some"):
                    probs.append("%r: no value" % ch)
                    continue
                v = r[1]
            vals = [v if i is cn else NUM for i in items]
            try:
                out = pr.apply(fv, [vals if tupled else vals[0]])
            except P.NoEval as ex:
                probs.append("%r: %s" % (ch, ex))
                continue
            if isinstance(out, tuple) and out and out[0] == "enum":
                table[ch] = rx.canon_path(out[1], scope)
                want = [NUM] if len(items) == 2 else []
                if len(out[2]) != len(want) or any(x is not y for x, y in zip(out[2], want)):
                    payload_ok = False
            else:
                probs.append("%r: value %r" % (ch, out))
    except P.NoEval as ex:
        probs.append(str(ex))
    return dict(table=table, payload_ok=payload_ok, chars="".join(sorted(cn["cs"][1])), one=bool(cn.get("one")), problems=probs, numbered=len(items) == 2)
