"""Character-map functions: discovery and verification by abstract evaluation.

A *character map* is a function `(&str) -> String` whose result is the concatenation, over the characters of its argument in
order, of a string that depends only on that character.  Escaping helpers are character maps.  They are not named in any
table: every function of that signature in the crate is evaluated, per probe character, over the statement forms escaping
helpers are written in (a `for` over `.chars()` pushing into a String, `.chars().map(..).collect()`, `match`/`if let`/`if`
on the character, `.replace(a, b)` chains over another character map), and the ones that evaluate completely are recorded
with their map.  The probe set is every character literal of the function (and of the maps it composes) plus one symbolic
character standing for "any other character"; a function is accepted only if the symbolic character is passed through
unchanged, so the recorded map is the function's exact meaning on every string.
"""
from . import rx
from .facts import find_all, norm_ty, src

OTHER = ""  # symbolic "any character not written in the function"
BASE_PROBES = ['"', "\\", "~", "a", " ", "\n"]


class Unknown(Exception):
    pass


def _lits(node):
    out = set()
    for n in find_all(node, lambda n: n.get("k") == "lit" and n.get("t") in ("char", "str")):
        if n["t"] == "char":
            out.add(n["v"])
        else:
            out.update(n["v"])
    for n in find_all(node, lambda n: n.get("k") == "lit" and n.get("t") == "char" or (n.get("k") == "lit" and "v" in n and isinstance(n.get("v"), str) and len(n["v"]) == 1)):
        out.add(n["v"])
    return out


def _pat_lits(node):
    out = set()

    def w(p):
        if isinstance(p, dict):
            if p.get("k") == "lit" and isinstance(p.get("v"), str):
                out.update(p["v"])
            for v in p.values():
                w(v)
        elif isinstance(p, list):
            for v in p:
                w(v)

    w(node)
    return out


class Eval:
    def __init__(self, cname, probe, out=None):
        self.names = {cname}
        self.c = probe
        self.out = out
        self.pieces = []

    # patterns ---------------------------------------------------------
    def pmatch(self, p):
        k = p["k"]
        if k in ("ref", "typed"):
            return self.pmatch(p["pat"])
        if k == "wild":
            return True
        if k == "ident":
            if p.get("sub"):
                r = self.pmatch(p["sub"])
                if r:
                    self.names.add(p["name"])
                return r
            self.names.add(p["name"])
            return True
        if k == "or":
            return any(self.pmatch(x) for x in p["cases"])
        if k == "lit":
            if p.get("t") == "char" or (isinstance(p.get("v"), str) and len(p["v"]) == 1):
                return self.c == p["v"]
            raise Unknown("literal pattern %s" % p.get("v"))
        if k == "range":
            if self.c == OTHER:
                raise Unknown("range pattern on the symbolic character")
            lo, hi = p.get("lo"), p.get("hi")
            try:
                return lo["v"] <= self.c <= hi["v"]
            except Exception:
                raise Unknown("range pattern")
        raise Unknown("pattern %s" % k)

    # conditions -------------------------------------------------------
    def cond(self, e):
        e = rx.peel(e)
        k = e["k"]
        if k == "paren":
            return self.cond(e["e"])
        if k == "binary":
            if e["op"] == "||":
                return self.cond(e["lhs"]) or self.cond(e["rhs"])
            if e["op"] == "&&":
                return self.cond(e["lhs"]) and self.cond(e["rhs"])
            if e["op"] in ("==", "!="):
                a, b = rx.peel(e["lhs"]), rx.peel(e["rhs"])
                if self.isc(b):
                    a, b = b, a
                if self.isc(a) and b.get("k") == "lit" and b.get("t") == "char":
                    r = self.c == b["v"]
                    return r if e["op"] == "==" else not r
            raise Unknown("comparison %s" % src(e)[:40])
        if k == "unary" and e["op"] == "!":
            return not self.cond(e["e"])
        if k == "letexpr":
            if not self.isc(e["e"]):
                raise Unknown("if let on %s" % src(e["e"])[:30])
            return self.pmatch(e["pat"])
        if k == "macro" and e["name"] == "matches":
            if not self.isc(e["e"]) or e.get("guard"):
                raise Unknown("matches! on something else")
            return self.pmatch(e["pat"])
        if k == "mcall" and e["m"] == "contains" and len(e["args"]) == 1 and self.isc(e["args"][0]):
            r = rx.peel(e["recv"])
            if r.get("k") == "lit" and r.get("t") == "str":
                return self.c in r["v"]
            if r.get("k") in ("array", "tuple") or (r.get("k") == "macro" and r["name"] == "vec"):
                raise Unknown("array contains")
        raise Unknown("condition %s" % src(e)[:40])

    def isc(self, e):
        e = rx.peel(e)
        return e.get("k") == "path" and len(e["segs"]) == 1 and e["segs"][0] in self.names

    # values (string-valued expressions) ------------------------------------
    def value(self, e):
        e = rx.peel(e)
        k = e["k"]
        if self.isc(e):
            return [self.c]
        if k == "lit" and e.get("t") in ("char", "str"):
            return list(e["v"])
        if k == "block":
            st = rx.stmts_of(e)
            if len(st) == 1 and st[0]["k"] == "expr" and not st[0].get("semi"):
                return self.value(st[0]["e"])
            raise Unknown("block value")
        if k == "match":
            if not self.isc(e["scrut"]):
                raise Unknown("match on %s" % src(e["scrut"])[:30])
            for arm in e["arms"]:
                if arm.get("guard"):
                    raise Unknown("guard")
                if self.pmatch(arm["pat"]):
                    return self.value(arm["body"])
            raise Unknown("no arm")
        if k == "if":
            if self.cond(e["cond"]):
                return self.value(e["then"])
            if e.get("else") is None:
                raise Unknown("if without else as a value")
            return self.value(e["else"])
        if k == "mcall" and e["m"] in ("to_string", "to_owned", "into", "clone") and not e["args"]:
            return self.value(e["recv"])
        if k == "call" and e["f"]["k"] == "path" and e["f"]["segs"][-1] in ("from", "String") and len(e["args"]) == 1:
            return self.value(e["args"][0])
        if k == "macro" and e["name"] == "format" and e.get("args"):
            fmt = e["args"][0]
            if fmt.get("k") == "lit" and fmt.get("t") == "str":
                return self.format(fmt["v"], e["args"][1:])
        if k == "array" or (k == "macro" and e["name"] == "vec"):
            out = []
            for a in e.get("elems", e.get("args", [])):
                out += self.value(a)
            return out
        raise Unknown("value %s" % src(e)[:40])

    def format(self, fmt, args):
        out, i, ai = [], 0, 0
        while i < len(fmt):
            ch = fmt[i]
            if ch == "{":
                if fmt[i + 1 : i + 2] == "{":
                    out.append("{")
                    i += 2
                    continue
                j = fmt.index("}", i)
                name = fmt[i + 1 : j]
                if name == "":
                    if ai >= len(args):
                        raise Unknown("format arity")
                    out += self.value(args[ai])
                    ai += 1
                elif name in self.names:
                    out.append(self.c)
                else:
                    raise Unknown("format hole {%s}" % name)
                i = j + 1
                continue
            if ch == "}" and fmt[i + 1 : i + 2] == "}":
                out.append("}")
                i += 2
                continue
            out.append(ch)
            i += 1
        return out

    # statements pushing into OUT --------------------------------------------
    def run(self, body):
        for st in rx.stmts_of(body):
            if st["k"] == "expr":
                self.stmt(st["e"])
            elif st["k"] in ("item",):
                continue
            else:
                raise Unknown("statement %s" % st["k"])

    def stmt(self, e):
        k = e["k"]
        if k == "block":
            return self.run(e)
        if k == "mcall" and e["m"] in ("push", "push_str") and len(e["args"]) == 1 and rx.is_var(e["recv"], self.out):
            self.pieces += self.value(e["args"][0])
            return
        if k == "match":
            if not self.isc(e["scrut"]):
                raise Unknown("match on %s" % src(e["scrut"])[:30])
            for arm in e["arms"]:
                if arm.get("guard"):
                    raise Unknown("guard")
                if self.pmatch(arm["pat"]):
                    return self.stmt(arm["body"])
            raise Unknown("no arm")
        if k == "if":
            if self.cond(e["cond"]):
                return self.run(e["then"])
            if e.get("else") is not None:
                return self.stmt(e["else"])
            return
        if k == "macro" and e["name"] in ("write",) and e.get("args") and rx.is_var(e["args"][0], self.out):
            fmt = e["args"][1]
            if fmt.get("k") == "lit":
                self.pieces += self.format(fmt["v"], e["args"][2:])
                return
        raise Unknown("statement %s" % src(e)[:50])


def _string_param(fn):
    ps = [(n, t) for n, t in fn.params if n != "self"]
    if fn.node.get("self") is not None or len(ps) != 1 or ps[0][0] is None:
        return None
    ty = ps[0][1]
    gen = fn.node.get("generics") or ""
    if ty in ("&str", "&String", "&'_str", "String") or ("AsRef<str>" in gen and ty in gen):
        return ps[0][0]
    return None


def _per_char(fn, pname, probes, known, module_resolver, facts=None):
    """-> {probe: string} or raises Unknown."""
    body = fn.body
    stmts = rx.stmts_of(body)
    tail = rx.tail_expr(body)
    if tail is None:
        raise Unknown("no tail expression")
    # shape C: composition  inner(param).replace(a, b)...
    base, chain = rx.method_chain(tail)
    if len(stmts) == 1 and base["k"] == "call" and base["f"]["k"] == "path" and len(base["args"]) == 1:
        a0 = rx.peel(base["args"][0])
        if a0.get("k") == "mcall" and a0["m"] in ("as_ref", "as_str") and not a0["args"]:
            a0 = rx.peel(a0["recv"])
        inner = module_resolver(base["f"])
        if inner is not None and inner in known and rx.is_var(a0, pname):
            res = {}
            for p in probes:
                s = known[inner]["eval"](p)
                for m, a, _ in chain:
                    if m in ("to_string", "to_owned", "into") and not a:
                        continue
                    if m != "replace" or len(a) != 2:
                        raise Unknown("step .%s" % m)
                    x, y = rx.peel(a[0]), rx.peel(a[1])
                    if not (x.get("k") == "lit" and len(x["v"]) == 1 and y.get("k") == "lit" and y.get("t") == "str"):
                        raise Unknown("replace arguments")
                    s2 = []
                    for ch in s:
                        s2 += list(y["v"]) if ch == x["v"] else [ch]
                    s = s2
                res[p] = s
            return res
    # locate the traversal
    def chars_of_param(e):
        e = rx.peel(e)
        if e.get("k") == "mcall" and e["m"] == "chars" and not e["args"]:
            r = rx.peel(e["recv"])
            if r.get("k") == "mcall" and r["m"] in ("as_ref", "as_str") and not r["args"]:
                r = rx.peel(r["recv"])
            return rx.is_var(r, pname)
        return False

    # shape A: let mut out = String::..; for c in p.chars() { BODY }; out
    outname = rx.var_name(tail)
    if outname is not None:
        lets = [s for s in stmts if s["k"] == "let" and s["pat"].get("name") == outname]
        fors = [s["e"] for s in stmts if s["k"] == "expr" and s["e"]["k"] == "for"]
        others = [s for s in stmts[:-1] if s not in lets and not (s["k"] == "expr" and s["e"]["k"] == "for")]
        if len(lets) == 1 and len(fors) == 1 and not others and chars_of_param(fors[0]["iter"]):
            init = rx.peel(lets[0]["init"])
            if not (init.get("k") == "call" and init["f"]["k"] == "path" and init["f"]["segs"][0] == "String" and init["f"]["segs"][-1] in ("new", "with_capacity")):
                raise Unknown("accumulator initialiser %s" % src(init)[:40])
            pat = fors[0]["pat"]
            while pat["k"] in ("typed", "ref"):
                pat = pat["pat"]
            if pat["k"] != "ident":
                raise Unknown("loop pattern")
            res = {}
            for p in probes:
                ev = Eval(pat["name"], p, outname)
                ev.run(fors[0]["body"])
                res[p] = ev.pieces
            return res
    # shape B: p.chars().map(|c| V).collect() / flat_map
    if len(stmts) == 1:
        base, chain = rx.method_chain(tail)
        ms = [m for m, _, _ in chain]
        if ms[:1] == ["chars"] or (ms[:2] in (["as_ref", "chars"], ["as_str", "chars"])):
            i = ms.index("chars")
            if rx.is_var(base, pname) and ms[i + 1 :] in (["map", "collect"], ["flat_map", "collect"]):
                clo = chain[i + 1][1][0]
                if clo["k"] == "closure" and len(clo["params"]) == 1:
                    cp = rx.closure_params(clo)[0]
                    if cp["k"] == "ident":
                        res = {}
                        try:
                            for p in probes:
                                ev = Eval(cp["name"], p)
                                res[p] = ev.value(clo["body"])
                            return res
                        except Unknown:
                            if facts is None:
                                raise
                        # the per-character closure is written with iterator adaptors, Option combinators, local
                        # bindings…: evaluate it (vlib/probe.py) on each probe character; "any other character" is
                        # represented by a character the crate never writes
                        from . import probe as P

                        OTHER_REP = "\ue000"
                        pr = P.Probe(facts, None, fn.module)
                        res = {}
                        try:
                            fv = pr.ev(clo, {})
                            for p in probes:
                                r_ = pr.apply(fv, [OTHER_REP if p == OTHER else p])
                                if r_ is None or (isinstance(r_, tuple) and r_ and r_[0] == "some"):
                                    r_ = [] if r_ is None else [r_[1]]
                                if isinstance(r_, str):
                                    r_ = list(r_)
                                if not isinstance(r_, list) or not all(isinstance(x, str) for x in r_):
                                    raise Unknown("per-character value %r" % (r_,))
                                flat = []
                                for x in r_:
                                    flat += list(x)
                                res[p] = [OTHER if x == OTHER_REP else x for x in flat]
                            return res
                        except (P.NoEval, P.Panic) as ex:
                            raise Unknown("per-character closure: %s" % ex)
    # shape D: p.chars().fold(String::new(), |mut acc, c| { ..; acc }) — the step applied to an empty accumulator gives the
    # piece for that character (evaluated, vlib/probe.py); that the step only *appends* is checked by applying it to a
    # non-empty accumulator as well
    if len(stmts) == 1 and facts is not None:
        base, chain = rx.method_chain(tail)
        ms = [m for m, _, _ in chain]
        if rx.is_var(base, pname) and (ms in (["chars", "fold"], ["as_ref", "chars", "fold"], ["as_str", "chars", "fold"])):
            fargs = chain[-1][1]
            if len(fargs) == 2 and fargs[1]["k"] == "closure" and len(fargs[1]["params"]) == 2:
                from . import probe as P

                OTHER_REP = "\ue000"
                pr = P.Probe(facts, None, fn.module)
                res = {}
                try:
                    init = pr.ev(fargs[0], {pname: ""})
                    if init != "":
                        raise Unknown("fold does not start from an empty string")
                    fv = pr.ev(fargs[1], {})
                    for p in probes:
                        ch = OTHER_REP if p == OTHER else p
                        r0 = pr.apply(fv, ["", ch])
                        r1 = pr.apply(fv, ["\ue001\ue002", ch])
                        if not (isinstance(r0, str) and isinstance(r1, str) and r1 == "\ue001\ue002" + r0):
                            raise Unknown("the fold step does not append a piece that depends on the character only")
                        res[p] = [OTHER if x == OTHER_REP else x for x in r0]
                    return res
                except (P.NoEval, P.Panic) as ex:
                    raise Unknown("fold step: %s" % ex)
    raise Unknown("function shape")


def discover(facts):
    """{fn key: {"map": {char: replacement}, "detail": str, "eval": f}} for every verified character map of the crate."""
    if getattr(facts, "_charmaps", None) is not None:
        return facts._charmaps
    cands = {}
    for key, fn in facts.fns.items():
        if fn.test or fn.body is None or norm_ty(fn.node.get("output") or "") != "String":
            continue
        pn = _string_param(fn)
        if pn is not None:
            cands[key] = (fn, pn)
    known = {}
    rejected = {}

    def resolver_for(fn):
        def r(path):
            segs = path["segs"]
            name = segs[-1]
            hits = [k for k in cands if k.split("::")[-1] == name]
            if len(segs) == 1:
                same = [k for k in hits if facts.fns[k].module == fn.module]
                if same:
                    return same[0]
            if len(hits) == 1:
                return hits[0]
            return None

        return r

    for _round in range(3):
        for key, (fn, pn) in cands.items():
            if key in known:
                continue
            probes = sorted(set(BASE_PROBES) | _lits(fn.body) | _pat_lits(fn.body) | {c for k in known for c in known[k]["probes"]}) + [OTHER]
            try:
                res = _per_char(fn, pn, probes, known, resolver_for(fn), facts)
            except Unknown as e:
                rejected[key] = str(e)
                continue
            if res.get(OTHER) != [OTHER]:
                rejected[key] = "a character not written in the function is not passed through unchanged"
                continue
            mp = {p: "".join(res[p]) for p in probes if p != OTHER and "".join(res[p]) != p}
            if any(OTHER in v for v in mp.values()):
                rejected[key] = "symbolic character leaked"
                continue

            def ev(p, res=res):
                return list(res[p]) if p in res else [p]

            known[key] = {"map": mp, "probes": set(probes) - {OTHER}, "eval": ev, "detail": "%s maps %s and passes every other character through" % (key, mp)}
            rejected.pop(key, None)
    facts._charmaps = known
    facts._charmaps_rejected = rejected
    return known
