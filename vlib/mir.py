"""E2 fact loading: run the rustc_private driver (engines/mir-facts) over /repo under `cargo +nightly check`.

Facts are cached under /verif/.cache keyed by the SHA-256 of every source file, Cargo.toml, Cargo.lock and the
build configuration; a key mismatch rebuilds. The dependency artefacts are kept in a per-configuration target
directory under /verif/.cache; the workspace member's fingerprint is deleted before each run so that cargo
re-invokes the wrapper, and the run asserts that the fact file was (re)written."""
import glob
import hashlib
import json
import os
import shutil
import subprocess
import time

from . import facts as F

DRV = os.path.join(F.VERIF, "engines/mir-facts/target/release/mir-facts")
CACHE = os.path.join(F.VERIF, ".cache")
CRATE = "lipe_find_parser"


def ensure_built():
    if not os.path.exists(DRV):
        env = dict(os.environ, CARGO_NET_OFFLINE="true")
        subprocess.run(["cargo", "+nightly", "build", "--release", "--offline"], cwd=os.path.join(F.VERIF, "engines/mir-facts"), env=env, check=True, stdout=subprocess.DEVNULL, stderr=subprocess.DEVNULL)


def src_hash(repo, cfg):
    h = hashlib.sha256()
    files = sorted(glob.glob(os.path.join(repo, "src", "**", "*.rs"), recursive=True)) + [os.path.join(repo, "Cargo.toml"), os.path.join(repo, "Cargo.lock")]
    for p in files:
        h.update(p[len(repo) :].encode())
        try:
            h.update(open(p, "rb").read())
        except OSError:
            h.update(b"<missing>")
    h.update(repr(sorted(cfg.items())).encode())
    try:
        h.update(str(os.path.getmtime(DRV)).encode())
    except OSError:
        pass
    return h.hexdigest()[:24]


def sysroot():
    return subprocess.run(["rustc", "+nightly", "--print", "sysroot"], capture_output=True, text=True, check=True).stdout.strip()


_MEM = {}


def load(debug_assertions=True, repo=None):
    repo = repo or F.REPO
    if debug_assertions is True and not F.CONFIG["debug_assertions"]:
        debug_assertions = False  # the rules are being run for the release profile: "the build" is the one without debug assertions
    cfg = {"debug_assertions": bool(debug_assertions), "overflow_checks": True}
    key = src_hash(repo, cfg)
    if key in _MEM:
        return _MEM[key]
    os.makedirs(CACHE, exist_ok=True)
    fpath = os.path.join(CACHE, "mir-%s.json" % key)
    if not os.path.exists(fpath):
        build(repo, cfg, fpath)
        # keep the cache small
        olds = sorted(glob.glob(os.path.join(CACHE, "mir-*.json")), key=os.path.getmtime)
        for o in olds[:-12]:
            try:
                os.remove(o)
            except OSError:
                pass
    data = json.load(open(fpath))
    m = Mir(data, repo)
    _MEM[key] = m
    return m


def build(repo, cfg, fpath):
    """Serialised per target directory (checks may be run concurrently)."""
    import fcntl

    ensure_built()
    tdir = os.path.join(CACHE, "target-da%d" % (1 if cfg["debug_assertions"] else 0))
    os.makedirs(CACHE, exist_ok=True)
    with open(tdir + ".lock", "w") as lk:
        fcntl.flock(lk, fcntl.LOCK_EX)
        try:
            if os.path.exists(fpath):
                return
            _build_locked(repo, cfg, fpath, tdir)
        finally:
            fcntl.flock(lk, fcntl.LOCK_UN)


def _build_locked(repo, cfg, fpath, tdir):
    tmp_out = fpath + ".tmp.%d" % os.getpid()
    env = dict(os.environ)
    env.update(
        CARGO_NET_OFFLINE="true",
        LD_LIBRARY_PATH=os.path.join(sysroot(), "lib") + ":" + env.get("LD_LIBRARY_PATH", ""),
        RUSTC_WORKSPACE_WRAPPER=DRV,
        CARGO_TARGET_DIR=tdir,
        RUSTFLAGS="-Zmir-opt-level=0 -Awarnings -Coverflow-checks=on -Cdebug-assertions=%s" % ("on" if cfg["debug_assertions"] else "off"),
        MIR_FACTS_OUT=tmp_out,
        MIR_FACTS_CRATE=CRATE,
    )
    for attempt in (0, 1):
        for fp in glob.glob(os.path.join(tdir, "debug", ".fingerprint", "lipe-find-parser-*")):
            shutil.rmtree(fp, ignore_errors=True)
        if os.path.exists(tmp_out):
            os.remove(tmp_out)
        p = subprocess.run(["cargo", "+nightly", "check", "--offline", "--lib", "--quiet"], cwd=repo, env=env, capture_output=True, text=True)
        if os.path.exists(tmp_out):
            os.replace(tmp_out, fpath)
            return
        if attempt == 0:
            shutil.rmtree(tdir, ignore_errors=True)
    raise F.AnchorMissing("MIR facts: `cargo +nightly check` did not produce the fact file (the tree does not compile?): %s" % (p.stderr.strip().splitlines()[-3:] if p.stderr else p.returncode))


class Mir:
    def __init__(self, data, repo):
        self.data = data
        self.repo = repo
        self.bodies = {b["path"]: b for b in data["bodies"]}
        self.adts = {a["path"]: a for a in data["adts"]}
        self.statics = data["statics"]
        # closures belong to the body that constructs them
        self.parent = {}
        for b in data["bodies"]:
            for cl in b["closures"]:
                self.parent[cl] = b["path"]

    def callees(self, path):
        b = self.bodies.get(path)
        if b is None:
            return []
        out = []
        for c in b["calls"]:
            out.append(c["resolved"] or c["callee"])
        return out + list(b["closures"])

    def reachable(self, roots):
        """Transitive closure over local bodies (calls resolved; virtual calls go to every local impl of the trait method)."""
        seen, todo = set(), [r for r in roots if r in self.bodies]
        impls = {}
        for p in self.bodies:
            # "<T as Trait>::m" -> Trait::m
            if p.startswith("<") and " as " in p:
                tr = p.split(" as ", 1)[1]
                trait, _, meth = tr.rpartition(">::")
                impls.setdefault("%s::%s" % (trait, meth), []).append(p)
            else:
                # the other spelling rustc uses for an impl that is not in the module of its self type:
                # `module::<impl Trait for Type>::method`
                mi = _re.match(r"^(?:.*::)?<impl (.+?) for .+>::(\w+)$", p)
                if mi:
                    impls.setdefault("%s::%s" % (mi.group(1), mi.group(2)), []).append(p)
        while todo:
            x = todo.pop()
            if x in seen:
                continue
            seen.add(x)
            b = self.bodies[x]
            for c in b["calls"]:
                tgt = c["resolved"] or c["callee"]
                cands = [tgt]
                if c["virtual"] or not c["resolved"]:
                    cands += impls.get(c["callee"], [])
                    # trait-path form without self type
                    short = c["callee"].split("::")
                    for k, v in impls.items():
                        if k.split("::")[-1] == short[-1] and k.split("::")[-2:-1] == short[-2:-1]:
                            cands += v
                for t in cands:
                    if t in self.bodies and t not in seen:
                        todo.append(t)
            for cl in list(b["closures"]) + list(b.get("fnrefs", [])):
                if cl in self.bodies and cl not in seen:
                    todo.append(cl)
                elif cl not in self.bodies:
                    # a trait method mentioned as a value (D::parse): every local impl
                    for t in impls.get(cl, []):
                        if t not in seen:
                            todo.append(t)
        return seen

    def owner(self, path):
        """The named fn a closure belongs to."""
        while path in self.parent:
            path = self.parent[path]
        return path


# ------------------------------------------------------------------ MIR path -> E1 function key
import re as _re


def _short_ty(t):
    """ast::Comparison<P> -> Comparison<P>; std::vec::Vec<ast::FileType> -> Vec<FileType>; &[find_parser::Token] kept readable"""
    return _re.sub(r"(?:[a-z_][a-z0-9_]*::)+", "", t)


def e1_key(path, facts):
    """Map a MIR def path (closures folded into their owner) to the E1 key of the enclosing fn, or None."""
    p = _re.sub(r"(::\{closure#\d+\})+$", "", path)
    m = _re.match(r"^(?:.*::)?<impl (.+?) for (.+)>::(\w+)$", p)
    if m:
        tr, ty, meth = _short_ty(m.group(1)), _short_ty(m.group(2)), m.group(3)
        k = "<%s as %s>::%s" % (ty.replace(" ", ""), tr.replace(" ", ""), meth)
        return _best(k, facts)
    m = _re.match(r"^(?:.*::)?<impl (.+)>::(\w+)$", p)
    if m:
        return _best("%s::%s" % (_short_ty(m.group(1)).replace(" ", ""), m.group(2)), facts)
    m = _re.match(r"^<(.+) as (.+)>::(\w+)$", p)
    if m:
        k = "<%s as %s>::%s" % (_short_ty(m.group(1)).replace(" ", ""), _short_ty(m.group(2)).replace(" ", ""), m.group(3))
        return _best(k, facts)
    if p in facts.fns:
        return p
    # Type::method with module prefix: scheme::manager::LocalSchemeManager::register_printer
    segs = p.split("::")
    if len(segs) >= 2:
        k = "::".join(segs[-2:])
        if k in facts.fns:
            return k
        # a provided method of one of the crate's traits (`module::Trait::method`, one MIR body for all implementors): any of
        # the implementors' entries stands for it, they share the body
        if segs[-2] in facts.traits:
            for cand, fn in sorted(facts.fns.items()):
                if fn.node.get("provided_by") == segs[-2] and fn.name == segs[-1]:
                    return cand
    return _best(p, facts)


def _best(k, facts):
    if k in facts.fns:
        return k
    # trait paths may be rendered with/without std prefix or generics
    base = _re.sub(r"std::[a-z_:]*", "", k)
    for cand in facts.fns:
        if cand.replace("std::fmt::", "").replace(" ", "") == base.replace(" ", ""):
            return cand
    m = _re.match(r"^<(.+) as ([A-Za-z_]+)(<.*>)?>::(\w+)$", k)
    if m:
        for cand in facts.fns:
            m2 = _re.match(r"^<(.+) as (?:[a-z_:]*)([A-Za-z_]+)(<.*>)?>::(\w+)$", cand)
            if m2 and m2.group(1) == m.group(1) and m2.group(2) == m.group(2) and m2.group(4) == m.group(4):
                return cand
    return None


ORDERED_ACC = _re.compile(r"^(std::vec::Vec<|alloc::vec::Vec<|std::string::String$|alloc::string::String$|\(\)$|usize$|std::collections::VecDeque<)")


def accumulators(m, facts):
    """[(owner E1 key or MIR path, combinator, accumulator type, ordered?)] for every winnow repeat/separated/repeat_till call
    of the crate: the collection the repeated results are gathered in (third generic argument)."""
    from . import facts as F

    out = []
    for p, b in sorted(m.bodies.items()):
        for c in b["calls"]:
            cal = c["callee"]
            if cal in ("winnow::combinator::repeat", "winnow::combinator::separated", "winnow::combinator::repeat_till"):
                g = c["generics"]
                g = g[1:-1] if g.startswith("[") and g.endswith("]") else g
                parts = F.split_generics(g.replace("[", "<").replace("]", ">"))
                acc = parts[2].strip() if len(parts) > 2 else "?"
                out.append((e1_key(p, facts) or _re.sub(r"::\{closure#\d+\}", "", p), cal.split("::")[-1], acc, bool(ORDERED_ACC.match(acc))))
    return out


def order_rule(c, facts, rule, owners, why):
    """One obligation per winnow accumulation in the given functions: results are gathered in input order."""
    m = load(True)
    n = 0
    for owner, comb, acc, ok in accumulators(m, facts):
        if owners is not None and not any(o == owner or (o.endswith("*") and owner.startswith(o[:-1])) for o in owners):
            continue
        n += 1
        c.ob(rule, owner, "%s collects into %s" % (comb, _re.sub(r"(std|alloc)::(\w+::)*", "", acc)[:50]), ok, "%s(..) in %s gathers its results in `%s` — %s: %s" % (comb, owner, acc[:90], "a sequence in input order" if ok else "NOT an order-preserving sequence: elements are reordered and/or merged", why), nontrivial=False)
    return n
