"""Keyword grammar: the flattened, ordered list of alternatives of `token`, each split into
(leading literal, rest of the alternative with cut flags, wrappers) — the substrate of C05/C06/C13/C18."""
from . import peg, rx
from .facts import src


WRAPPERS = {"String::from", "Rc::new", "Box::new", "Some", "Ok", "Arc::new", "str::to_string", "ToString::to_string"}


class AltEntry:
    def __init__(self, idx, lit, rest, labels, maps, values, site, commit, head_node, path):
        self.idx = idx
        self.lit = lit  # leading literal or None
        self.rest = rest  # list of dict(n=node, cut=bool, keep=bool)
        self.labels = labels  # ctx wrappers, innermost first: (kind, text)
        self.maps = maps  # map closures/paths, innermost first
        self.values = values  # value() arguments
        self.site = site  # fn key the alternative is written in
        self.commit = commit  # id of a committed head-alt group, or None
        self.head = head_node
        self.path = path  # chain of fn keys from token to the alternative

    def __repr__(self):
        return "Alt#%d(%r %s)" % (self.idx, self.lit, [peg.show(r["n"])[:30] for r in self.rest])


def split(g, ir, cut=False, labels=(), maps=(), values=(), site=None, commit=None, path=(), counter=None):
    """Yield alternatives in PEG priority order."""
    t = ir["t"]
    if t == "lit":
        yield dict(lit=ir["s"], rest=[], labels=labels, maps=maps, values=values, site=site, commit=commit, head=ir, path=path)
    elif t == "ctx":
        # wrappers are recorded innermost-first, so append the outer one after recursion results
        for a in split(g, ir["p"], cut, (), maps, values, site, commit, path, counter):
            a["labels"] = a["labels"] + ((ir["kind"], ir["s"]),) + labels
            yield a
    elif t == "map":
        for a in split(g, ir["p"], cut, labels, (), values, site, commit, path, counter):
            a["maps"] = a["maps"] + (ir["f"],) + maps
            yield a
    elif t == "value":
        for a in split(g, ir["p"], cut, labels, maps, (), site, commit, path, counter):
            a["values"] = a["values"] + (ir["v"],) + values
            yield a
    elif t == "cut":
        for a in split(g, ir["p"], True, labels, maps, values, site, commit, path, counter):
            yield a
    elif t == "seq" and ir.get("dispatch_arm") and len(ir["items"]) == 2:
        # an arm of dispatch!: the guard only looks at the next character (the arms exclude each other), the alternatives are
        # those of the arm's parser
        guard, body = ir["items"][0]["p"], ir["items"][1]["p"]
        gsets = []
        g.walk(guard, lambda n: gsets.append(n["cs"]) if n["t"] == "set" else None, follow=False)
        try:
            fs = g.first(body)
        except Exception:
            fs = None
        covered = fs is not None and len(gsets) == 1 and peg.cs_inter(fs, peg.cs_compl(gsets[0])) in (("in", frozenset()),)
        if covered:
            for a in split(g, body, cut, labels, maps, values, site, commit, path, counter):
                yield a
        else:
            # the guard lets through fewer characters than the arm's parser starts with: not the plain choice of its alternatives
            yield dict(lit=None, rest=[dict(n=guard, cut=cut, keep=False), dict(n=body, cut=cut, keep=True)], labels=labels, maps=maps, values=values, site=site, commit=commit, head=ir, path=path)
    elif t == "seq" and ir["items"]:
        items = ir["items"]
        tail = [dict(n=i["p"], cut=cut, keep=i["keep"]) for i in items[1:]]
        head = items[0]["p"]
        newcommit = commit
        h0 = head
        while h0["t"] in ("ctx", "cut", "map", "value"):
            h0 = h0["p"]
        if h0["t"] == "alt" and tail:
            counter[0] += 1
            newcommit = counter[0]
        for a in split(g, head, cut, (), (), (), site, newcommit, path, counter):
            a["rest"] = a["rest"] + tail
            a["labels"] = a["labels"] + labels
            a["maps"] = a["maps"] + maps
            a["values"] = a["values"] + values
            a["head_keep"] = items[0]["keep"]
            yield a
    elif t == "alt":
        for x in ir["alts"]:
            for a in split(g, x, cut, labels, maps, values, site, commit, path, counter):
                yield a
    elif t == "ref":
        fb = g.deref(ir)
        if fb["t"] == "fnbody" and not fb["steps"] and fb["tail"] is not None and not fb["unknown"] and not fb["lets"]:
            for a in split(g, fb["tail"], cut, labels, maps, values, ir["fn"], commit, path + (ir["fn"],), counter):
                yield a
        else:
            yield dict(lit=None, rest=[dict(n=ir, cut=cut, keep=True)], labels=labels, maps=maps, values=values, site=site, commit=commit, head=ir, path=path)
    else:
        yield dict(lit=None, rest=[dict(n=ir, cut=cut, keep=True)], labels=labels, maps=maps, values=values, site=site, commit=commit, head=ir, path=path)


def alternatives(g, fnkey):
    fb = g.b.fn_ir(fnkey)
    out = []
    if fb["tail"] is None or fb["steps"]:
        return out
    counter = [0]
    for i, a in enumerate(split(g, fb["tail"], site=fnkey, path=(fnkey,), counter=counter)):
        maps, values = _fold_constant(g, a)
        out.append(AltEntry(i, a["lit"], a["rest"], a["labels"], maps, values, a["site"], a["commit"], a["head"], a["path"]))
    return out


def _fold_constant(g, a):
    """`X.value(V).map(f)` yields the constant f(V), and `.value(Type::from(V))` the constant it computes: when the value is
    computed from constants only and comes out as a field-less variant of one of the crate's enums, the alternative is
    presented as `.value(Enum::Variant)` (evaluation by vlib/probe.py).  Anything else is left as written."""
    maps, values = a["maps"], a["values"]
    if not values or values[0] is None:
        return maps, values
    v0 = values[0]
    plain_path = v0.get("k") == "path"
    if plain_path and not maps:
        return maps, values
    facts = g.b.facts
    from . import probe as P

    try:
        site = a.get("site")
        mod = facts.fns[site].module if site in facts.fns else ()
        pr = P.Probe(facts, None, tuple(mod))
        val = pr.ev(v0, {})
        for f_ in maps:
            val = pr.apply(pr.ev(f_, {}), [val])
    except (P.NoEval, P.Panic, KeyError):
        return maps, values
    if isinstance(val, tuple) and len(val) == 3 and val[0] == "enum" and not val[2] and "::" in val[1]:
        en, var = val[1].split("::")[-2:]
        if en in facts.enums and var in facts.variants(en) and not facts.variant_fields(en, var):
            return (), ({"k": "path", "l": v0.get("l"), "segs": [en, var], "gen": [[], []], "qself": None, "global": False},) + tuple(values[1:])
    return maps, values


def flatten_rest(g, rest):
    """Expand seq/cut/ctx wrappers in a rest list into a flat list of atoms with cut flags."""
    out = []

    def w(n, cut, keep, ctx):
        t = n["t"]
        if t == "cut":
            w(n["p"], True, keep, ctx)
        elif t == "ctx":
            w(n["p"], cut, keep, ctx + ((n["kind"], n["s"]),))
        elif t == "seq":
            for i in n["items"]:
                w(i["p"], cut, keep and i["keep"], ctx)
        else:
            out.append(dict(n=n, cut=cut, keep=keep, ctx=ctx))

    for r in rest:
        w(r["n"], r["cut"], r["keep"], ())
    return out


def arg_name(g, n):
    """Canonical, rename-tolerant description of an argument parser."""
    t = n["t"]
    if t in ("ctx", "cut"):
        return arg_name(g, n["p"])
    if t == "ref":
        ta = n.get("targs") or {}
        fn = g.b.facts.fns.get(n["fn"])
        key = n["fn"]
        if key.startswith("<") and " as " in key:
            ty = key[1:].split(" as ")[0]
            for k, v in ta.items():
                ty = ty.replace("<%s>" % k, "<%s>" % v)
            return ty
        if ta:
            return "%s<%s>" % (key.split("::")[-1], ",".join("%s=%s" % kv for kv in sorted(ta.items())))
        if fn is not None and "Parser<" in fn.node["output"]:
            return "word"
        return key.split("::")[-1]
    if t == "andthen":
        return "%s>>%s" % (arg_name(g, n["outer"]), arg_name(g, n["inner"]))
    if t == "seq":
        return "(%s)" % ",".join(arg_name(g, i["p"]) for i in n["items"] if i["keep"])
    return peg.show(n)


def ctor_of_transform(entry, scope):
    """The AST constructor an alternative builds: from .value(X) or .map(Path | closure)."""
    if entry.values:
        v = entry.values[0]
        if v is None:
            return None
        p = rx.path_str(v)
        if p:
            return rx.canon_path(p, scope)
        chain, _ = rx.ctor_chain(v)
        return rx.canon_path(chain[-1], scope) if chain else None
    if entry.maps:
        f = entry.maps[0]
        if f["k"] == "path":
            return rx.canon_path("::".join(f["segs"]), scope)
        if f["k"] == "closure":
            chain, args = rx.ctor_chain(rx.closure_body(f))
            chain = [x for x in (chain or []) if x not in WRAPPERS]
            if chain:
                return rx.canon_path(chain[-1], scope)
    return None
