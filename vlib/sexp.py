"""Tiny S-expression reader over template token lists (holes are atoms)."""


def parse(tokens):
    """-> list of top-level forms; a form is a str atom or a list."""
    stack = [[]]
    for t in tokens:
        if t == "(":
            stack.append([])
        elif t == ")":
            if len(stack) == 1:
                stack[0].append("<unbalanced-close>")
                continue
            top = stack.pop()
            stack[-1].append(top)
        else:
            stack[-1].append(t)
    while len(stack) > 1:
        top = stack.pop()
        stack[-1].append(["<unclosed>"] + top)
    return stack[0]


def walk(form, fn, path=()):
    """fn(form, path) for every list form; path = tuple of enclosing forms' heads."""
    if isinstance(form, list):
        fn(form, path)
        head = form[0] if form and isinstance(form[0], str) else None
        for x in form:
            walk(x, fn, path + ((head, form),))


def show(form):
    if isinstance(form, list):
        return "(" + " ".join(show(x) for x in form) + ")"
    return form
