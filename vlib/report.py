"""Obligation bookkeeping, known-findings matching, evidence and replay files."""
import json
import os
import re
import time

from . import facts as F

VERIF = F.VERIF
EVID = os.environ.get("VERIF_EVID") or os.path.join(VERIF, "evidence")
KNOWN = os.path.join(VERIF, "known_findings.json")


def load_known():
    try:
        d = json.load(open(KNOWN))
    except OSError:
        d = {"known": [], "fixed": []}
    return d


def safe(s):
    return re.sub(r"[^A-Za-z0-9_.-]+", "_", s)[:150]


class Check:
    def __init__(self, pid, tier="quick", level="other", cmd=""):
        self.pid = pid
        self.tier = tier
        self.level = level
        self.cmd = cmd
        self.t0 = time.time()
        self.obs = []  # dicts
        self.notes = []
        self.floors = []
        self.analysed = {}
        self.assumptions = []
        self.trusted = []
        self.explanation = ""
        self.rule_text = ""
        self.exhaustive = None
        self.seed = int(os.environ.get("VERIF_SEED", "0") or 0)
        self.decided = []
        self.not_decided = []

    # -------------------------------------------------------------- recording
    def ob(self, rule, site, instance, ok, detail="", witness=None, facts=None, nontrivial=True):
        """One proof obligation: rule applied at site to instance. ok=True discharged, False violated,
        None = could not be resolved (counts as undischarged: fail closed)."""
        key = "%s : %s : %s" % (rule, site, instance)
        self.obs.append(
            dict(rule=rule, site=site, instance=instance, key=key, ok=ok, detail=detail, witness=witness, facts=facts, nontrivial=nontrivial)
        )
        return ok is True

    def floor(self, what, got, minimum):
        self.floors.append(dict(what=what, got=got, minimum=minimum))
        self.ob("floor", what, ">=%d" % minimum, got >= minimum, "analysed %d instances, hand-counted floor %d" % (got, minimum), nontrivial=False)

    def control(self, rule, fired, detail=""):
        """Positive control for a rule whose expected violation count is zero: the same code must fire on a
        built-in defective fixture."""
        self.ob("control", rule, "built-in defective fixture is reported", bool(fired), detail or "positive control", nontrivial=False)

    def note(self, text):
        self.notes.append(text)

    # -------------------------------------------------------------- finishing
    def finish(self):
        known = load_known()
        kmap = {}
        for k in known.get("known", []):
            if k.get("property") == self.pid:
                kmap[k["key"]] = k
        viol, knownhits = [], []
        for o in self.obs:
            if o["ok"] is True:
                continue
            if o["key"] in kmap:
                knownhits.append(o)
            else:
                viol.append(o)
        vdir = os.path.join(EVID, "violations", self.pid)
        os.makedirs(vdir, exist_ok=True)
        for fn in os.listdir(vdir):
            try:
                os.remove(os.path.join(vdir, fn))
            except OSError:
                pass
        lines = []
        for o in knownhits:
            k = kmap[o["key"]]
            lines.append("KNOWN-FINDING: property=%s %s -- %s" % (self.pid, o["key"], k.get("witness", o.get("witness") or "")))
        for o in viol:
            path = os.path.join(vdir, safe(o["key"]) + ".json")
            json.dump(
                dict(
                    property=self.pid,
                    key=o["key"],
                    rule=o["rule"],
                    site=o["site"],
                    instance=o["instance"],
                    unresolved=o["ok"] is None,
                    detail=o["detail"],
                    witness=o["witness"],
                    facts=o["facts"],
                    replay="./check %s --explain %s" % (self.pid, path),
                ),
                open(path, "w"),
                indent=1,
                default=str,
            )
            print("  violated: %s\n    %s%s" % (o["key"], o["detail"], ("\n    witness: %s" % (o["witness"],)) if o["witness"] else ""))
            lines.append("VIOLATION property=%s replay=%s" % (self.pid, path))
        n = len(self.obs)
        disc = sum(1 for o in self.obs if o["ok"] is True)
        distinct = len({(o["rule"], o["site"], o["instance"]) for o in self.obs if o["nontrivial"]})
        samples = []
        seen_rules = set()
        for o in self.obs:
            if o["rule"] in seen_rules or o["rule"] in ("floor", "control"):
                continue
            seen_rules.add(o["rule"])
            samples.append(dict(rule=o["rule"], site=o["site"], instance=o["instance"], discharged=o["ok"] is True, detail=o["detail"][:400], facts=o["facts"]))
        level = self.level
        if level == "proof" and disc != n:
            level = "other"
        rules = {}
        for o in self.obs:
            r = rules.setdefault(o["rule"], [0, 0])
            r[0] += 1
            r[1] += 1 if o["ok"] is True else 0
        ev = dict(
            property_id=self.pid,
            tier=self.tier,
            seed=self.seed,
            level=level,
            coverage=dict(
                obligations=n,
                discharged=disc,
                evaluations=n,
                distinct_nontrivial=distinct,
                rule=self.rule_text
                or "one obligation per (rule, site, instance) extracted from /repo's current source; non-trivial = needs a premise beyond 'anchor exists' (floors and positive controls excluded); distinct by (rule, site, instance)",
                samples=samples[:40],
                checker_cmd=self.cmd,
                trusted_base=self.trusted,
                explanation=self.explanation,
                analysed=self.analysed,
                floors=self.floors,
                per_rule={k: dict(instances=v[0], discharged=v[1]) for k, v in sorted(rules.items())},
                known_findings=[o["key"] for o in knownhits],
                decided_clauses=self.decided,
                not_decided=self.not_decided,
                notes=self.notes,
            ),
            assumptions=self.assumptions,
            wall_s=round(time.time() - self.t0, 3),
            violations=len(viol),
        )
        if self.exhaustive is not None:
            ev["coverage"]["exhaustive"] = self.exhaustive
        os.makedirs(EVID, exist_ok=True)
        json.dump(ev, open(os.path.join(EVID, self.pid + ".json"), "w"), indent=1, default=str)
        print(
            "%s [%s]: %d obligations, %d discharged, %d known finding(s), %d violation(s); rules: %s"
            % (self.pid, self.tier, n, disc, len(knownhits), len(viol), ", ".join("%s %d/%d" % (k, v[1], v[0]) for k, v in sorted(rules.items())))
        )
        for l in lines:
            print(l)
        return 1 if viol else 0
