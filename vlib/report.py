"""Obligation bookkeeping, known-findings matching, evidence and replay files."""
import json
import os
import re
import time

from . import facts as F

VERIF = F.VERIF
EVID = os.environ.get("VERIF_EVID") or os.path.join(VERIF, "evidence")
KNOWN = os.path.join(VERIF, "known_findings.json")


def load_known():
    try:
        d = json.load(open(KNOWN))
    except OSError:
        d = {"known": [], "fixed": []}
    return d


def safe(s):
    return re.sub(r"[^A-Za-z0-9_.-]+", "_", s)[:150]


class Check:
    def __init__(self, pid, tier="quick", level="other", cmd=""):
        self.pid = pid
        self.tier = tier
        self.level = level
        self.cmd = cmd
        self.t0 = time.time()
        self.obs = []  # dicts
        self.notes = []
        self.floors = []
        self.analysed = {}
        self.assumptions = []
        self.trusted = []
        self.explanation = ""
        self.rule_text = ""
        self.exhaustive = None
        self.seed = int(os.environ.get("VERIF_SEED", "0") or 0)
        self.decided = []
        self.not_decided = []

    # -------------------------------------------------------------- recording
    def ob(self, rule, site, instance, ok, detail="", witness=None, facts=None, nontrivial=True):
        """One proof obligation: rule applied at site to instance. ok=True discharged, False violated,
        None = could not be resolved (counts as undischarged: fail closed)."""
        key = "%s : %s : %s" % (rule, site, instance)
        self.obs.append(
            dict(rule=rule, site=site, instance=instance, key=key, ok=ok, detail=detail, witness=witness, facts=facts, nontrivial=nontrivial)
        )
        return ok is True

    def floor(self, what, got, minimum):
        self.floors.append(dict(what=what, got=got, minimum=minimum))
        self.ob("floor", what, ">=%d" % minimum, got >= minimum, "analysed %d instances, hand-counted floor %d" % (got, minimum), nontrivial=False)

    def control(self, rule, fired, detail=""):
        """Positive control for a rule whose expected violation count is zero: the same code must fire on a
        built-in defective fixture."""
        self.ob("control", rule, "built-in defective fixture is reported", bool(fired), detail or "positive control", nontrivial=False)

    def note(self, text):
        self.notes.append(text)

    # -------------------------------------------------------------- finishing
    def finish(self):
        known = load_known()
        kmap = {}
        for k in known.get("known", []):
            if k.get("property") == self.pid:
                kmap[k["key"]] = k
        viol, knownhits = [], []
        for o in self.obs:
            if o["ok"] is True:
                continue
            if o["key"] in kmap:
                knownhits.append(o)
            else:
                viol.append(o)
        vdir = os.path.join(EVID, "violations", self.pid)
        os.makedirs(vdir, exist_ok=True)
        for fn in os.listdir(vdir):
            try:
                os.remove(os.path.join(vdir, fn))
            except OSError:
                pass
        lines = []
        for o in knownhits:
            k = kmap[o["key"]]
            lines.append("KNOWN-FINDING: property=%s %s -- %s" % (self.pid, o["key"], k.get("witness", o.get("witness") or "")))
        for o in viol:
            path = os.path.join(vdir, safe(o["key"]) + ".json")
            json.dump(
                dict(
                    property=self.pid,
                    key=o["key"],
                    rule=o["rule"],
                    site=o["site"],
                    instance=o["instance"],
                    unresolved=o["ok"] is None,
                    detail=o["detail"],
                    witness=o["witness"],
                    facts=o["facts"],
                    replay="./check %s --explain %s" % (self.pid, path),
                ),
                open(path, "w"),
                indent=1,
                default=str,
            )
            print("  violated: %s\n    %s%s" % (o["key"], o["detail"], ("\n    witness: %s" % (o["witness"],)) if o["witness"] else ""))
            lines.append("VIOLATION property=%s replay=%s" % (self.pid, path))
        n = len(self.obs)
        disc = sum(1 for o in self.obs if o["ok"] is True)
        distinct = len({(o["rule"], o["site"], o["instance"]) for o in self.obs if o["nontrivial"]})
        samples = []
        seen_rules = set()
        for o in self.obs:
            if o["rule"] in seen_rules or o["rule"] in ("floor", "control"):
                continue
            seen_rules.add(o["rule"])
            samples.append(dict(rule=o["rule"], site=o["site"], instance=o["instance"], discharged=o["ok"] is True, detail=o["detail"][:400], facts=o["facts"]))
        level = self.level
        if level == "proof" and disc != n:
            level = "other"
        rules = {}
        for o in self.obs:
            r = rules.setdefault(o["rule"], [0, 0])
            r[0] += 1
            r[1] += 1 if o["ok"] is True else 0
        ev = dict(
            property_id=self.pid,
            tier=self.tier,
            seed=self.seed,
            level=level,
            coverage=dict(
                obligations=n,
                discharged=disc,
                evaluations=n,
                distinct_nontrivial=distinct,
                rule=self.rule_text
                or "one obligation per (rule, site, instance) extracted from /repo's current source; non-trivial = needs a premise beyond 'anchor exists' (floors and positive controls excluded); distinct by (rule, site, instance)",
                samples=samples[:40],
                checker_cmd=self.cmd,
                trusted_base=self.trusted,
                explanation=self.explanation,
                analysed=self.analysed,
                floors=self.floors,
                per_rule={k: dict(instances=v[0], discharged=v[1]) for k, v in sorted(rules.items())},
                known_findings=[o["key"] for o in knownhits],
                decided_clauses=self.decided,
                not_decided=self.not_decided,
                notes=self.notes,
            ),
            assumptions=self.assumptions,
            wall_s=round(time.time() - self.t0, 3),
            violations=len(viol),
        )
        if self.exhaustive is not None:
            ev["coverage"]["exhaustive"] = self.exhaustive
        os.makedirs(EVID, exist_ok=True)
        json.dump(ev, open(os.path.join(EVID, self.pid + ".json"), "w"), indent=1, default=str)
        print(
            "%s [%s]: %d obligations, %d discharged, %d known finding(s), %d violation(s); rules: %s"
            % (self.pid, self.tier, n, disc, len(knownhits), len(viol), ", ".join("%s %d/%d" % (k, v[1], v[0]) for k, v in sorted(rules.items())))
        )
        for l in lines:
            print(l)
        return 1 if viol else 0


class _Collector:
    """Stand-in for Check used to evaluate another property's rules as *premises* (nothing is written or printed)."""

    def __init__(self):
        self.obs = []
        self.analysed = {}
        self.trusted, self.assumptions, self.decided, self.not_decided = [], [], [], []
        self.explanation = ""
        self.exhaustive = False
        self.tier = "quick"

    def ob(self, rule, site, instance, ok, detail="", witness=None, facts=None, nontrivial=True):
        self.obs.append(dict(rule=rule, site=site, instance=instance, ok=ok, detail=detail, witness=witness, key="%s : %s : %s" % (rule, site, instance)))
        return ok is True

    def floor(self, what, got, minimum):
        self.ob("floor", what, ">=%d" % minimum, got >= minimum, "analysed %d, floor %d" % (got, minimum))

    def control(self, rule, fired, detail=""):
        pass


_PREMISE_CACHE = {}


def premises(module_name, facts):
    """All obligations of another rule module, evaluated on the same facts (cached per process)."""
    import importlib

    k = (module_name, id(facts))
    if _PREMISE_CACHE.get(k, 0) is None:
        return None  # being evaluated further up the stack (mutual premises): the outer evaluation reports it
    if k not in _PREMISE_CACHE:
        _PREMISE_CACHE[k] = None
        col = _Collector()
        try:
            importlib.import_module("vlib.rules." + module_name).run(col, facts, "quick")
        except Exception as e:  # fail closed
            col.ob(module_name.upper() + ".evaluation", "checker", "rules could be evaluated", None, "%s: %s" % (type(e).__name__, e))
        _PREMISE_CACHE[k] = col.obs
    return _PREMISE_CACHE[k]


def require(c, facts, module_name, rule, site, instance, select, why, known=None):
    """One obligation of the current check that holds iff the selected obligations of another property's rules hold.
    `select(ob)` picks them; at least one must be selected (else undecided). Known findings of the other property are not
    re-reported here (they are that property's finding), unless they are selected explicitly by key in `known`."""
    import json, os

    allobs = premises(module_name, facts)
    if allobs is None:
        return
    obs = [o for o in allobs if select(o)]
    kf = set()
    try:
        kf = {f["key"] for f in json.load(open(os.path.join(os.path.dirname(os.path.dirname(os.path.abspath(__file__))), "known_findings.json"))).get("known", [])}
    except Exception:
        pass
    bad = [o for o in obs if o["ok"] is not True and o["key"] not in kf]
    ok = (not bad) if obs else None
    det = "%s — %d obligation(s) of %s taken as premise%s" % (why, len(obs), module_name.upper(), "" if not bad else "; NOT holding: " + "; ".join("%s (%s)" % (o["key"], (o["detail"] or "")[:120]) for o in bad[:3]))
    c.ob(rule, site, instance, ok, det, witness=(bad[0].get("witness") if bad else None))
