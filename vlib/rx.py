"""Helpers over the JSON Rust AST (expressions, patterns, closures)."""
from .facts import src, psrc, norm_ty

TRANSPARENT_METHODS = {"clone", "to_owned", "into", "as_ref", "borrow", "to_string_lossy"}


def peel(e):
    """Strip references, derefs, clones and single-expression blocks."""
    while isinstance(e, dict):
        k = e.get("k")
        if k == "ref":
            e = e["e"]
        elif k == "unary" and e["op"] == "*":
            e = e["e"]
        elif k == "mcall" and e["m"] in ("clone", "to_owned") and not e["args"]:
            e = e["recv"]
        elif k == "block" and len(e["stmts"]) == 1 and e["stmts"][0]["k"] == "expr" and not e["stmts"][0].get("semi"):
            e = e["stmts"][0]["e"]
        else:
            return e
    return e


def is_var(e, name=None):
    e = peel(e)
    if e and e.get("k") == "path" and len(e["segs"]) == 1 and e.get("qself") is None:
        return name is None or e["segs"][0] == name
    return False


def var_name(e):
    e = peel(e)
    if e and e.get("k") == "path" and len(e["segs"]) == 1:
        return e["segs"][0]
    return None


def path_str(e):
    e = peel(e)
    if e and e.get("k") == "path":
        return "::".join(e["segs"])
    # `|x| Ctor(x)` names the same function as `Ctor`
    if e and e.get("k") == "closure" and len(e.get("params") or []) == 1:
        ps = closure_params(e)
        bd = peel(closure_body(e))
        if ps and ps[0].get("name") and bd.get("k") == "call" and bd["f"].get("k") == "path" and len(bd["args"]) == 1 and is_var(peel(bd["args"][0]), ps[0]["name"]):
            return "::".join(bd["f"]["segs"])
    return None


def closure_params(c):
    out = []
    for p in c["params"]:
        q = p
        while q["k"] in ("typed", "ref"):
            q = q["pat"]
        out.append(q)
    return out


def closure_body(c):
    return peel(c["body"])


def ctor_chain(e):
    """Exp::Operator(Rc::new(Ope::List(acc, val))) -> (["Exp::Operator","Rc::new","Ope::List"], [acc, val])"""
    chain = []
    e = peel(e)
    while e and e.get("k") == "call" and e["f"]["k"] == "path":
        chain.append("::".join(e["f"]["segs"]))
        if len(e["args"]) == 1 and peel(e["args"][0]).get("k") == "call":
            e = peel(e["args"][0])
            continue
        return chain, e["args"]
    return chain, None


def canon_type(name, scope):
    """Resolve a local alias (Exp, Ope) to the crate's type name through the module scope."""
    r = scope.get(name)
    if r and r[0] == "type":
        return r[1]
    return name


def canon_path(pstr, scope):
    segs = pstr.split("::")
    if len(segs) >= 2:
        segs[0] = canon_type(segs[0], scope)
    return "::".join(segs)


def pat_cases(p):
    """Expand an or-pattern into its cases."""
    if p["k"] == "or":
        out = []
        for c in p["cases"]:
            out += pat_cases(c)
        return out
    if p["k"] == "ref":
        return pat_cases(p["pat"])
    return [p]


def pat_variant(p, scope=None):
    """(Enum::Variant, [subpatterns]) for a tuple-struct/path pattern, else None."""
    if p["k"] == "ref":
        p = p["pat"]
    if p["k"] in ("tstruct", "path", "struct") and len(p["segs"]) >= 2:
        name = "::".join(p["segs"][-2:])
        if scope is not None:
            name = canon_path(name, scope)
        subs = p.get("elems", [])
        return name, subs
    return None


def pat_bindings(p):
    out = []

    def w(q):
        k = q["k"]
        if k == "ident":
            out.append(q["name"])
            if q.get("sub"):
                w(q["sub"])
        elif k in ("tuple", "tstruct", "slice"):
            for e in q["elems"]:
                w(e)
        elif k == "or":
            for c in q["cases"][:1]:
                w(c)
        elif k in ("ref", "typed"):
            w(q["pat"])
        elif k == "struct":
            for f in q["fields"]:
                w(f["pat"])

    w(p)
    return out


def is_wild(p):
    return p["k"] == "wild" or (p["k"] == "ident" and p.get("sub") is None and p["name"][0].islower() and False)


def is_catchall(p):
    """`_` or a bare binding identifier (lower-case, no sub-pattern)."""
    if p["k"] == "wild":
        return True
    if p["k"] == "ident" and p.get("sub") is None and (p["name"][0].islower() or p["name"][0] == "_"):
        return True
    return False


def stmts_of(body):
    if body["k"] == "block":
        return body["stmts"]
    return [{"k": "expr", "e": body, "semi": False, "l": body.get("l")}]


def tail_expr(body):
    st = stmts_of(body)
    if st and st[-1]["k"] == "expr" and not st[-1].get("semi"):
        return st[-1]["e"]
    return None


def calls_in(node, pred=None):
    from .facts import find_all

    return find_all(node, lambda n: n.get("k") in ("call", "mcall", "macro") and (pred is None or pred(n)))


def method_chain(e):
    """a.b(x).c() -> (base, [(m, args, node), ...]) with `?` stripped."""
    chain = []
    while True:
        if e["k"] == "try":
            chain.append(("?", [], e))
            e = e["e"]
        elif e["k"] == "mcall":
            chain.append((e["m"], e["args"], e))
            e = e["recv"]
        else:
            break
    chain.reverse()
    return e, chain


CONST_REG = {}  # name (short and module-qualified) -> initialiser expression of a crate `const`; filled by facts.load


def set_consts(facts):
    CONST_REG.clear()
    short = {}
    for k_, it in facts.consts.items():
        if it.get("e") is not None:
            CONST_REG[k_] = it["e"]
            short.setdefault(k_.split("::")[-1], []).append(it["e"])
    for n_, es in short.items():
        # an unqualified name is resolved only when it is unique in the crate, or every definition folds to the same value
        vals = {int_const(x) for x in es}
        if len(es) == 1 or (len(vals) == 1 and None not in vals):
            CONST_REG.setdefault(n_, es[0])


_FOLDING = set()


def int_const(e, consts=None):
    """Constant-fold an integer expression (literals, * + - << | &, named consts of the crate)."""
    e = peel(e)
    k = e.get("k")
    if k == "path" and consts is None:
        n = "::".join(e["segs"])
        tgt = CONST_REG.get(n) or CONST_REG.get(e["segs"][-1])
        if tgt is not None and id(tgt) not in _FOLDING:
            _FOLDING.add(id(tgt))
            try:
                return int_const(tgt)
            finally:
                _FOLDING.discard(id(tgt))
        return None
    if k == "lit" and e["t"] == "int":
        return int(e["v"])
    if k == "binary":
        a, b = int_const(e["lhs"], consts), int_const(e["rhs"], consts)
        if a is None or b is None:
            return None
        op = e["op"]
        try:
            return {"*": a * b, "+": a + b, "-": a - b, "<<": a << b, "|": a | b, "&": a & b, ">>": a >> b, "/": a // b if b else None}[op]
        except KeyError:
            return None
    if k == "path" and consts is not None:
        n = "::".join(e["segs"])
        if n in consts:
            return consts[n]
        if e["segs"][-1] in consts:
            return consts[e["segs"][-1]]
    if k == "cast":
        return int_const(e["e"], consts)
    return None


def payload_accessor(facts, enum, fn):
    """`fn m(&self) -> T { match self { V1(c) | V2(c) | .. => *c } }` over every variant of `enum`: m() is the payload."""
    if fn is None or fn.node.get("self") not in ("&self", "self") or len([p for p in fn.params if p[0] != "self"]) != 0:
        return False
    t = tail_expr(fn.body)
    if t is None or len(fn.body["stmts"]) != 1 or t["k"] != "match" or not is_var(t["scrut"], "self"):
        return False
    seen = set()
    for arm in t["arms"]:
        if arm.get("guard") is not None:
            return False
        names = set()
        for p in pat_cases(arm["pat"]):
            pv = pat_variant(p)
            if not pv or len(pv[1]) != 1 or pv[1][0]["k"] != "ident":
                return False
            seen.add(pv[0].split("::")[-1])
            names.add(pv[1][0]["name"])
        if len(names) != 1 or not is_var(arm["body"], names.pop()):
            return False
    return seen == set(facts.variants(enum))


def self_payload(facts, enum, fn, expr):
    """Is `expr` (inside method `fn` of `enum`) the payload of self, whatever the variant?  Either a variable bound by an
    irrefutable or-pattern over every variant (`let (V1(s) | V2(s) | ..) = self;`) or a call of a payload accessor."""
    e = peel(expr)
    if e.get("k") == "mcall" and not e["args"] and is_var(e["recv"], "self"):
        return payload_accessor(facts, enum, facts.fns.get("%s::%s" % (enum, e["m"])))
    nm = var_name(e)
    if nm is None:
        return False
    for st in fn.body["stmts"]:
        if st["k"] == "let" and st.get("init") is not None and is_var(st["init"], "self"):
            cases = pat_cases(st["pat"])
            vs = {pat_variant(p)[0].split("::")[-1] for p in cases if pat_variant(p)}
            bn = {tuple(pat_bindings(p)) for p in cases}
            if vs == set(facts.variants(enum)) and bn == {(nm,)}:
                return True
    return False
