"""E1 fact loading: run ast-extract on /repo's working tree and index the result.

Nothing is cached between invocations of `check` except inside one process.
"""
import json
import os
import re
import subprocess
import sys

VERIF = os.path.dirname(os.path.dirname(os.path.abspath(__file__)))
REPO = os.environ.get("VERIF_REPO", "/repo")
AST_BIN = os.path.join(VERIF, "engines/ast-extract/target/release/ast-extract")


class AnchorMissing(Exception):
    """An anchor the rules need (function, enum, impl) is absent: nothing can be decided."""

    def __init__(self, what):
        super().__init__(what)
        self.what = what


def ensure_built():
    if not os.path.exists(AST_BIN):
        env = dict(os.environ, CARGO_NET_OFFLINE="true")
        subprocess.run(
            ["cargo", "build", "--release", "--offline"],
            cwd=os.path.join(VERIF, "engines/ast-extract"),
            env=env,
            check=True,
            stdout=subprocess.DEVNULL,
            stderr=subprocess.DEVNULL,
        )


def walk(n, fn):
    """Pre-order walk over a JSON AST; fn(node) is called on every dict node."""
    if isinstance(n, dict):
        fn(n)
        for v in n.values():
            walk(v, fn)
    elif isinstance(n, list):
        for v in n:
            walk(v, fn)


def find_all(n, pred, skip_pats=False):
    out = []
    if not skip_pats:

        def f(x):
            if pred(x):
                out.append(x)

        walk(n, f)
        return out

    def w(x):
        if isinstance(x, dict):
            if pred(x):
                out.append(x)
            for k, v in x.items():
                if k in ("pat", "params"):
                    continue
                w(v)
        elif isinstance(x, list):
            for v in x:
                w(v)

    w(n)
    return out


def norm_ty(t):
    return re.sub(r"\s+", "", t or "")


class Fn:
    def __init__(self, key, node, file, module, impl=None, test=False):
        self.key = key
        self.node = node
        self.file = file
        self.module = module
        self.impl = impl  # impl node or None
        self.test = test
        self.name = node["name"]
        self.line = node["l"]

    @property
    def body(self):
        return self.node["body"]

    @property
    def params(self):
        out = []
        for i in self.node["inputs"]:
            p = i["pat"]
            out.append((p.get("name") if p["k"] == "ident" else None, norm_ty(i["ty"])))
        return out

    def where(self):
        return "%s:%s" % (self.file, self.line)

    def __repr__(self):
        return "Fn(%s)" % self.key


class Facts:
    def __init__(self, data):
        self.data = data
        self.files = data["files"]
        self.fns = {}  # key -> Fn
        self.enums = {}
        self.structs = {}
        self.shadowed = []  # (kind, name, module) of types whose plain name belongs to another type of the crate
        self.consts = {}  # module-qualified name -> node
        self.statics = {}
        self.types = {}
        self.traits = {}
        self.impls = []  # (file, module, impl-node)
        self.uses = {}  # module tuple -> list of use names
        self.macro_rules = {}
        self.macro_items = []
        self.mods = []
        for f in self.files:
            if f["module"] and f["module"][0] == "<example>":
                continue
            self._index_items(f["items"], f["path"], tuple(f["module"]), f.get("test", False))
        # provided (default) methods of the crate's own traits: every implementor that does not override one has it, with
        # the trait's body
        for path, module, it in self.impls:
            if not it.get("trait"):
                continue
            tname = norm_ty(it["trait"]).split("<")[0].split("::")[-1]
            tr = self.traits.get(tname)
            if tr is None:
                continue
            st = re.sub(r"<(?:'[A-Za-z_]+,?)+>", "", norm_ty(it["self_ty"]))
            have = {m["name"] for m in it["items"] if m.get("k") == "fn"}
            for m in tr.get("items", []):
                if m.get("k") == "fn" and m.get("default") is not None and m["name"] not in have:
                    key = "<%s as %s>::%s" % (st, norm_ty(it["trait"]), m["name"])
                    node = dict(m, body=m["default"], vis="", attrs=[], docs=[], test=False, provided_by=tname)
                    self.fns.setdefault(key, Fn(key, node, path, module, it, False))

    def unalias(self, ty, depth=0):
        """A type text with the crate's own non-generic type aliases replaced by what they stand for."""
        t = norm_ty(ty or "")
        if depth > 6:
            return t

        def rep(m):
            al = self.types.get(m.group(0))
            if al is None or al.get("generics") or not al.get("ty"):
                return m.group(0)
            return self.unalias(al["ty"], depth + 1)

        return re.sub(r"\b[A-Z][A-Za-z0-9_]*\b", rep, t)

    def _add_fn(self, key, fn):
        """A `#[cfg(test)]` twin of a function never stands in for the function the library has: the item the users' build
        compiles wins, whichever comes first in the file."""
        old = self.fns.get(key)
        if old is not None and not old.test and fn.test:
            self.fns[key + "#test-twin"] = fn
            return
        if old is not None and old.test and not fn.test:
            self.fns[key + "#test-twin"] = old
        self.fns[key] = fn

    def _index_items(self, items, path, module, test):
        for it in items:
            k = it["k"]
            t = test or it.get("test", False)
            if k == "fn":
                key = "::".join(module + (it["name"],))
                self._add_fn(key, Fn(key, it, path, module, None, t))
            elif k == "impl":
                self.impls.append((path, module, it))
                st = norm_ty(it["self_ty"])
                # `impl Sink<'_>` / `impl<'a> Sink<'a>`: lifetime arguments are not part of the type's name
                st = re.sub(r"<(?:'[A-Za-z_]+,?)+>", "", st)
                tr = norm_ty(it["trait"]) if it["trait"] else None
                for m in it["items"]:
                    if m["k"] == "const" and not tr:
                        # associated constant: `Type::NAME` (also reachable as `Self::NAME` inside the impl)
                        self.consts["::".join(module + (st.split("<")[0], m["name"]))] = m
                    if m["k"] != "fn":
                        continue
                    key = ("<%s as %s>::%s" % (st, tr, m["name"])) if tr else ("%s::%s" % (st, m["name"]))
                    self._add_fn(key, Fn(key, m, path, module, it, t or m.get("test", False)))
            elif k in ("enum", "struct"):
                it["_file"] = path
                it["_module"] = module
                tab = self.enums if k == "enum" else self.structs
                old = tab.get(it["name"])
                # two types of the same name in different modules: the plain name stays with the public one (the AST's), the
                # other is reachable under its module-qualified name only (rules then fail closed instead of mixing them up)
                if old is None or (old.get("vis") != "pub" and it.get("vis") == "pub"):
                    tab[it["name"]] = it
                    if old is not None:
                        tab["::".join(tuple(old["_module"]) + (old["name"],))] = old
                        self.shadowed.append((k, old["name"], tuple(old["_module"])))
                else:
                    tab["::".join(module + (it["name"],))] = it
                    self.shadowed.append((k, it["name"], module))
            elif k == "const":
                self.consts["::".join(module + (it["name"],))] = it
            elif k == "static":
                it["_file"] = path
                self.statics["::".join(module + (it["name"],))] = it
            elif k == "type":
                self.types[it["name"]] = it
            elif k == "trait":
                self.traits[it["name"]] = it
            elif k == "use":
                self.uses.setdefault(module, []).extend(it["names"])
            elif k == "macro_rules":
                it["_file"] = path
                self.macro_rules[it["name"]] = it
            elif k == "macro_item":
                it["_file"] = path
                self.macro_items.append(it)
            elif k == "mod":
                self.mods.append((module, it))
                if it.get("inline") is not None:
                    self._index_items(it["inline"], path, module + (it["name"],), t)

    # ------------------------------------------------------------ lookups
    def fn(self, key):
        f = self.fns.get(key)
        if f is None:
            # a private helper asked for by its role name (vlib/roles.py): found by signature, whatever it is called today
            from . import roles

            if key in roles.ROLES or key in ("scheme::escape_string", "scheme::target_scheme::escape_template"):
                return self.fns[roles.key(self, key)]
            raise AnchorMissing("function %s" % key)
        return f

    def enum(self, name):
        e = self.enums.get(name)
        if e is None:
            raise AnchorMissing("enum %s" % name)
        return e

    def struct(self, name):
        e = self.structs.get(name)
        if e is None:
            raise AnchorMissing("struct %s" % name)
        return e

    def variants(self, name):
        return [v["name"] for v in self.enum(name)["variants"]]

    def variant_fields(self, enum, variant):
        for v in self.enum(enum)["variants"]:
            if v["name"] == variant:
                return [norm_ty(f["ty"]) for f in v["fields"]]
        raise AnchorMissing("variant %s::%s" % (enum, variant))

    def derives(self, item):
        out = []
        for a in item.get("attrs", []):
            m = re.match(r"derive\((.*)\)$", a)
            if m:
                out += [x.strip() for x in m.group(1).split(",") if x.strip()]
        return out

    def nontest_fns(self):
        return [f for f in self.fns.values() if not f.test]

    def impl_fn(self, self_ty, trait, name):
        """Find `<self_ty as trait>::name` allowing generic impls (Comparison<P>)."""
        st = norm_ty(self_ty)
        key = "<%s as %s>::%s" % (st, trait, name)
        if key in self.fns:
            return self.fns[key], {}
        # generic impl: match head
        head = st.split("<")[0]
        for k, f in self.fns.items():
            m = re.match(r"<([A-Za-z0-9_]+)<(.*)> as %s(?:<.*>)?>::%s$" % (re.escape(trait), re.escape(name)), k)
            if m and m.group(1) == head and f.impl is not None:
                gens = re.findall(r"[A-Za-z_][A-Za-z0-9_]*", f.impl.get("generics") or "")
                params = [p.strip() for p in m.group(2).split(",")]
                args = split_generics(st[len(head) + 1 : -1]) if "<" in st else []
                if len(params) == len(args) and all(p in gens for p in params):
                    return f, dict(zip(params, args))
        return None, {}


def generic_params(genstr):
    """Names of the type (and const) parameters of a generics string `<'a, T: Bound, const N: usize>`, lifetimes left out."""
    g = (genstr or "").strip()
    if g.startswith("<") and g.endswith(">"):
        g = g[1:-1]
    out = []
    for part in split_generics(g):
        part = part.strip()
        if not part or part.startswith("'"):
            continue
        part = re.sub(r"^const\s+", "", part)
        m = re.match(r"[A-Za-z_][A-Za-z0-9_]*", part)
        if m:
            out.append(m.group(0))
    return out


def split_generics(s):
    out, depth, cur = [], 0, ""
    for c in s:
        if c in "<([":
            depth += 1
        elif c in ">)]" and not cur.endswith("-"):
            depth -= 1
        if c == "," and depth == 0:
            out.append(cur.strip())
            cur = ""
        else:
            cur += c
    if cur.strip():
        out.append(cur.strip())
    return out


_CACHE = {}


# ---------------------------------------------------------------------------------------------------------------------
# Build configurations.  The source is read under ONE configuration at a time (engines/ast-extract/src/cfgstrip.rs evaluates
# `#[cfg]`, `#[cfg_attr]` and `cfg!`): the host target as `rustc --print cfg` describes it, the crate's default features, `test`
# off (the library as its users see it), and `debug_assertions` on (CONFIG["debug_assertions"], the development profile) or
# off (the release profile).  `current_config()` is what `load()` and `mir.load(True)` follow; the driver (./check) runs the
# rules once more with debug assertions off when the source distinguishes the two.
CONFIG = {"debug_assertions": True}
_HOST_CFG = []


def host_cfg():
    if not _HOST_CFG:
        try:
            out = subprocess.run(["rustc", "--print", "cfg"], capture_output=True, text=True, check=True).stdout.split("\n")
        except Exception:
            out = ['panic="unwind"', 'target_arch="x86_64"', 'target_endian="little"', 'target_env="gnu"', 'target_family="unix"', 'target_os="linux"', 'target_pointer_width="64"', 'target_vendor="unknown"', "unix"]
        _HOST_CFG.extend(l.strip() for l in out if l.strip() and l.strip() != "debug_assertions")
    return list(_HOST_CFG)


def default_features(repo):
    """The closure of the `default` feature of the crate's Cargo.toml (features enable features; `dep:x` and `x/y` are not
    features of this crate)."""
    try:
        txt = open(os.path.join(repo, "Cargo.toml")).read()
    except OSError:
        return []
    m = re.search(r"(?ms)^\[features\]\s*\n(.*?)(?=^\[|\Z)", txt)
    if not m:
        return []
    table = {}
    for name, body in re.findall(r'(?ms)^\s*"?([A-Za-z0-9_-]+)"?\s*=\s*\[(.*?)\]', m.group(1)):
        table[name] = re.findall(r'"([^"]+)"', body)
    on, todo = set(), list(table.get("default", []))
    while todo:
        x = todo.pop()
        if x in on or x.startswith("dep:") or "/" in x:
            continue
        on.add(x)
        todo += table.get(x, [])
    return sorted(on)


def config_args(repo, debug_assertions):
    lines = host_cfg() + (["debug_assertions"] if debug_assertions else []) + ['feature="%s"' % f_ for f_ in default_features(repo)]
    out = []
    for l in lines:
        out += ["--cfg", l]
    return out


def load(repo=None, debug_assertions=None):
    repo = repo or REPO
    if debug_assertions is None:
        debug_assertions = CONFIG["debug_assertions"]
    k = (repo, bool(debug_assertions))
    from . import rx

    if k in _CACHE:
        rx.set_consts(_CACHE[k])
        return _CACHE[k]
    ensure_built()
    p = subprocess.run([AST_BIN, repo] + config_args(repo, debug_assertions), capture_output=True, text=True)
    if p.returncode != 0:
        raise AnchorMissing("source tree could not be parsed: " + p.stderr.strip())
    f = Facts(json.loads(p.stdout))
    f.config_name = "debug-assertions=%s" % ("on" if debug_assertions else "off")
    from . import normalise

    normalise.apply(f)
    rx.set_consts(f)
    _CACHE[k] = f
    return f


PROFILE_KEYS = ("debug_assertions", "overflow_checks")


def cfg_records(facts, tests=False):
    """The conditional-compilation predicates the extractor evaluated (outside test code unless asked)."""
    return [r for r in facts.data.get("cfg", []) if tests or not r.get("in_test")]


def profile_dependent(facts):
    """Whether the source (outside test code) distinguishes the development and the release profile by `cfg`."""
    return any(set(r.get("keys", [])) & set(PROFILE_KEYS) for r in cfg_records(facts))


def cargo_lock_version(crate, repo=None):
    repo = repo or REPO
    try:
        txt = open(os.path.join(repo, "Cargo.lock")).read()
    except OSError:
        return None
    m = re.search(r'name = "%s"\nversion = "([^"]+)"' % re.escape(crate), txt)
    return m.group(1) if m else None


def src(node):
    """A compact, position-free rendering of a JSON AST node (for keys and reports)."""
    if node is None:
        return "∅"
    if isinstance(node, list):
        return ",".join(src(x) for x in node)
    k = node.get("k")
    if k == "lit":
        v = node["v"]
        if node["t"] == "str":
            return json.dumps(v, ensure_ascii=False)
        if node["t"] == "char":
            return "'" + v.encode("unicode_escape").decode() + "'"
        return str(v).lower() if isinstance(v, bool) else str(v)
    if k == "path":
        out = []
        for sgm, g in zip(node["segs"], node["gen"]):
            out.append(sgm + ("::<%s>" % ",".join(g) if g else ""))
        return "::".join(out)
    if k == "call":
        return "%s(%s)" % (src(node["f"]), src(node["args"]))
    if k == "mcall":
        t = "::<%s>" % ",".join(node["targs"]) if node["targs"] else ""
        return "%s.%s%s(%s)" % (src(node["recv"]), node["m"], t, src(node["args"]))
    if k == "closure":
        return "|%s| %s" % (",".join(psrc(p) for p in node["params"]), src(node["body"]))
    if k == "macro":
        if "args" in node:
            return "%s!(%s)" % (node["name"], src(node["args"]))
        return "%s!(%s)" % (node["name"], node.get("raw", ""))
    if k == "binary":
        return "(%s %s %s)" % (src(node["lhs"]), node["op"], src(node["rhs"]))
    if k == "unary":
        return "%s%s" % (node["op"], src(node["e"]))
    if k == "ref":
        return "&%s%s" % ("mut " if node["mut"] else "", src(node["e"]))
    if k == "field":
        return "%s.%s" % (src(node["e"]), node["name"])
    if k == "tuple":
        return "(%s)" % src(node["elems"])
    if k == "try":
        return src(node["e"]) + "?"
    if k == "block":
        return "{%s}" % "; ".join(src(s) for s in node["stmts"])
    if k == "expr":
        return src(node["e"])
    if k == "let":
        return "let %s = %s" % (psrc(node["pat"]), src(node["init"]))
    if k == "match":
        return "match %s {%s}" % (src(node["scrut"]), ", ".join("%s => %s" % (psrc(a["pat"]), src(a["body"])) for a in node["arms"]))
    if k == "if":
        return "if %s %s else %s" % (src(node["cond"]), src(node["then"]), src(node["else"]))
    if k == "range":
        return "%s..%s%s" % (src(node["from"]) if node["from"] else "", "=" if node["closed"] else "", src(node["to"]) if node["to"] else "")
    if k == "return":
        return "return " + src(node["e"])
    if k == "cast":
        return "%s as %s" % (src(node["e"]), node["ty"])
    if k == "struct":
        return "%s{%s}" % ("::".join(node["segs"]), ", ".join("%s: %s" % (f["name"], src(f["e"])) for f in node["fields"]))
    if k == "assign":
        return "%s = %s" % (src(node["lhs"]), src(node["rhs"]))
    if k == "index":
        return "%s[%s]" % (src(node["e"]), src(node["idx"]))
    if k == "opaque":
        return node.get("src", "?")
    return "<%s>" % k


def psrc(p):
    k = p["k"]
    if k == "ident":
        return p["name"]
    if k == "wild":
        return "_"
    if k == "tuple":
        return "(%s)" % ",".join(psrc(e) for e in p["elems"])
    if k == "tstruct":
        return "%s(%s)" % ("::".join(p["segs"]), ",".join(psrc(e) for e in p["elems"]))
    if k == "path":
        return "::".join(p["segs"])
    if k == "or":
        return "|".join(psrc(c) for c in p["cases"])
    if k == "lit":
        return src(dict(p, k="lit"))
    if k == "ref":
        return "&" + psrc(p["pat"])
    if k == "typed":
        return psrc(p["pat"])
    if k == "rest":
        return ".."
    return "<%s>" % k


def api_fn(facts, name):
    """The function the crate exports under `name` at its root: the target of `pub use path::to::f [as name];` in lib.rs (the
    interface is what lib.rs exports, not which function happens to carry the name), else a root-level fn of that name."""
    for u in facts.uses.get((), []):
        if u.get("glob") or (u.get("alias") or (u.get("path") or [None])[-1]) != name:
            continue
        tail = [x for x in u["path"] if x not in ("crate", "self", "super")]
        hits = [k for k, fn in facts.fns.items() if tail and fn.impl is None and not fn.test and fn.name == tail[-1] and (k == "::".join(tail) or k.endswith("::" + "::".join(tail)))]
        if len(hits) == 1:
            return facts.fns[hits[0]]
    k = name
    if k in facts.fns and facts.fns[k].impl is None and not facts.fns[k].test:
        return facts.fns[k]
    return None
