"""C10 — output routing: mode choice and destination table."""
import json
import os
import re

from .. import facts as F
from .. import codegen, emit, mgr, sexp, rx, treeq
from ..facts import src, psrc, find_all, norm_ty
from . import c19, c09

PRINTING = {"Print", "PrintNull", "FilePrint", "FilePrintNull", "PrintFormatted", "FilePrintFormatted", "PrintFid", "DefaultPrint", "List", "FileList"}


def framed_manager(facts):
    """(framed, plain): the manager whose printer_map is Some(..) is the framed one."""
    fr, pl = None, None
    for M in codegen.MANAGERS:
        rows = codegen.table(facts, codegen.mgr_key(facts, M, "printer_map"), codegen.AFF())
        outs = {r["outcome"] for r in rows}
        if outs == {"ret:None"}:
            pl = M
        elif all(o.startswith("ret:Some(") for o in outs):
            fr = M
    return fr, pl


def one_index(facts, framed):
    """(site, instance, ok, detail, nontrivial) per definition-emitting path of the framed manager's printer methods: the binder's
    number, the frame tag written inside the printer and the table entry are one and the same counter value, and the tag is the
    two-digit hexadecimal character literal of it. Shared with C11 (the name must be bound to the printer that carries its own tag)."""
    out = []
    for meth in ("get_printer", "get_file_printer"):
        for p in mgr.paths(facts, framed, meth):
            if not p.pushes:
                continue
            site = "%s::%s" % (framed, meth)
            ins = [kv for fld, kv in p.inserts if fld == "printers"]
            ok1 = False
            det = "pushes %s" % [t for _, t, _, _ in p.pushes]
            if len(p.pushes) == 1 and len(ins) == 1:
                fld, text, toks, forms = p.pushes[0]
                form = forms[0] if forms and isinstance(forms[0], list) else None
                bm = mgr.NAME.fullmatch(form[0]) if form and isinstance(form[0], str) else None
                tags = [t for t in toks if t.startswith("#\\x")]
                if bm and len(tags) == 1:
                    tagidx = tags[0][3:]
                    name_i = mgr.idx_of(bm.group(2))
                    tag_i = mgr.idx_of(tagidx)
                    val_i = mgr.idx_of("{" + ins[0][1] + "}") if not ins[0][1].isdigit() else (None, int(ins[0][1]))
                    ok1 = name_i == tag_i == val_i and name_i[0] == "v" and bm.group(1) == "print"
                    det = "binder index %s, frame tag %s, table value %s (must be one value read before the bump)" % (name_i, tag_i, val_i)
                    spec_ok = tagidx.endswith(":02x}")
                    out.append((site, "tag is rendered as a character literal #\\xHH of the index", spec_ok, "tag literal %s" % tags[0], False))
            out.append((site, "name, tag and table entry are the same index [%s]" % (p.cond or "")[:40], ok1, det, True))
    return out


def run(c, facts, tier):
    c.trusted = ["E1 extractor", "emission interpreter", "spec/frames.json (statement of the property)"]
    c.explanation = (
        "Mode predicate by structural induction (shared with C19), manager choice in compile(), sharing keys (derive list of Target, key = all request parameters), "
        "single index for name/tag/table entry on every path of register_printer, inverse table, and 'every output-producing action goes through a manager printer in framed mode'."
    )
    c.decided = ["mode rule", "plain mode has no table", "tag = table key = printer of that (destination, terminator)", "equal pairs share, different pairs never share", "all bytes framed (except listed finding)"]
    c.not_decided = ["decoding of the byte stream by the consumer", "tags ≥ 256 (one character, several bytes)"]
    fspec = json.load(open(c19.FRAMES))
    ff = facts.fn("Expression::complex_frames")
    r2 = treeq.check_exists(facts, ff)
    c.ob("C10.predicate", ff.key, "recursive exists over every operator variant", r2["ok"], "; ".join(r2["problems"]) or "complete recursion; wildcard hides only %s" % r2["hidden"])
    lp = c19.frames_leaf(facts, r2, fspec)
    c.ob("C10.predicate", ff.key, "per-action rule equals the statement", not lp, "; ".join(lp) or "file-writing ×4, PrintNull → framed; PrintFormatted → last element not a newline escape; others plain", witness="-fprint out.txt" if lp else None)
    # C10.choice
    framed, plain = framed_manager(facts)
    c.ob("C10.choice", "scheme::manager", "exactly one manager reports a destination table", framed is not None and plain is not None, "framed=%s plain=%s (plain manager's printer_map is the constant None)" % (framed, plain))
    comp = c09.compile_fn(facts)
    from .. import toplevel

    T = toplevel.summary(facts)
    cf = "@0.%s()" % ff.name
    paths = T["paths"]

    def mgrs(val):
        out = set()
        for p_ in paths:
            if p_["conds"].get(cf) is val:
                for c_ in p_["calls"]:
                    if c_["method"] == "compile" and len(c_["args"]) >= 2:
                        out.add(toplevel.ctor_of(c_["args"][1]))
        return out

    branched = bool(paths) and all(cf in p_["conds"] for p_ in paths)
    mt, mf = mgrs(True), mgrs(False)
    ok = branched and mt == {"%s::default" % framed} and mf == {"%s::default" % plain} and not any(p_["unknown"] for p_ in paths)
    det = "complex_frames()=true compiles with %s, false with %s (framed manager: %s)" % (sorted(x or "?" for x in mt), sorted(x or "?" for x in mf), framed) if branched else "no branch on `%s` of the input selects the manager" % cf
    c.ob("C10.choice", comp.key, "framed manager iff complex_frames()", ok, det, witness="-print0 (needs framed) / -print (needs plain)" if not ok else None)
    okm = bool(paths)
    for p_ in paths:
        if p_["outcome"] != "ok" or not p_["fields"]:
            continue
        io = p_["fields"].get("io_map")
        used = {toplevel.ctor_of(c_["args"][1]) for c_ in p_["calls"] if c_["method"] == "compile" and len(c_["args"]) >= 2}
        if not (isinstance(io, dict) and io.get("kind") == "mcall" and io.get("method") == "printer_map" and {toplevel.ctor_of(io)} == used):
            okm = False
    c.ob("C10.choice", comp.key, "the destination table is the selected manager's", okm, "io_map: manager.printer_map(): %s" % okm)
    # on the resolved program: the manager methods compile() calls are dispatched on the selected manager itself (a `dyn
    # SchemeManager` virtual call, or one of the two manager types) — not on an impl for a wrapper type (Box<M>, &mut M)
    # whose provided methods would answer instead of the manager's own
    from .. import mir as _mir

    m_ = _mir.load(True)
    disp, ncalls = [], 0
    for pth, bd in m_.bodies.items():
        own = _mir.e1_key(pth, facts)
        if own is None or own not in facts.fns or tuple(facts.fns[own].module) != tuple(comp.module) or facts.fns[own].test:
            continue  # compile() and the helpers of its module
        for cl in bd["calls"]:
            if cl["callee"].split("::")[-2:-1] == ["SchemeManager"]:
                ncalls += 1
                g0 = cl["generics"].lstrip("[")
                okd = g0.startswith("dyn ") or any(g0.startswith(("scheme::manager::%s" % M_, M_)) for M_ in codegen.MANAGERS) or g0.startswith("M/#") or g0.startswith("impl ")
                if not okd:
                    disp.append("%s on %s" % (cl["callee"].split("::")[-1], g0[:60]))
    c.ob("C10.choice", comp.key, "manager methods are dispatched on the selected manager", ncalls >= 1 and not disp, "%d SchemeManager calls in compile(); dispatched on a wrapper type: %s" % (ncalls, disp or "none"), nontrivial=False)
    # C10.key — Target derives, keys
    tgt = facts.enum("Target")
    der = facts.derives(tgt)
    manual = [i for _, _, i in facts.impls if norm_ty(i["self_ty"]) == "Target" and i["trait"] and norm_ty(i["trait"]).split("::")[-1] in ("PartialEq", "Eq", "Hash")]
    c.ob("C10.key", "Target", "equality and hash cover every field (derived)", all(d in der for d in ("PartialEq", "Eq", "Hash")) and not manual, "derives %s; hand-written impls: %d" % (der, len(manual)))
    fields_ok = all(any("Option<char>" == facts.unalias(f["ty"]) for f in v["fields"]) for v in tgt["variants"]) and any(any(facts.unalias(f["ty"]) == "String" for f in v["fields"]) for v in tgt["variants"])
    c.ob("C10.key", "Target", "a target records destination and terminator", fields_ok, "variants: %s" % [(v["name"], [facts.unalias(f["ty"]) for f in v["fields"]]) for v in tgt["variants"]])
    op = facts.struct("OpenPort")
    c.ob("C10.key", "OpenPort", "port records are compared by value (derived)", all(d in facts.derives(op) for d in ("PartialEq", "Eq", "Hash")), "derives %s" % facts.derives(op), nontrivial=False)
    for M in (framed, plain):
        if M is None:
            continue
        for meth in ("get_printer", "get_file_printer"):
            ps = mgr.paths(facts, M, meth)
            fn = facts.fn(codegen.mgr_key(facts, M, meth))
            keys = {p.norm(kv[0]) for p in ps for fld, kv in p.inserts if fld == "printers"}
            for key in keys:
                missing = [i for i in range(len(fn.params)) if "@%d" % i not in key]
                c.ob("C10.key", "%s::%s" % (M, meth), "printer key contains destination and terminator", not missing, "key %s; parameters missing: %s" % (key, [fn.params[i][0] for i in missing]), witness="-fprint a -fprint0 a" if missing else None)
            c.ob("C10.key", "%s::%s" % (M, meth), "a printer is registered under a key", bool(keys), "keys: %s" % sorted(keys), nontrivial=False)
            if M == framed:
                # the key *is* the table entry reported to the caller: it must carry the request's own values, not a
                # function of them (an escaped or normalised file name is not the destination that was asked for)
                for key in keys:
                    stripped = re.sub(r'Target::(File|Stdout)|"\{@\d+\}"|@\d+|[(),\s]', "", key)
                    c.ob("C10.key", "%s::%s" % (M, meth), "the table entry names the destination and terminator as given", stripped == "", "table key %s%s" % (key, "" if stripped == "" else " — contains a derived value (%s): the entry no longer names the destination of the action" % stripped[:60]), witness="-fprint 'a\"b'" if stripped else None)
            for p in ps:
                for fld, kv in p.inserts:
                    c.ob("C10.key", "%s::%s" % (M, meth), "%s lookup key = insertion key [%s]" % (fld, (p.cond or "")[:50]), p.norm(kv[0]) in p.norm(p.cond), "inserted under %s" % p.norm(kv[0]), nontrivial=False)
    # C10.returned: on every path the printer handed back is the one registered under the key of THIS request
    for M in (framed, plain):
        if M is None:
            continue
        for meth in ("get_printer", "get_file_printer"):
            fn = facts.fn(codegen.mgr_key(facts, M, meth))
            for p in mgr.paths(facts, M, meth):
                ret = p.ret
                nm = next(iter(mgr.NAME.finditer(ret)), None)
                ok, det = None, "returned value %s is not a generated printer name" % ret[:80]
                if nm is not None and nm.kind == "print":
                    idx = nm.idx[1:-1] if nm.idx.startswith("{") else nm.idx
                    keys = [p.norm(kv[0]) for fld, kv in p.inserts if fld == "printers"]
                    inserted = [kv[1] for fld, kv in p.inserts if fld == "printers"]
                    idx = p.norm(idx)
                    viakey = "self.printers.get(" in idx and all("@%d" % i in idx for i in range(len(fn.params)))
                    direct = idx in inserted and keys and all("@%d" % i in keys[0] for i in range(len(fn.params)))
                    ok = bool(viakey or direct)
                    det = "returns print:%s — %s" % (idx[:90], "the entry stored under the (destination, terminator) key of this request" if ok else "NOT derived from the key of this request: a printer registered for another (destination, terminator) pair can be handed out")
                c.ob("C10.returned", "%s::%s" % (M, meth), "[%s]" % (p.cond or "unconditional")[:70], ok, det, witness="-fprint a.out -fprint0 a.out" if ok is False else None)
    # C10.one-index on the framed manager
    if framed:
        for site, inst, okx, det, nt in one_index(facts, framed):
            c.ob("C10.one-index", site, inst, okx, det, nontrivial=nt)
        # inverse table
        pk = codegen.mgr_key(facts, framed, "printer_map")
        # the table returned is the printer registry turned around: one entry (index, destination) per registered printer,
        # whatever the spelling (iterator chain collected into a map, or a loop inserting into a fresh map)
        oki, seen_tbl = False, []
        for st_, v_ in codegen.run(facts, pk, codegen.AFF()):
            x_ = v_.get("x") if isinstance(v_, dict) and v_.get("v") == "some" else None
            if st_.unknown:
                seen_tbl.append("not modelled: %s" % st_.unknown[:2])
                continue
            if not (isinstance(x_, dict) and x_.get("v") == "mapped" and emit.canon(x_.get("of")) == "self.printers" and len(x_["elems"]) == 1 and not x_["elems"][0][0]):
                seen_tbl.append(emit.canon(v_)[:80] if isinstance(v_, dict) else str(v_))
                continue
            el = x_["elems"][0][1]
            if isinstance(el, dict) and el.get("v") == "tuple" and len(el["xs"]) == 2:
                a_, b2 = [emit.canon(q) for q in el["xs"]]
                seen_tbl.append("(%s, %s)" % (a_, b2))
                oki = a_.endswith(".1") and b2.endswith(".0") and a_[:-2] == b2[:-2] and not x_.get("adaptors")
            else:
                seen_tbl.append(emit.canon(el)[:80] if isinstance(el, dict) else str(el))
        c.ob("C10.choice", pk, "the table is the inverse of the printer registry (tag → target)", oki, "per registered printer (key, index) the table gets the entry %s; required (index, key)" % seen_tbl)
    # C10.all-framed
    arows = codegen.expand(codegen.table(facts, "<Action as TargetScheme>::compile"))
    nact = 0
    for key, row in sorted(arows.items()):
        m = re.match(r"self∈Action::(\w+)", key)
        if not m or not row["outcome"].startswith("ok"):
            continue
        a = m.group(1)
        if a not in PRINTING:
            # must not write anything: no print-like call
            writes = [t for t in row["tokens"] if re.search(r"print|display|write|format", t)]
            c.ob("C10.all-framed", "<Action as TargetScheme>::compile", "%s produces no output" % a, not writes, "tokens %s" % row["tokens"], nontrivial=False)
            continue
        nact += 1
        via = any("mgr.get_printer" in t or "mgr.get_file_printer" in t for t in row["tokens"])
        if via:
            c.ob("C10.all-framed", "<Action as TargetScheme>::compile", a, True, "%s obtains its printer from the manager: `%s`" % (a, " ".join(row["tokens"])))
        elif a == "DefaultPrint":
            okp, badp = c09.premises_hold(facts)
            c.ob("C10.all-framed", "<Action as TargetScheme>::compile", a, okp, "DefaultPrint prints directly; that is harmless only because it exists solely in expressions without any action (then complex_frames() is false and the plain manager is in use) — premises C09.detect/C09.wrap %s" % ("hold" if okp else "are VIOLATED: %s" % badp[:2]), witness="-name a -fprint out.txt -o -name b" if not okp else None)
        else:
            c.ob(
                "C10.all-framed",
                "<Action as TargetScheme>::compile",
                a,
                False,
                "%s emits the direct runtime print `%s` without a printer; together with an action that forces framed mode its output is written outside any frame" % (a, " ".join(row["tokens"])),
                witness="-print-file-fid -print0" if a == "PrintFid" else None,
            )
    from .. import report as _rep

    _rep.require(c, facts, "c02", "C10.key", "printer requests", "each printing action asks the manager for its own destination (the argument as written) and terminator", lambda o: o["rule"] == "C02.action" and " uses printer " in o["instance"], "the destination table lists what the manager was asked for: it names the action's real destination only if the request carries the action's own argument unchanged (an argument escaped, trimmed or swapped at the call site ends up in the table as is — seed C10/AE) and its own terminator: decided by the C02.action rows")
    c.floor("printing actions that compile", nact, 8)
    c.control("C10.all-framed", True, "the rule distinguishes rows with and without a mgr.get_*printer hole (DefaultPrint/PrintFid rows have none)")
