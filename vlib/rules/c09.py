"""C09 — implicit print is added exactly when no action is present."""
import json

from .. import emit, facts as F
from .. import rx, treeq, codegen
from ..facts import src, psrc, find_all


def compile_fn(facts):
    from .. import toplevel

    return toplevel.compile_fn(facts)


def premises_hold(facts):
    """DefaultPrint occurs only in trees without any action (used by C10/C16 to discharge its direct print):
    action() is a complete recursive exists and compile() wraps only when it is false."""
    class _Null:
        def __init__(self):
            self.bad = []

        def ob(self, rule, site, inst, ok, *a, **k):
            if ok is not True and rule.startswith("C09."):
                self.bad.append("%s : %s : %s" % (rule, site, inst))
            return ok is True

        def control(self, *a, **k):
            pass

        def floor(self, *a, **k):
            pass

        trusted = []
        explanation = ""
        decided = []
        not_decided = []

    n = _Null()
    try:
        run(n, facts, "quick")
    except Exception as e:  # fail closed
        n.bad.append("C09 rules could not be evaluated: %s" % e)
    return (not n.bad), n.bad


def run(c, facts, tier):
    c.trusted = ["E1 extractor", "emission interpreter (vlib/emit.py)"]
    c.explanation = (
        "action() is proved a correct recursive 'exists' by structural induction (shared with C19); compile() is checked to wrap the *whole* input expression as "
        "And(exp, Action(DefaultPrint)) exactly in the branch where action() is false and to compile that target; DefaultPrint emits the path-printing call only and has no other constructor site."
    )
    c.decided = ["print added iff no action at any depth", "wrap is And(whole expression, default print)", "nothing added otherwise"]
    c.not_decided = ["what (print-relative-path) prints at run time"]
    from .. import report as _rep

    _rep.require(c, facts, "c01", "C09.detect", "parse", "every action written in the text is an action node of the tree", lambda o: o["rule"] in ("C01.api", "C01.lex-ops", "C01.atom", "C01.token-eq"), "which actions the compiled tree contains is decided by the C01 rules on the glue, the token classes and the atom table")
    fa = facts.fn("Expression::action")
    r = treeq.check_exists(facts, fa)
    c.ob("C09.detect", fa.key, "action() = 'an action node occurs at some depth'", r["ok"], "; ".join(r["problems"]) or "complete recursion over Precedence/Not/And/Or/List; wildcard hides only %s" % r["hidden"], witness="! -print  /  -false -o -print" if not r["ok"] else None)
    act_vals = {a: [v_ for _, v_ in rows] for a, rows in (r.get("action") or {}).items()}
    leaf_ok = bool(act_vals) and all(all(v_ is True for v_ in vs) for vs in act_vals.values())
    c.ob("C09.detect", fa.key, "Action(_) → true", leaf_ok, "value for an action node: %s" % ({a: sorted(set(map(str, vs))) for a, vs in act_vals.items() if not all(v_ is True for v_ in vs)} or "true for all %d actions" % len(act_vals)))
    # exp.clone() must be a faithful copy: Clone is derived on every AST type, no hand-written impl
    ast_types = ["Expression", "Operator", "Test", "Action", "Comparison", "Size", "TimeSpec", "FileType", "PermCheck", "Permission", "FormatElement", "FormatField", "FormatSpecial", "GlobalOption", "PositionalOption"]
    bad = []
    for tname in ast_types:
        d_ = facts.enums.get(tname) or facts.structs.get(tname)
        if d_ is None:
            continue
        manual = [i for _, _, i in facts.impls if F.norm_ty(i["self_ty"]).split("<")[0] == tname and i["trait"] and F.norm_ty(i["trait"]).split("::")[-1] in ("Clone", "PartialEq")]
        if "Clone" not in facts.derives(d_) or manual:
            bad.append("%s (derives %s, manual impls %d)" % (tname, facts.derives(d_), len(manual)))
    c.ob("C09.wrap", "ast", "cloning an expression yields an equal expression (derived Clone on every AST type)", not bad, "not derived / hand-written: %s" % bad if bad else "%d AST types derive Clone and PartialEq" % len(ast_types), nontrivial=False)
    comp = compile_fn(facts)
    from .. import toplevel

    T = toplevel.summary(facts)
    act = "@0.%s()" % fa.name
    WRAP = "Expression::Operator(Operator::And(@0,Expression::Action(Action::DefaultPrint)))"
    paths = T["paths"]
    unk = sorted({u for p_ in paths for u in p_["unknown"]})
    branched = bool(paths) and all(act in p_["conds"] for p_ in paths)
    c.ob("C09.wrap", comp.key, "conditional wrap present", branched and not unk, ("every path of %s branches on %s of the input expression" % (comp.key, act)) if branched else "no branch on `%s` of the input selects the compiled target in %s" % (act, comp.key), witness="-true  (nothing would be printed)" if not branched else None)
    if not branched:
        return
    def targets(val):
        out = set()
        for p_ in paths:
            if p_["conds"].get(act) is val:
                cs = [c_ for c_ in p_["calls"] if c_["method"] == "compile"]
                out.add(tuple(emit.canon(c_["recv"]) for c_ in cs))
        return out
    tw, tk = targets(False), targets(True)
    c.ob(
        "C09.wrap",
        comp.key,
        "no action ⇒ And(whole expression, Action(DefaultPrint))",
        tw == {(WRAP,)},
        "when %s is false the expression compiled is %s — the whole input must be the single left operand so the print binds looser than anything inside" % (act, sorted(tw)),
        witness="-false -o -true  (must print exactly when the OR is true)" if tw != {(WRAP,)} else None,
    )
    c.ob("C09.wrap", comp.key, "some action ⇒ expression unchanged", tk == {("@0",)}, "when %s is true the expression compiled is %s" % (act, sorted(tk)))
    ncalls = {len([c_ for c_ in p_["calls"] if c_["method"] == "compile"]) for p_ in paths if p_["outcome"] == "ok"}
    c.ob("C09.wrap", comp.key, "the selected target is what gets compiled", ncalls == {1}, "compile() invocations per successful path: %s (exactly one, on the selected target)" % sorted(ncalls))
    # C09.default
    rows = codegen.expand(codegen.table(facts, "<Action as TargetScheme>::compile"))
    dp = rows.get("self∈Action::DefaultPrint")
    c.ob("C09.default", "<Action as TargetScheme>::compile", "DefaultPrint emits the path-printing call only", dp is not None and dp["tokens"] == ["(", "print-relative-path", ")"] and dp["outcome"] == "ok", "DefaultPrint emits `%s`" % (" ".join(dp["tokens"]) if dp else None))
    sites = []
    for fn in facts.nontest_fns():
        for n in find_all(fn.body, lambda n: n.get("k") == "path" and n["segs"][-1] == "DefaultPrint" and len(n["segs"]) >= 2, skip_pats=True):
            sites.append(fn.key)
    patsites = []
    # the wrap may live in compile() or in a private helper that only compile() (transitively) calls
    allowed = {comp.key}
    grew = True
    while grew:
        grew = False
        for k_, fn_ in facts.fns.items():
            if k_ in allowed or fn_.test or fn_.node.get("vis") == "pub":
                continue
            callers = [g_.key for g_ in facts.nontest_fns() if g_.key != k_ and find_all(g_.body, lambda n: (n.get("k") == "mcall" and n["m"] == fn_.name) or (n.get("k") == "call" and n["f"]["k"] == "path" and n["f"]["segs"][-1] == fn_.name))]
            if callers and all(c_ in allowed for c_ in callers):
                allowed.add(k_)
                grew = True
    c.ob("C09.default", "crate", "DefaultPrint is constructed only by the wrap", bool(sites) and set(sites) <= allowed, "expression-position uses of Action::DefaultPrint: %s; compile() and the private helpers only it calls: %s" % (sorted(set(sites)), sorted(allowed)))
    fx = {"k": "binary", "op": "&&", "lhs": {"k": "lit", "t": "bool", "v": True}, "rhs": {"k": "lit", "t": "bool", "v": True}}
    c.control("C09.detect", len(treeq.or_operands(fx)) == 1, "fixture `e1.action() && e2.action()` is rejected")
