"""C09 — implicit print is added exactly when no action is present."""
import json

from .. import facts as F
from .. import rx, treeq, codegen
from ..facts import src, psrc, find_all


def compile_fn(facts):
    for k, fn in facts.fns.items():
        if fn.name == "compile" and fn.impl is None and not fn.test and fn.node["vis"] == "pub":
            return fn
    raise F.AnchorMissing("public compile function")


def premises_hold(facts):
    """DefaultPrint occurs only in trees without any action (used by C10/C16 to discharge its direct print):
    action() is a complete recursive exists and compile() wraps only when it is false."""
    class _Null:
        def __init__(self):
            self.bad = []

        def ob(self, rule, site, inst, ok, *a, **k):
            if ok is not True and rule.startswith("C09."):
                self.bad.append("%s : %s : %s" % (rule, site, inst))
            return ok is True

        def control(self, *a, **k):
            pass

        def floor(self, *a, **k):
            pass

        trusted = []
        explanation = ""
        decided = []
        not_decided = []

    n = _Null()
    try:
        run(n, facts, "quick")
    except Exception as e:  # fail closed
        n.bad.append("C09 rules could not be evaluated: %s" % e)
    return (not n.bad), n.bad


def run(c, facts, tier):
    c.trusted = ["E1 extractor", "emission interpreter (vlib/emit.py)"]
    c.explanation = (
        "action() is proved a correct recursive 'exists' by structural induction (shared with C19); compile() is checked to wrap the *whole* input expression as "
        "And(exp, Action(DefaultPrint)) exactly in the branch where action() is false and to compile that target; DefaultPrint emits the path-printing call only and has no other constructor site."
    )
    c.decided = ["print added iff no action at any depth", "wrap is And(whole expression, default print)", "nothing added otherwise"]
    c.not_decided = ["what (print-relative-path) prints at run time"]
    fa = facts.fn("Expression::action")
    r = treeq.check_exists(facts, fa)
    c.ob("C09.detect", fa.key, "action() = 'an action node occurs at some depth'", r["ok"], "; ".join(r["problems"]) or "complete recursion over Precedence/Not/And/Or/List; wildcard hides only %s" % r["hidden"], witness="! -print  /  -false -o -print" if not r["ok"] else None)
    leaf_ok = r["leaf"] is not None and rx.peel(r["leaf"]["body"])["k"] == "lit" and rx.peel(r["leaf"]["body"])["v"] is True
    c.ob("C09.detect", fa.key, "Action(_) → true", leaf_ok, "Action arm: %s" % (src(r["leaf"]["body"]) if r["leaf"] else None))
    # exp.clone() must be a faithful copy: Clone is derived on every AST type, no hand-written impl
    ast_types = ["Expression", "Operator", "Test", "Action", "Comparison", "Size", "TimeSpec", "FileType", "PermCheck", "Permission", "FormatElement", "FormatField", "FormatSpecial", "GlobalOption", "PositionalOption"]
    bad = []
    for tname in ast_types:
        d_ = facts.enums.get(tname) or facts.structs.get(tname)
        if d_ is None:
            continue
        manual = [i for _, _, i in facts.impls if F.norm_ty(i["self_ty"]).split("<")[0] == tname and i["trait"] and F.norm_ty(i["trait"]).split("::")[-1] in ("Clone", "PartialEq")]
        if "Clone" not in facts.derives(d_) or manual:
            bad.append("%s (derives %s, manual impls %d)" % (tname, facts.derives(d_), len(manual)))
    c.ob("C09.wrap", "ast", "cloning an expression yields an equal expression (derived Clone on every AST type)", not bad, "not derived / hand-written: %s" % bad if bad else "%d AST types derive Clone and PartialEq" % len(ast_types), nontrivial=False)
    comp = compile_fn(facts)
    expname = comp.params[0][0]
    # let target = if !exp.action() { wrap } else { exp.clone() };
    tgt = None
    for st in comp.body["stmts"]:
        if st["k"] == "let" and st["init"] is not None and st["init"]["k"] == "if":
            cond = st["init"]["cond"]
            if find_all(cond, lambda n: n.get("k") == "mcall" and n["m"] == fa.name):
                tgt = st
    if tgt is None:
        c.ob("C09.wrap", comp.key, "conditional wrap present", False, "no `if … action()` selecting the compiled target in %s" % comp.key, witness="-true  (nothing would be printed)")
        return
    iff = tgt["init"]
    cond = iff["cond"]
    neg = cond["k"] == "unary" and cond["op"] == "!"
    call = cond["e"] if neg else cond
    call_ok = call["k"] == "mcall" and call["m"] == fa.name and rx.is_var(call["recv"], expname) and not call["args"]
    wrap_branch, keep_branch = (iff["then"], iff["else"]) if neg else (iff["else"], iff["then"])
    c.ob("C09.wrap", comp.key, "condition is action() of the input expression", call_ok, "condition `%s` on parameter `%s`" % (src(cond), expname))
    wb = rx.peel(wrap_branch) if wrap_branch is not None else None
    ok = False
    det = "wrap branch: %s" % (src(wb) if wb else None)
    if wb is not None:
        chain, args = rx.ctor_chain(wb)
        if chain and args is not None and len(args) == 2:
            names = [x.split("::")[-1] for x in chain]
            a1 = rx.peel(args[1])
            ok = names[0] == "Operator" and names[-1] == "And" and rx.is_var(args[0], expname) and src(a1) in ("Expression::Action(Action::DefaultPrint)",)
    c.ob(
        "C09.wrap",
        comp.key,
        "no action ⇒ And(whole expression, Action(DefaultPrint))",
        ok,
        det + " — the whole input must be the single left operand so the print binds looser than anything inside",
        witness="-false -o -true  (must print exactly when the OR is true)" if not ok else None,
    )
    kb = rx.peel(keep_branch) if keep_branch is not None else None
    c.ob("C09.wrap", comp.key, "some action ⇒ expression unchanged", kb is not None and rx.is_var(kb, expname), "other branch: %s" % (src(kb) if kb else None))
    tname = rx.pat_bindings(tgt["pat"])
    uses = find_all(comp.body, lambda n: n.get("k") == "mcall" and n["m"] == "compile" and tname and rx.is_var(n["recv"], tname[0]))
    other = find_all(comp.body, lambda n: n.get("k") == "mcall" and n["m"] == "compile" and rx.is_var(n["recv"], expname))
    c.ob("C09.wrap", comp.key, "the selected target is what gets compiled", len(uses) == 1 and not other, "compile() is called on %s (%d site), on the raw input %d time(s)" % (tname, len(uses), len(other)))
    # C09.default
    rows = codegen.expand(codegen.table(facts, "<Action as TargetScheme>::compile"))
    dp = rows.get("self∈Action::DefaultPrint")
    c.ob("C09.default", "<Action as TargetScheme>::compile", "DefaultPrint emits the path-printing call only", dp is not None and dp["tokens"] == ["(", "print-relative-path", ")"] and dp["outcome"] == "ok", "DefaultPrint emits `%s`" % (" ".join(dp["tokens"]) if dp else None))
    sites = []
    for fn in facts.nontest_fns():
        for n in find_all(fn.body, lambda n: n.get("k") == "path" and n["segs"][-1] == "DefaultPrint" and len(n["segs"]) >= 2, skip_pats=True):
            sites.append(fn.key)
    patsites = []
    c.ob("C09.default", "crate", "DefaultPrint is constructed only by the wrap", sorted(set(sites)) == [comp.key], "expression-position uses of Action::DefaultPrint: %s" % sorted(set(sites)))
    fx = {"k": "binary", "op": "&&", "lhs": {"k": "lit", "t": "bool", "v": True}, "rhs": {"k": "lit", "t": "bool", "v": True}}
    c.control("C09.detect", len(treeq.or_operands(fx)) == 1, "fixture `e1.action() && e2.action()` is rejected")
