"""C15 — parsing and compiling are deterministic functions of their input (effect analysis on the resolved call graph)."""
import re

from .. import facts as F
from .. import mir, rx, codegen, emit
from ..facts import src, find_all, norm_ty

AMBIENT = re.compile(
    r"^(std::time::(SystemTime|Instant)::(now|elapsed)|instant::|std::env::|std::fs::|std::process::(id|Command)|std::thread::(current|sleep|spawn|park)|std::io::(stdin|stdout|stderr)"
    r"|std::net::|std::os::|rand::|getrandom::|fastrand::|std::hash::RandomState::new|std::collections::hash_map::RandomState::new|std::ptr::addr_of|<\*const T as std::fmt::Pointer>|<&T as std::fmt::Pointer>|std::fmt::Pointer::fmt"
    r"|std::alloc::|std::panic::Location::caller|std::backtrace::|std::any::type_name)"
)
CLOCK = re.compile(r"^std::time::SystemTime::now$|^instant::")
HASH_ITER = re.compile(r"std::collections::(hash_map::)?Hash(Map|Set)::<.*>::(iter|iter_mut|keys|values|values_mut|into_keys|into_values|drain|retain|extract_if)$|IntoIterator for &?(mut )?std::collections::Hash(Map|Set)<|<&?(mut )?std::collections::Hash(Map|Set)<.*> as std::iter::IntoIterator>::into_iter|<std::collections::Hash(Map|Set)<.*> as std::fmt::Debug>::fmt")
ORDER_FREE_SINKS = {"any", "all", "count", "sum", "min", "max", "len", "is_empty", "contains", "contains_key", "for_each_unordered", "fold_unordered"}
STATEFUL_MACROS = {"thread_local", "lazy_static", "static_init", "once_cell"}
STATE_TYPES = re.compile(r"\b(OnceCell|OnceLock|LazyLock|LazyCell|Lazy|Mutex|RwLock|RefCell|Cell|Atomic[A-Za-z0-9]+|UnsafeCell)\b")


def run(c, facts, tier):
    c.trusted = ["E2 MIR facts: resolved callee of every call terminator in every body of the crate, Freeze-ness of every local type, statics", "E1 extractor", "std: HashMap iteration is the only source of order nondeterminism in safe std collections"]
    c.assumptions = ["the wall clock does not go backwards during one compile call"]
    c.explanation = (
        "Effect analysis: no body of the crate calls into ambient state (clock, environment, file system, process/thread identity, randomness, address formatting) except the single allow-listed SystemTime::now in the "
        "time-test generator; no retained state (no static mut, no interior mutability in statics or in any crate type, no thread_local!/lazy statics; both managers are locals of compile()); every iteration over a hash "
        "collection ends in an order-insensitive sink; the clock is reachable only below compile(), read afresh per time test, and flows into the text only as whole seconds. A function with no ambient reads and no retained "
        "state is a function of its arguments."
    )
    c.decided = ["same text ⇒ equal parse results (any process)", "equal trees ⇒ byte-identical programs and equal tables, up to the embedded second", "embedded second is read during the compile call"]
    c.not_decided = ["monotonicity of the wall clock (assumption)"]
    from .. import report as _rep

    _rep.require(c, facts, "c10", "C15.hash-order", "destination table", "the indices used as keys of the destination table are pairwise distinct", lambda o: o["rule"] in ("C10.one-index",), "collecting the printer registry into the table forgets the iteration order only if no two printers have the same index: decided by C10.one-index (index = the counter value read before the bump)")
    m = mir.load(True)
    # ---------------------------------------------------------------- ambient
    clock_sites = []
    namb = 0
    for p, bd in sorted(m.bodies.items()):
        for cl in bd["calls"]:
            t = cl["resolved"] or cl["callee"]
            for name in {t, cl["callee"]}:
                if AMBIENT.search(name):
                    namb += 1
                    if CLOCK.search(name):
                        clock_sites.append((p, cl))
                    else:
                        c.ob("C15.ambient", mir.e1_key(p, facts) or p, name, False, "call into ambient state `%s`: the result of parse/compile would depend on it" % name, witness="run twice in different processes/environments")
                    break
    owners = sorted({mir.e1_key(p, facts) or p for p, _ in clock_sites})
    troots = [p_ for p_ in m.bodies if mir.e1_key(p_, facts) == "<Test as TargetScheme>::compile"]
    treach = m.reachable(troots)
    in_tests = bool(clock_sites) and all(p_ in treach for p_, _ in clock_sites)
    c.ob("C15.ambient", "crate", "the only ambient read is one clock read in the time-test generator", in_tests and len(clock_sites) == 1, "clock reads: %s (%d site(s)); other ambient calls are reported individually" % (owners, len(clock_sites)))
    c.analysed["call_edges"] = sum(len(x["calls"]) for x in m.bodies.values())
    c.analysed["mir_bodies"] = len(m.bodies)
    # ---------------------------------------------------------------- no-state
    for s_ in m.statics:
        c.ob("C15.no-state", s_["path"], "static is immutable and Freeze", (not s_["mut"]) and s_["freeze"], "static %s: mut=%s freeze=%s type %s" % (s_["path"], s_["mut"], s_["freeze"], s_["ty"]), witness="a value computed by an earlier call survives into the next" if s_["mut"] or not s_["freeze"] else None)
    c.ob("C15.no-state", "crate", "statics census", True, "%d static(s) in the crate" % len(m.statics), nontrivial=False)
    macs = []
    for fn in facts.nontest_fns():
        for x in find_all(fn.body, lambda x: x.get("k") == "macro" and x["name"] in STATEFUL_MACROS):
            macs.append("%s: %s!" % (fn.key, x["name"]))
    macs += ["%s!" % mi["name"] for mi in facts.macro_items if mi["name"] in STATEFUL_MACROS]
    c.ob("C15.no-state", "crate", "no thread_local!/lazy statics", not macs, "stateful macros: %s" % macs if macs else "none")
    # interior mutability in any crate type (Rc's counters are the known exception: Rc<Operator> is not Freeze but holds no user-visible state)
    bad = []
    for path, a in sorted(m.adts.items()):
        if a["generic"] or a["freeze"]:
            continue
        name = path.split("::")[-1]
        decl = facts.enums.get(name) or facts.structs.get(name)
        tys = []
        if decl is not None:
            if decl["k"] == "enum":
                tys = [f["ty"] for v in decl["variants"] for f in v["fields"]]
            else:
                tys = [f["ty"] for f in decl["fields"]]
        via_rc_only = decl is not None and not any(STATE_TYPES.search(t) for t in tys) and any("Rc<" in t or t in ("Expression", "Operator") or "Expression" in t for t in tys)
        if not via_rc_only:
            bad.append(path)
    c.ob("C15.no-state", "crate types", "no interior mutability in crate types", not bad, "non-Freeze types other than through Rc's reference counts: %s" % bad if bad else "%d local types; non-Freeze only via Rc<Operator> (reference counts)" % len(m.adts))
    synt = []
    for name, decl in list(facts.structs.items()) + list(facts.enums.items()):
        tys = [f["ty"] for f in decl["fields"]] if decl["k"] == "struct" else [f["ty"] for v in decl["variants"] for f in v["fields"]]
        for t in tys:
            if STATE_TYPES.search(t):
                synt.append("%s: %s" % (name, t))
    c.ob("C15.no-state", "crate types", "no Cell/RefCell/Mutex/Once* field (syntactic cross-check)", not synt, "fields: %s" % synt if synt else "none", nontrivial=False)
    comp = None
    for k, fn in facts.fns.items():
        if fn.name == "compile" and fn.impl is None and not fn.test and fn.node["vis"] == "pub":
            comp = fn
    from .. import toplevel

    T = toplevel.summary(facts)
    made = set()
    fresh = bool(T["paths"])
    for p_ in T["paths"]:
        for c_ in p_["calls"]:
            if c_["method"] == "compile" and len(c_["args"]) >= 2:
                k_ = toplevel.ctor_of(c_["args"][1])
                made.add(k_)
                if not (k_ and k_.endswith("::default") and k_.split("::")[0] in codegen.MANAGERS):
                    fresh = False
    params_mgr = [p for p in comp.params if "Manager" in p[1]]
    c.ob("C15.no-state", comp.key, "a fresh manager per compile call", fresh and len(made) == 2 and not params_mgr, "managers handed to the expression's compile() on the paths of %s: %s (each constructed by Default inside the call); passed in from outside: %s" % (comp.key, sorted(x or "?" for x in made), params_mgr))
    # ---------------------------------------------------------------- keys: equality and hash agree
    # a key type whose `==` and `hash` are not both the derived ones may call two keys equal that hash differently: whether a
    # lookup then finds the entry depends on the per-process seed of the hasher — the same input compiles to different programs
    from .. import valuetraits as _vt

    kp_ = _vt.key_problems(facts)
    c.ob("C15.hash-order", "hash keys", "equality and hash of every map key type are the derived ones (consistent with each other)", not kp_, "key types: %s%s" % (sorted(_vt.key_types(facts)), ("; NOT derived: %s" % kp_) if kp_ else ""), witness="-fprint out -fprint0 out (compiled repeatedly)" if kp_ else None)
    # ---------------------------------------------------------------- logging must not carry behaviour
    PURE = {"len", "is_empty", "to_string", "clone", "as_ref", "as_str", "iter", "count", "as_slice", "display", "to_owned"}
    nlog = 0
    for fn in facts.nontest_fns():
        for x in find_all(fn.body, lambda x: x.get("k") == "macro" and x["name"] in ("trace", "debug", "info", "warn", "error", "log")):
            nlog += 1
            eff = []
            for a in x.get("args", [])[1:] if x.get("args") else []:
                for n_ in find_all(a, lambda n_: n_.get("k") in ("call", "mcall", "assign", "macro", "closure")):
                    if n_["k"] == "mcall" and n_["m"] in PURE:
                        continue
                    eff.append(src(n_)[:50])
                if a.get("k") == "binary" and a["op"].endswith("=") and a["op"] not in ("==", "!=", "<=", ">="):
                    eff.append(src(a)[:50])
            c.ob("C15.no-state", fn.key, "log statement has no effect besides logging", not eff, "arguments of %s!: %s" % (x["name"], "pure" if not eff else "contain calls/assignments %s — evaluated only when that log level is enabled" % eff), nontrivial=False)
    c.analysed["log_statements"] = nlog
    # ---------------------------------------------------------------- hash-order
    nh = 0
    for p, bd in sorted(m.bodies.items()):
        fn = mir.e1_key(p, facts)
        for cl in bd["calls"]:
            t = cl["resolved"] or cl["callee"]
            if not (HASH_ITER.search(t) or HASH_ITER.search(cl["callee"])):
                continue
            if fn is None:
                continue
            nh += 1
            f = facts.fns[fn]
            # locate the iteration in the syntax: a method chain on a hash-typed field/local that contains iter/keys/values/…
            chains = []
            for x in find_all(f.body, lambda x: x.get("k") == "mcall") + [y for a_ in (f.node.get("_asserts") or []) for y in find_all(a_, lambda x: x.get("k") == "mcall")]:
                base, ch = rx.method_chain(x)
                ms = [mm for mm, _, _ in ch]
                if any(mm in ("iter", "keys", "values", "into_iter", "drain", "iter_mut", "values_mut", "into_keys", "into_values") for mm in ms):
                    chains.append((x, base, ch))
            # the outermost chain
            ok, det = None, "iteration site not located in the syntax tree"
            if chains:
                x, base, ch = max(chains, key=lambda z: len(z[2]))
                ms = [mm for mm, _, _ in ch]
                last = ms[-1]
                sink_ty = None
                if last == "collect":
                    targs = ch[-1][2].get("targs") or []
                    sink_ty = targs[0] if targs else norm_ty(f.node["output"])
                # a crate type alias stands for its definition (`type PrinterMap = HashMap<u32, Target>`)
                for _ in range(4):
                    if sink_ty is None:
                        break
                    exp_ = re.sub(r"\b([A-Z][A-Za-z0-9_]*)\b", lambda m_: ("(%s)" % norm_ty(facts.types[m_.group(1)].get("ty") or "")) if m_.group(1) in facts.types else m_.group(1), sink_ty)
                    if exp_ == sink_ty:
                        break
                    sink_ty = exp_
                ok = last in ORDER_FREE_SINKS or (last == "collect" and sink_ty is not None and re.search(r"Hash(Map|Set)|BTree(Map|Set)", sink_ty) is not None and not re.search(r"Vec|String", re.sub(r"Hash(Map|Set)<.*>|BTree(Map|Set)<.*>", "", sink_ty)))
                det = "`%s` — chain %s ends in %s%s" % (src(x)[:70], ms, last, (" into " + sink_ty) if sink_ty else "")
                if ok and last == "collect":
                    # collecting into a hash collection forgets the order only if no two source entries produce the same
                    # key: the key must be the source key or the source value itself (both unique), not a function of them
                    for mm, a_, _n in ch:
                        if mm in ("map", "filter_map", "flat_map") and a_ and a_[0].get("k") == "closure" and len(a_[0]["params"]) == 1:
                            prm = rx.closure_params(a_[0])[0]
                            names = rx.pat_bindings(prm)
                            bd = rx.closure_body(a_[0])
                            keyexpr = bd["elems"][0] if bd.get("k") == "tuple" and bd["elems"] else bd
                            kv = rx.var_name(keyexpr)
                            if not (kv is not None and kv in names):
                                ok = False
                                det += "; the key of the collected entries is `%s`, a function of the source entry: two entries can collide and the survivor depends on the iteration order" % src(keyexpr)[:60]
                        elif mm in ("map", "filter_map", "flat_map"):
                            ok = None
                            det += "; mapping function not analysable"
                if not ok:
                    # the same thing written as a loop: `for (k, v) in map.iter() { other.insert(v, k) }` with `other` a hash or
                    # b-tree collection declared in the function — an order-insensitive sink under the same key condition
                    for lp in find_all(f.body, lambda n: n.get("k") == "for" and n.get("iter") is x):
                        names = rx.pat_bindings(lp["pat"])
                        stmts = [s_ for s_ in rx.stmts_of(lp["body"]) if s_.get("k") != "item"]
                        sinks = {}
                        for lt in find_all(f.body, lambda n: n.get("k") == "let" and n["pat"].get("k") in ("ident", "typed")):
                            pt_ = lt["pat"]
                            ty_ = norm_ty(pt_.get("ty") or "") if pt_["k"] == "typed" else ""
                            nm_ = (pt_["pat"] if pt_["k"] == "typed" else pt_).get("name")
                            init_ = src(lt["init"]) if lt.get("init") is not None else ""
                            if re.search(r"(Hash|BTree)(Map|Set)", ty_) or re.match(r"(std::collections::)?(Hash|BTree)(Map|Set)(::<[^>]*>)?::(new|with_capacity|default)\(", init_):
                                sinks[nm_] = True
                        good = bool(stmts)
                        for s_ in stmts:
                            e_ = rx.peel(s_["e"]) if s_.get("k") == "expr" else None
                            if not (e_ is not None and e_.get("k") == "mcall" and e_["m"] == "insert" and rx.var_name(e_["recv"]) in sinks and e_["args"]):
                                good = False
                                break
                            kv = rx.var_name(rx.peel(e_["args"][0]))
                            if not (kv is not None and kv in names):
                                good = False
                                det += "; the key inserted is `%s`, a function of the source entry: two entries can collide and the survivor depends on the iteration order" % src(e_["args"][0])[:60]
                                break
                        if good:
                            ok = True
                            det = "`for %s in %s { … }` — every statement of the body inserts the entry under its own key or value into %s, a hash/b-tree collection: the order of the iteration is forgotten" % (F.psrc(lp["pat"]), src(x)[:50], sorted(sinks))
            c.ob("C15.hash-order", fn, t.split("::")[-1] + " over a hash collection", ok, det + ("" if ok else " — the iteration order of a HashMap depends on a per-process random seed and would reach the output"), witness="compile the same expression in two processes" if ok is False else None)
    c.ob("C15.hash-order", "crate", "hash-iteration census", True, "%d iteration site(s) over hash collections" % nh, nontrivial=False)
    # definitions come from a Vec
    for M in codegen.MANAGERS:
        from .. import mgrstate

        lay = mgrstate.layout(facts, M)
        dk = codegen.mgr_key(facts, M, "definitions")
        vp = [p_ for p_, r_ in lay["alias"].items() if r_ == "vars"]
        c.ob("C15.hash-order", dk, "definitions are rendered from an insertion-ordered vector", len(vp) == 1 and lay["paths"].get(vp[0], "").startswith("Vec<"), "definitions() joins %s: %s" % (vp, lay["paths"].get(vp[0]) if vp else None))
    # ---------------------------------------------------------------- clock
    if clock_sites:
        p, cl = clock_sites[0]
        roots_parse = [x for x in m.bodies if x == "find_parser::parse"]
        roots_render = [x for x in m.bodies if x.endswith("CompiledExpression::scheme") or x.endswith("CompiledExpression::io_map")]
        roots_comp = [x for x in m.bodies if x == "scheme::compile"]
        rp, rr, rc = m.reachable(roots_parse), m.reachable(roots_render), m.reachable(roots_comp)
        c.ob("C15.clock", "call graph", "the clock is not reachable from parse()", bool(roots_parse) and p not in rp, "%d bodies reachable from parse(); clock reader %s among them: %s" % (len(rp), p, p in rp))
        c.ob("C15.clock", "call graph", "the clock is not reachable from scheme()/io_map()", bool(roots_render) and p not in rr, "%d bodies reachable from rendering" % len(rr))
        c.ob("C15.clock", "call graph", "the clock is reachable from compile()", bool(roots_comp) and p in rc, "%d bodies reachable from compile()" % len(rc))
        f = facts.fn(mir.e1_key(p, facts))
        chain = None
        for x in find_all(f.body, lambda x: x.get("k") == "mcall" and x["m"] == "as_secs"):
            base, ch = rx.method_chain(x)
            b0 = rx.peel(base)
            while b0.get("k") == "paren":
                b0 = rx.peel(b0["e"])
            if b0.get("k") == "call" and b0["f"].get("k") == "path" and b0["f"]["segs"][-2:] == ["SystemTime", "now"] and not b0["args"]:
                chain = [mm for mm, _, _ in ch]
            else:
                chain = ["<%s>" % src(base)[:60]] + [mm for mm, _, _ in ch]
        c.ob("C15.clock", f.key, "the clock value reaches the text only as whole seconds since the epoch", chain == ["duration_since", "unwrap", "as_secs"], "chain on the clock reading: %s (must be SystemTime::now().duration_since(UNIX_EPOCH).unwrap().as_secs(): the truncated second of an instant inside the call; an offset added before truncation can leave the call's time window)" % chain, witness="compile during the second half of a second" if chain != ["duration_since", "unwrap", "as_secs"] else None)
        stored = [k for k, s_ in facts.statics.items() if "SystemTime" in s_["ty"] or "Instant" in s_["ty"]]
        c.ob("C15.clock", "crate", "the clock is not cached", not stored, "statics holding a time: %s" % stored if stored else "read afresh in every call of the time-test generator")
    c.floor("bodies scanned for effects", len(m.bodies), 150)
    c.control("C15.ambient", bool(AMBIENT.search("std::env::var")) and bool(AMBIENT.search("std::time::Instant::now")) and bool(HASH_ITER.search("std::collections::HashMap::<K, V, S>::iter")), "fixture callees std::env::var / Instant::now / HashMap::iter are recognised")
