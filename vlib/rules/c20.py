"""C20 — compile once, render for any device: only the device path varies."""
import json
import os
import re

from .. import facts as F
from .. import codegen, emit, rx
from ..facts import src, find_all, norm_ty
from . import c04

INTERIOR = re.compile(r"\b(Cell|RefCell|UnsafeCell|Mutex|RwLock|OnceCell|OnceLock|LazyCell|LazyLock|Atomic[A-Za-z0-9]+)\b")
AMBIENT = re.compile(r"SystemTime|Instant|std::env|env::|std::fs|fs::|process::|thread_rng|rand::|getrandom|thread::current")


def witnesses(c, facts):
    """Type-level witnesses: rustc itself refuses programs that would read or replace the stored parts; twins compile."""
    import fcntl
    import shutil
    import subprocess
    import tempfile

    wdir = os.path.join(F.VERIF, "witness")
    repo = facts.data["root"]
    d = tempfile.mkdtemp(prefix="vwit-")
    try:
        os.makedirs(os.path.join(d, "src"))
        shutil.copy(os.path.join(wdir, "src", "lib.rs"), os.path.join(d, "src", "lib.rs"))
        open(os.path.join(d, "Cargo.toml"), "w").write(open(os.path.join(wdir, "Cargo.toml.in")).read().replace("@REPO@", repo))
        lock = os.path.join(repo, "Cargo.lock")
        if os.path.exists(lock):
            # same dependency versions as the repository; cargo adds the witness package itself
            shutil.copy(lock, os.path.join(d, "Cargo.lock"))
        cache = os.path.join(F.VERIF, ".cache")
        os.makedirs(cache, exist_ok=True)
        env = dict(os.environ, CARGO_NET_OFFLINE="true", CARGO_TARGET_DIR=os.path.join(cache, "target-witness"))
        with open(os.path.join(cache, "target-witness.lock"), "w") as lk:
            fcntl.flock(lk, fcntl.LOCK_EX)
            p = subprocess.run(["cargo", "+nightly", "test", "--doc", "--offline"], cwd=d, env=env, capture_output=True, text=True)
        out = p.stdout + p.stderr
        results = dict(re.findall(r"test src/lib\.rs - (\w+) \(line \d+\)(?: - compile fail)? \.\.\. (\w+)", out))
        want = ["RenderThroughSharedReference", "PolicyBodyIsPrivate", "TableIsPrivate", "TableIsReturnedByValue"]
        for w in want:
            c.ob("C20.witness", "witness/src/lib.rs", w, results.get(w) == "ok", "doc-test %s: %s" % (w, results.get(w, "not run: " + out.strip().splitlines()[-1][:120] if out.strip() else "no output")))
    finally:
        shutil.rmtree(d, ignore_errors=True)


def run(c, facts, tier):
    c.trusted = ["E1 extractor", "emission interpreter", "rustc: `&self` cannot mutate a type without interior mutability; private fields are inaccessible to callers (compile-fail witnesses in /verif/witness, thorough tier)"]
    c.explanation = (
        "Rendering is shown to be a pure function of (&self, path): &self receivers, no interior mutability in CompiledExpression or what it owns, no unsafe, no ambient-state call in scheme()/io_map(), "
        "io_map returns a clone; the template contains exactly one hole that depends on the path parameter, inside a string literal, as first argument of lipe-scan; exact decoding of that string needs a sanitiser (shared with C04.taint)."
    )
    c.decided = ["rendering never changes the compiled expression or its table", "same path ⇒ identical program", "different paths differ in exactly one place", "that place is a string literal naming the device (decoding given a sanitiser)"]
    st = facts.struct("CompiledExpression")
    # C20.pure
    # methods, i.e. functions with a receiver: an associated function without one (a constructor) has no compiled expression
    # it could change
    meths = [fn for fn in facts.nontest_fns() if fn.impl is not None and norm_ty(fn.impl["self_ty"]) == "CompiledExpression" and fn.node.get("self") is not None]
    for fn in meths:
        c.ob("C20.pure", fn.key, "receiver is &self", fn.node["self"] == "&self", "receiver `%s`" % fn.node["self"], witness="render twice; the second program differs" if fn.node["self"] != "&self" else None)
    c.ob("C20.pure", "CompiledExpression", "rendering API present", {"scheme", "io_map"} <= {fn.name for fn in meths}, "methods: %s" % sorted(fn.name for fn in meths), nontrivial=False)
    bad_fields = [(f["name"], f["ty"]) for f in st["fields"] if INTERIOR.search(f["ty"])]
    c.ob("C20.pure", "CompiledExpression", "no interior mutability in the stored parts", not bad_fields, "fields with interior mutability: %s" % bad_fields if bad_fields else "field types: %s" % sorted({norm_ty(f["ty"]) for f in st["fields"]}))
    pubf = [f["name"] for f in st["fields"] if f["vis"]]
    c.ob("C20.pure", "CompiledExpression", "fields are private", not pubf, "public fields: %s" % pubf if pubf else "all %d fields private: callers cannot change the compiled expression between renders" % len(st["fields"]))
    # types owned: Target
    tgt = facts.enum("Target")
    tf = [norm_ty(f["ty"]) for v in tgt["variants"] for f in v["fields"] if INTERIOR.search(f["ty"])]
    c.ob("C20.pure", "Target", "table entries have no interior mutability", not tf, "Target payload types with interior mutability: %s" % tf if tf else "String / Option<char> only", nontrivial=False)
    unsafe_sites = [fn.key for fn in facts.nontest_fns() if fn.node.get("unsafe") or find_all(fn.body, lambda n: n.get("k") == "unsafe")]
    unsafe_sites += ["impl " + norm_ty(i["self_ty"]) for _, _, i in facts.impls if i.get("unsafe")]
    c.ob("C20.pure", "crate", "no unsafe code", not unsafe_sites, "unsafe in %s" % unsafe_sites if unsafe_sites else "0 unsafe blocks/fns/impls in non-test code")
    smut = [k for k, s_ in facts.statics.items() if s_["mut"]]
    c.ob("C20.pure", "crate", "no static mut", not smut, "static mut: %s" % smut if smut else "none", nontrivial=False)
    iom = facts.fn("CompiledExpression::io_map")
    t = rx.tail_expr(iom.body)
    okc = t is not None and len(iom.body["stmts"]) == 1 and t["k"] == "mcall" and t["m"] == "clone" and t["recv"]["k"] == "field" and t["recv"]["name"] == "io_map" and rx.is_var(t["recv"]["e"], "self")
    c.ob("C20.pure", iom.key, "the table is returned by clone", okc, "io_map() = %s" % (src(t) if t else None))
    # C20.function
    for fn in meths:
        amb = [src(n)[:60] for n in find_all(fn.body, lambda n: n.get("k") in ("path", "call", "mcall") and AMBIENT.search(src(n) if n.get("k") == "path" else ""))]
        c.ob("C20.function", fn.key, "no ambient-state read", not amb, "ambient reads: %s" % amb if amb else "none (syntactic scan; the resolved call graph is re-checked by C15.ambient)")
    sk = emit.skeleton(facts)
    okf = sk is not None and "parts" in sk and not sk.get("unknown")
    c.ob("C20.function", "CompiledExpression::scheme", "result is one template over the stored parts and the path", okf, "scheme() is a single format! with holes %s" % ([emit.canon(h) for h in sk["holes"]] if okf else sk))
    if okf:
        fields = {f["name"] for f in st["fields"]}
        other = [emit.canon(h) for h in sk["holes"] if not (h.get("kind") == "field" and h.get("field") in fields) and "@" not in emit.canon(h)]
        c.ob("C20.function", "CompiledExpression::scheme", "every hole is a stored part or the path", not other, "other holes: %s" % other if other else "%d field holes + path" % (len(sk["holes"]) - 1))
        # C20.one-hole
        sc = emit.scan_scheme(sk["parts"])
        mdt = [(h, ins, d) for h, ins, d, _ in sc["holes"] if "@" in emit.canon(h)]
        c.ob("C20.one-hole", "CompiledExpression::scheme", "the path occurs exactly once", len(mdt) == 1, "occurrences of the path parameter in the template: %d" % len(mdt), witness="render for /a and /b: the programs differ in more than one place" if len(mdt) != 1 else None)
        if mdt:
            h, ins, d = mdt[0]
            c.ob("C20.one-hole", "CompiledExpression::scheme", "the path is inside a string literal", ins, "in string literal: %s" % ins)
            args = sk.get("lipe_scan_args") or []
            c.ob("C20.one-hole", "CompiledExpression::scheme", "the path is the first argument of lipe-scan", bool(args) and args[0] == '"{%s}"' % emit.canon(h) and sum(1 for a in args if "@" in a) == 1, "lipe-scan arguments: %s" % args)
            # no other hole depends on mdt: all others are self.fields (checked above)
            # C20.decodes
            good_full, _, _ = c04.verified_sanitisers(facts)
            good = {k: v[1] for k, v in good_full.items() if v[0] == "string"}
            callee = h.get("callee") if h.get("kind") == "call" else None
            raw = h.get("kind") == "param"
            argc = [emit.canon(a_) for a_ in h.get("args", [])] if callee else []
            raw_arg = len(argc) == 1 and re.fullmatch(r"@\d+", argc[0]) is not None
            spec_ = h.get("spec") or ""
            okd = callee in good and {'"', "\\"} <= good[callee] and raw_arg
            if okd and spec_:
                # `{mdt:.N$}` / `{mdt:>8}`: a precision cuts the escaped text (two long paths render alike, a cut between a
                # backslash and the character it escapes breaks the literal), a width pads it — the literal no longer decodes to
                # the path given
                c.ob("C20.decodes", "CompiledExpression::scheme", "the escaped path is written in full, nothing cut or padded", False, "format spec `{:%s}` on the device-path hole: the text between the quotes is not the escaped path for every path" % spec_, witness='scheme(<a path longer than the precision>)')
            c.ob(
                "C20.decodes",
                "CompiledExpression::scheme",
                "hole %s in a string literal" % emit.canon(h),
                okd,
                "the device path is %s" % ("escaped by %s" % callee if okd else ("escaped, but what is escaped is `%s`, not the path given: the literal does not decode to the path" % argc if callee in good else "interpolated raw: a path containing \" or \\ does not decode to itself and changes the structure of the program")),
                witness='scheme("/dev/a\\"b")' if not okd else None,
            )
    if tier == "thorough":
        witnesses(c, facts)
    c.floor("CompiledExpression methods", len(meths), 2)
    c.control("C20.pure", bool(INTERIOR.search("Cell<u32>")) and bool(INTERIOR.search("RefCell<String>")), "fixture field types Cell<u32>/RefCell<String> are recognised as interior mutability")
