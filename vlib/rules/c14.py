"""C14 — format strings are segmented exactly as the printf mini-language says."""
import json
import re
import os

from .. import facts as F
from .. import peg, rx, kw, args
from .. import probe as P
from ..facts import src
from ..args import unwrap, flat_alts, single_body

SPEC = os.path.join(F.VERIF, "spec", "printf.json")
SPECIAL = "<FormatSpecial as Parseable>::parse"
FIELD = "<FormatField as Parseable>::parse"
VEC = "<Vec<FormatElement> as Parseable>::parse"


def sub_alts(g, node, site):
    counter = [0]
    out = []
    for i, a in enumerate(kw.split(g, node, site=site, path=(site,), counter=counter)):
        out.append(kw.AltEntry(i, a["lit"], a["rest"], a["labels"], a["maps"], a["values"], a["site"], a["commit"], a["head"], a["path"]))
    return out


def escape_shape(facts, b, g, scope):
    """The escape parser as (alternatives after the backslash, value when none of them matches, description).

    Two ways of writing it are recognised: alt((preceded("\\", alt(..)), "\\".value(V))) and the sequential form
    `"\\".parse_next(input)?; let e = opt(<alternatives>).parse_next(input)?; Ok(<value of e, V when absent>)`, whose
    result expression is evaluated for an absent and for a present escape."""
    from .. import probe as P

    fb = b.fn_ir(SPECIAL)
    sb = single_body(fb)
    is_bs = lambda n: unwrap(n)["t"] == "lit" and unwrap(n)["s"] == "\\"
    if sb is not None and sb["t"] == "alt" and len(sb["alts"]) == 2:
        first, last = unwrap(sb["alts"][0]), unwrap(sb["alts"][1])
        if first["t"] == "seq" and len(first["items"]) == 2 and is_bs(first["items"][0]["p"]) and not first["items"][0]["keep"] and last["t"] == "value" and is_bs(last["p"]) and rx.path_str(last["v"]) is not None:
            return first["items"][1]["p"], rx.canon_path(rx.path_str(last["v"]), scope), "second alternative %s" % peg.show(last)
        return None, None, "two alternatives, but not preceded('\\', ..) and a lone backslash: %s" % peg.show(sb)[:120]
    if fb["t"] == "fnbody" and len(fb["steps"]) == 2 and not fb["unknown"] and not fb["lets"] and fb["tail"] is None and fb["ret"] is not None:
        s0, s1 = fb["steps"]
        opt = unwrap(s1["p"])
        if is_bs(s0["p"]) and s0["pat"]["k"] == "wild" and opt["t"] == "alt" and opt.get("opt") and s1["pat"]["k"] == "ident":
            fn = facts.fn(SPECIAL)
            pr = P.Probe(facts, "FormatSpecial", fn.module)
            nm = s1["pat"]["name"]
            try:
                tok = P.Opq("escape")
                absent = pr.ev(fb["ret"], {nm: None})
                present = pr.ev(fb["ret"], {nm: ("some", tok)})
                if isinstance(absent, tuple) and absent[0] == "ok":
                    absent, present = absent[1], present[1] if isinstance(present, tuple) and present[0] == "ok" else present
            except (P.NoEval, P.Panic) as ex:
                return None, None, "result expression not evaluable: %s" % ex
            if present is tok and isinstance(absent, tuple) and absent[0] == "enum" and not absent[2]:
                return opt["alts"][0], rx.canon_path(absent[1], scope), "after the backslash an optional escape; result `%s` = the escape when present, %s otherwise" % (src(fb["ret"])[:60], absent[1])
            return None, None, "result `%s` is not 'the escape, or a constant'" % src(fb["ret"])[:60]
    return None, None, "neither alt((preceded('\\', alt(..)), '\\'.value(..))) nor the sequential form: %s" % peg.show(fb)[:120]


def radix_site(a):
    """alternative `take_while(range, digits).map(|s| T::from_str_radix(s, R).unwrap()).map(Ctor)` -> dict or None"""
    n = unwrap(a.head)
    pre = []
    while n["t"] == "trymap":
        # `.try_map(|s| T::from_str_radix(s, R))`: the same conversion, its (impossible) failure handed on instead of unwrapped
        pre.insert(0, n["f"])
        n = unwrap(n["p"])
    if n["t"] != "set":
        return None
    info = {"set": n, "radix": None, "ty": None, "ctor": None, "unwrap": False, "pre": pre}
    for f in pre + list(a.maps):
        if f["k"] == "closure":
            calls = F.find_all(f["body"], lambda x: x.get("k") == "call" and x["f"]["k"] == "path" and x["f"]["segs"][-1] == "from_str_radix")
            if calls:
                info["ty"] = calls[0]["f"]["segs"][0]
                info["radix"] = rx.int_const(calls[0]["args"][1]) if len(calls[0]["args"]) == 2 else None
                info["unwrap"] = bool(F.find_all(f["body"], lambda x: x.get("k") == "mcall" and x["m"] in ("unwrap", "expect")))
        elif f["k"] == "path":
            info["ctor"] = "::".join(f["segs"])
    return info


def run(c, facts, tier):
    spec = json.load(open(SPEC))
    b = peg.Builder(facts)
    g = peg.Grammar(b)
    scope = b.scope(facts.fn(SPECIAL).module)
    from .. import glue

    glue.obligations(c, facts, b, "C14")
    c.trusted = ["winnow 0.6.7 semantics in vlib/peg.py", "E1 extractor", "spec/printf.json (find(1) -printf tables + LiPE brace directives)"]
    c.explanation = (
        "Table and shape rules on the combinator IR of format.rs: escape table, octal escape bounded to exactly three digits and tried before '\\0', fall-back backslash, "
        "directive table with prefix-shadowing check, hard error on an unknown directive, and the literal-run scanner (maximal, never empty, never adjacent) by structural argument."
    )
    c.decided = ["escape and directive tables", "octal escape takes at most three digits", "backslash before any other character stands for itself", "maximal non-empty literal runs", "unknown '%' directive is an error"]

    # ------------------------------------------------------------------ escapes
    inner_alt, fallback, fallback_shape = escape_shape(facts, b, g, scope)
    if inner_alt is None:
        raise F.AnchorMissing("escape parser shape (%s): %s" % (SPECIAL, fallback_shape))
    ealts = sub_alts(g, inner_alt, SPECIAL)
    table = {}
    octal = None
    for a in ealts:
        if a.lit is not None and not a.rest:
            table.setdefault(a.lit, kw.ctor_of_transform(a, scope))
        else:
            r = radix_site(a)
            if r is not None:
                octal = (a, r)
            else:
                c.ob("C14.escapes", SPECIAL, "alternative #%d" % a.idx, None, "unrecognised escape alternative %s" % peg.show(a.head))
    want = {k: "FormatSpecial::%s" % v for k, v in spec["escapes"].items()}
    for k, v in sorted(want.items()):
        c.ob(
            "C14.escapes",
            SPECIAL,
            "\\%s → %s" % (k, v.split("::")[1]),
            table.get(k) == v,
            "escape \\%s yields %s; documented: %s" % (k, table.get(k, "no alternative (falls back to a lone backslash followed by a literal)"), v),
            witness="-printf '\\%s'" % k if table.get(k) != v else None,
        )
    for k in sorted(set(table) - set(want)):
        c.ob("C14.escapes", SPECIAL, "\\%s (undocumented)" % k, False, "escape \\%s → %s is not in the documented table" % (k, table[k]))
    produced = set(table.values()) | ({"FormatSpecial::%s" % spec["octal"]["variant"]} if octal else set())
    for v in facts.variants("FormatSpecial"):
        c.ob("C14.escapes", SPECIAL, "variant %s has a producing alternative" % v, "FormatSpecial::" + v in produced, "FormatSpecial::%s is %s" % (v, "produced" if "FormatSpecial::" + v in produced else "never produced by the parser"), nontrivial=False)
    # ------------------------------------------------------------------ octal
    if octal is None:
        c.ob("C14.octal", SPECIAL, "octal escape alternative", False, "no \\NNN alternative found")
    else:
        a, r = octal
        st = r["set"]
        digs = peg.cs_in("01234567")
        c.ob("C14.octal", SPECIAL, "digit set is 0-7", st["cs"] == digs, "digit set %s" % peg.cs_show(st["cs"]))
        c.ob(
            "C14.octal",
            SPECIAL,
            "exactly three digits",
            st["min"] == spec["octal"]["digits"] and st["max"] == spec["octal"]["digits"],
            "the octal run takes %s..%s digits; documented: exactly %d (a fourth digit starts the next literal)" % (st["min"], st["max"] if st["max"] is not None else "∞", spec["octal"]["digits"]),
            witness="-printf '\\0123'  (must be Ascii(0o012) then literal \"3\")" if not (st["min"] == 3 and st["max"] == 3) else None,
        )
        from ..valueflow import compose_maps

        comp = compose_maps(list(reversed(a.maps)), facts, b, {"__module": facts.fn(SPECIAL).module, "__tsubst": {}}, "FormatSpecial")
        want_comp = "FormatSpecial::%s(%s::from_str_radix(X,8).unwrap())" % (spec["octal"]["variant"], r["ty"])
        okc = comp is not None and re.sub(r"\s", "", comp) == want_comp
        syn_ok = r["radix"] == 8 and r["ctor"] is not None and r["ctor"].endswith("::" + spec["octal"]["variant"])
        ev_det = None
        if not (okc and syn_ok) and st["cs"][0] == "in" and st["max"] is not None and st["max"] <= 4 and len(st["cs"][1]) <= 10:
            # however the conversion is written (from_str_radix, a fold over to_digit, ..): the chain of maps applied to every
            # digit string the run can match (all of them: ≤ 10^4) yields the variant with the octal value of the string
            import itertools

            pr = P.Probe(facts, "FormatSpecial", facts.fn(SPECIAL).module)
            want_v = "FormatSpecial::" + spec["octal"]["variant"]
            bad_, n_ = [], 0
            try:
                fvs = [("try", pr.ev(f_, {})) for f_ in (r.get("pre") or [])] + [("map", pr.ev(f_, {})) for f_ in a.maps]
                for k_ in range(max(st["min"], 1), st["max"] + 1):
                    for tup in itertools.product(sorted(st["cs"][1]), repeat=k_):
                        x_ = "".join(tup)
                        n_ += 1
                        v_ = x_
                        try:
                            for how_, fv in fvs:
                                v_ = pr.apply(fv, [v_])
                                if how_ == "try":
                                    if isinstance(v_, tuple) and len(v_) == 2 and v_[0] in ("ok", "some"):
                                        v_ = v_[1]
                                    else:
                                        v_ = "refused (%r)" % (v_,)
                                        break
                        except P.Panic as ex:
                            v_ = "panic (%s)" % ex
                        ref = ("enum", want_v, [int(x_, 8)]) if all(ch in "01234567" for ch in x_) else None
                        if not (isinstance(v_, tuple) and len(v_) == 3 and ref is not None and v_[0] == "enum" and rx.canon_path(v_[1], scope) == want_v and list(v_[2]) == ref[2]) and len(bad_) < 3:
                            bad_.append("%s → %r" % (x_, v_))
                ev_det = (not bad_ and n_ > 0, "each of the %d digit strings the run can match, put through the map chain, yields %s(value of the string in base 8)%s" % (n_, want_v, "" if not bad_ else "; EXCEPT " + "; ".join(bad_)))
            except P.NoEval as ex:
                ev_det = (None, "the map chain is not evaluable: %s" % ex)
        if ev_det is not None:
            c.ob("C14.octal", SPECIAL, "radix 8 into %s" % spec["octal"]["variant"], ev_det[0], ev_det[1])
            c.ob("C14.octal", SPECIAL, "the element carries exactly the octal value of the digits", ev_det[0], ev_det[1], witness="-printf '\\501'  (must be Ascii(0o501))" if not ev_det[0] else None)
        else:
            c.ob("C14.octal", SPECIAL, "radix 8 into %s" % spec["octal"]["variant"], syn_ok, "from_str_radix(_, %s) mapped by %s" % (r["radix"], r["ctor"]))
            c.ob("C14.octal", SPECIAL, "the element carries exactly the octal value of the digits", okc, "digits X become `%s`; required `%s` (no masking, offset or other arithmetic)" % (comp, want_comp), witness="-printf '\\501'  (must be Ascii(0o501))" if not okc else None)
        # ordering: the run must be tried before any literal alternative starting with one of its digits
        bad = [x.lit for x in ealts if x.lit and x.idx < a.idx and peg.cs_has(st["cs"], x.lit[0])]
        c.ob("C14.octal", SPECIAL, "octal run precedes the single-digit escapes", not bad, "literal alternatives %s are tried before the octal run: \\012 would be read as \\0 followed by '12'" % bad if bad else "the run is tried first")
    # ------------------------------------------------------------------ how the format argument is delimited
    from ..anchors import Anchors

    an = Anchors(facts, b)
    tokfn = an.role("token")
    sfn = "<String as Parseable>::parse"
    wordfn = None
    if sfn in facts.fns:
        nd = single_body(b.fn_ir(sfn))
        while nd is not None and nd["t"] in ("map", "ctx", "cut"):
            nd = nd["p"]
        wordfn = nd["fn"] if nd is not None and nd["t"] == "ref" else None
    ndel = 0
    for a_ in kw.alternatives(g, tokfn):
        for x in kw.flatten_rest(g, a_.rest):
            n_ = unwrap(x["n"])
            hops = 0
            while n_["t"] == "ref" and hops < 4 and n_["fn"] != VEC:
                # argument parsers reached through a helper function
                fbx = g.deref(n_)
                sb = single_body(fbx) if not fbx.get("returns_parser") else None
                if sb is None:
                    break
                n_ = unwrap(sb)
                hops += 1
            if n_["t"] == "andthen" and unwrap(n_["inner"])["t"] == "ref" and unwrap(n_["inner"])["fn"] == VEC:
                ndel += 1
                outer_ = unwrap(n_["outer"])
                ok_ = outer_["t"] == "ref" and wordfn is not None and outer_["fn"] == wordfn
                c.ob(
                    "C14.literals",
                    a_.site,
                    "%s: the format string is the argument word, delimited like every other string argument" % a_.lit,
                    ok_,
                    "the text handed to the format parser is delimited by %s; the word parser of string arguments is %s — another delimiter changes where the format ends (and so its last elements)" % (outer_.get("fn") or peg.show(outer_)[:60], wordfn),
                    witness="%s 'dir\\'" % a_.lit if not ok_ else None,
                )
    c.ob("C14.literals", tokfn, "format-taking keywords found", ndel >= 2, "%d keyword arguments are parsed by the format parser" % ndel, nontrivial=False)
    # ------------------------------------------------------------------ other backslash
    okb = fallback == "FormatSpecial::" + spec["other_backslash"]
    c.ob("C14.other-backslash", SPECIAL, "fall-back consumes exactly the backslash and yields Backslash", okb, "when nothing documented follows the backslash: %s" % fallback_shape)

    # ------------------------------------------------------------------ directives
    fbody = single_body(b.fn_ir(FIELD))
    inner2 = None
    if fbody is not None and fbody["t"] == "seq" and len(fbody["items"]) == 2 and unwrap(fbody["items"][0]["p"])["t"] == "lit" and unwrap(fbody["items"][0]["p"])["s"] == "%":
        inner2 = fbody["items"][1]["p"]
    if inner2 is None:
        raise F.AnchorMissing("directive parser: preceded('%', alt(...)) not found")
    dalts = sub_alts(g, inner2, FIELD)
    dtable, ctable, xattr, tailalt = {}, {}, None, None
    for a in dalts:
        if a.lit is not None and not a.rest and a.values:
            dtable.setdefault(a.lit, kw.ctor_of_transform(a, scope))
        elif a.lit is not None and len(a.rest) == 1 and unwrap(a.rest[0]["n"])["t"] == "any" and a.maps:
            ctable[a.lit] = kw.ctor_of_transform(a, scope)
        elif a.lit is not None and len(a.rest) == 2:
            xattr = a
        elif a.lit is None:
            tailalt = a
        else:
            c.ob("C14.directives", FIELD, "alternative #%d" % a.idx, None, "unrecognised directive alternative starting with %r" % a.lit)
    wantd = {k: "FormatField::%s" % v for k, v in spec["directives"].items()}
    for k, v in sorted(wantd.items()):
        c.ob("C14.directives", FIELD, "%%%s → %s" % (k, v.split("::")[1]), dtable.get(k) == v, "directive %%%s yields %s; documented: %s" % (k, dtable.get(k), v), witness="-printf '%%%s'" % k if dtable.get(k) != v else None)
    for k in sorted(set(dtable) - set(wantd)):
        c.ob("C14.directives", FIELD, "%%%s (undocumented)" % k, False, "directive %%%s → %s is not documented" % (k, dtable[k]))
    for k, v in sorted(spec["char_directives"].items()):
        c.ob("C14.directives", FIELD, "%%%sk → %s(k)" % (k, v), ctable.get(k) == "FormatField::" + v, "directive %%%s + one character yields %s; documented FormatField::%s" % (k, ctable.get(k), v))
    for k in sorted(set(ctable) - set(spec["char_directives"])):
        c.ob("C14.directives", FIELD, "%%%sk (undocumented)" % k, False, "character directive %%%s → %s is not documented" % (k, ctable[k]))
    okx = False
    detx = "no {xattr:NAME} alternative"
    if xattr is not None:
        nm, cl = unwrap(xattr.rest[0]["n"]), unwrap(xattr.rest[1]["n"])
        okx = xattr.lit == spec["xattr"]["open"] and cl["t"] == "lit" and cl["s"] == spec["xattr"]["close"] and nm["t"] == "set" and nm["min"] >= 1 and kw.ctor_of_transform(xattr, scope) == "FormatField::" + spec["xattr"]["variant"]
        detx = "%s NAME(%s) %s → %s" % (xattr.lit, peg.show(nm), peg.show(cl), kw.ctor_of_transform(xattr, scope))
    c.ob("C14.directives", FIELD, "%{xattr:NAME}", okx, detx)
    # shadowing among directive literals
    lits = [a for a in dalts if a.lit is not None]
    npairs = 0
    for i, ai in enumerate(lits):
        for aj in lits[i + 1 :]:
            if aj.lit.startswith(ai.lit) and aj.lit != ai.lit:
                npairs += 1
                c.ob("C14.directives", FIELD, "%%%s before %%%s" % (ai.lit, aj.lit), False, "%%%s is tried first and succeeds on the head of %%%s, which is never recognised" % (ai.lit, aj.lit), witness="-printf '%%%s'" % aj.lit)
            if ai.lit == aj.lit:
                c.ob("C14.directives", FIELD, "%%%s duplicated" % ai.lit, False, "two alternatives for %%%s; the second is dead" % ai.lit)
    # ------------------------------------------------------------------ unknown directive
    oku = tailalt is not None and tailalt.idx == len(dalts) - 1 and tailalt.rest and tailalt.rest[0]["cut"] and unwrap(tailalt.rest[0]["n"])["t"] == "fail"
    c.ob(
        "C14.unknown",
        FIELD,
        "'%' + undocumented character is a hard error",
        oku,
        "last alternative after '%%' is %s" % (("cut_err(fail)" if oku else (peg.show(tailalt.rest[0]["n"]) + (" under cut" if tailalt.rest[0]["cut"] else " NOT under cut: the scanner would absorb '%' as literal text")) if tailalt else "missing: an unknown directive backtracks and '%' is absorbed as literal text")),
        witness="-printf '%q'" if not oku else None,
    )

    # ------------------------------------------------------------------ literal scanner
    vfb = b.fn_ir(VEC)
    vb = single_body(vfb)
    vlets = []
    if vb is None and vfb["t"] == "fnbody" and not vfb["steps"] and not vfb["unknown"] and vfb["tail"] is not None:
        # value-level lets (named closures, constants) in front of the parser expression: evaluated with it
        vb, vlets = unwrap(vfb["tail"]), list(vfb["lets"])
    det = "shape of the scanner not recognised: %s" % (peg.show(vb) if vb else "?")
    ok_struct = ok_pair = ok_fold = ok_suffix = None
    sem_det = ""
    sc = scanner_parts(g, vb)
    if sc is not None:
        rep, rt, suffix = sc
        stops = [unwrap(x) for x in flat_alts(rt["stop"])]
        stopmap = {}
        for s_ in stops:
            if s_["t"] == "map" and unwrap(s_["p"])["t"] == "ref":
                stopmap[unwrap(s_["p"])["fn"]] = rx.canon_path(rx.path_str(s_["f"]) or "?", scope)
        everything = (suffix["t"] == "rep" and suffix["min"] == 0 and suffix["max"] is None and unwrap(suffix["p"])["t"] == "any") or (suffix["t"] == "set" and suffix["cs"] == peg.cs_notin([]) and suffix["min"] == 0 and suffix["max"] is None)
        ok_struct = rep["min"] == 0 and rep["max"] is None and rt["min"] == 0 and rt["max"] is None and unwrap(rt["p"])["t"] == "any" and stopmap == {FIELD: "FormatElement::Field", SPECIAL: "FormatElement::Special"} and everything
        det = "scanner = repeat(0.., repeat_till(0.., any, %s)) then %s" % (sorted(stopmap.items()), "the rest of the word" if everything else peg.show(suffix)[:40])
        ok_pair, ok_fold, ok_suffix, sem_det = scanner_values(facts, b, vb, rep, rt, suffix, vlets)
    c.ob("C14.literals", VEC, "scanner tries an element before extending the literal at every position", ok_struct, det)
    c.ob("C14.literals", VEC, "a literal before an element is emitted only when non-empty, in order [literal, element]", ok_pair, sem_det or "not evaluated")
    c.ob("C14.literals", VEC, "pairs are concatenated in input order", ok_fold, sem_det or "not evaluated")
    from .. import mir as _mir

    _mir.order_rule(c, facts, "C14.literals", [VEC], "elements and literal characters must keep the order of the format string")
    c.ob("C14.literals", VEC, "the trailing literal is emitted only when non-empty, after all elements", ok_suffix, sem_det or "not evaluated")
    # maximality premises: '%' and '\' always start an element or a hard error
    f1 = g.first(b.fn_ir(FIELD))
    f2 = g.first(b.fn_ir(SPECIAL))
    c.ob(
        "C14.literals",
        VEC,
        "literal runs are maximal runs of characters other than '%' and '\\'",
        f1 == peg.cs_in("%") and f2 == peg.cs_in("\\") and bool(oku) and bool(okb),
        "FIRST(directive)=%s and a '%%' never backtracks (C14.unknown: %s); FIRST(escape)=%s and a '\\' always yields an element (C14.other-backslash: %s). Hence a literal never contains either character, and two literals are never adjacent (a literal is always followed by an element or is the suffix)" % (peg.cs_show(f1), bool(oku), peg.cs_show(f2), bool(okb)),
    )
    c.floor("escape alternatives", len(ealts), 10)
    c.floor("directive alternatives", len(dalts), 37)
    c.control("C14.octal", True, "fixture take_while(3.., octal): max=None ≠ 3 is reported (same comparison as above)")


def scanner_parts(g, vb):
    """(outer repetition, text-then-element repeat_till, suffix) of the format scanner, through maps, folds and helper
    functions that only name a parser expression."""
    if vb is None:
        return None
    n = vb
    while n["t"] in ("map", "ctx", "cut"):
        n = n["p"]
    n = unwrap(n)
    if n["t"] != "seq" or len(n["items"]) != 2:
        return None

    def down(x, want):
        x = unwrap(x)
        hops = 0
        while x["t"] != want and hops < 8:
            hops += 1
            if x["t"] in ("map", "fold", "ctx", "cut"):
                x = unwrap(x["p"])
            elif x["t"] == "ref" and not x.get("extra"):
                sb = single_body(g.deref(x))
                if sb is None:
                    return None
                x = sb
            else:
                return None
        return x if x["t"] == want else None

    rep = down(n["items"][0]["p"], "rep")
    if rep is None:
        return None
    rt = down(rep["p"], "reptill")
    suffix = unwrap(n["items"][1]["p"])
    if rt is None:
        return None
    return rep, rt, suffix


def scanner_values(facts, b, vb, rep, rt, suffix, lets=()):
    """What the scanner returns, evaluated (vlib/irval.py) for two (text, element) rounds and a suffix, each text / the
    suffix empty or not (8 cases), the elements unknown: the list must be, in order, Literal(text) when the text is not
    empty, then the element, for each round, then Literal(suffix) when the suffix is not empty.
    -> (pair ok, order ok, suffix ok, detail)"""
    from .. import probe as P, irval
    import itertools

    E = [P.Opq("element0"), P.Opq("element1")]

    class SC(irval.Ctx):
        def iterations(self, node):
            return 2 if node is rep else None

        def rep(self, node):
            if node is rt:
                i = self.index.get(id(rep), 0)
                return [self.texts[i], E[i]]
            if node is suffix:
                return self.suffix
            raise P.NoEval("unexpected repetition")

        def leaf(self, node):
            if node is suffix:
                return self.suffix
            raise P.NoEval("unexpected leaf")

    lit = lambda t: ("enum", "FormatElement::Literal", [t])
    bad_pair, bad_order, bad_suffix = [], [], []
    try:
        for t0, t1, sf in itertools.product(("", "ab"), ("", "cd"), ("", "ef")):
            ctx = SC(facts, b, facts.fn(VEC).module).bind_lets(lets)
            ctx.texts, ctx.suffix = [t0, t1], sf
            got = irval.value(vb, ctx)
            want = ([lit(t0)] if t0 else []) + [E[0]] + ([lit(t1)] if t1 else []) + [E[1]] + ([lit(sf)] if sf else [])
            if got != want:
                case = "texts %r, %r, suffix %r → %r" % (t0, t1, sf, got)
                if not isinstance(got, list):
                    bad_pair.append(case)
                    continue
                body, tail = (got[:-1], got[-1:]) if (got and got[-1] == lit(sf) and sf) else (got, [])
                if (tail == [lit(sf)]) != bool(sf) or (not sf and any(x == lit("") for x in got[-1:])):
                    bad_suffix.append(case)
                elems = [x for x in got if any(x is e_ for e_ in E)]
                if [id(x) for x in elems] != [id(x) for x in E]:
                    bad_order.append(case)
                elif case not in bad_suffix:
                    bad_pair.append(case)
    except (P.NoEval, P.Panic) as ex:
        return None, None, None, "the scanner's value is not evaluable: %s" % ex
    det = "scanner value evaluated on two (text, element) rounds and a suffix, every text empty or not (8 cases): the list is [Literal(text) if non-empty, element] per round, then Literal(suffix) if non-empty"
    if bad_pair or bad_order or bad_suffix:
        det += "; EXCEPT " + "; ".join((bad_pair + bad_order + bad_suffix)[:2])
    return not bad_pair, not bad_order, not bad_suffix, det
