"""C14 — format strings are segmented exactly as the printf mini-language says."""
import json
import re
import os

from .. import facts as F
from .. import peg, rx, kw, args
from ..facts import src
from ..args import unwrap, flat_alts, single_body

SPEC = os.path.join(F.VERIF, "spec", "printf.json")
SPECIAL = "<FormatSpecial as Parseable>::parse"
FIELD = "<FormatField as Parseable>::parse"
VEC = "<Vec<FormatElement> as Parseable>::parse"


def sub_alts(g, node, site):
    counter = [0]
    out = []
    for i, a in enumerate(kw.split(g, node, site=site, path=(site,), counter=counter)):
        out.append(kw.AltEntry(i, a["lit"], a["rest"], a["labels"], a["maps"], a["values"], a["site"], a["commit"], a["head"], a["path"]))
    return out


def radix_site(a):
    """alternative `take_while(range, digits).map(|s| T::from_str_radix(s, R).unwrap()).map(Ctor)` -> dict or None"""
    n = unwrap(a.head)
    if n["t"] != "set":
        return None
    info = {"set": n, "radix": None, "ty": None, "ctor": None, "unwrap": False}
    for f in a.maps:
        if f["k"] == "closure":
            calls = F.find_all(f["body"], lambda x: x.get("k") == "call" and x["f"]["k"] == "path" and x["f"]["segs"][-1] == "from_str_radix")
            if calls:
                info["ty"] = calls[0]["f"]["segs"][0]
                info["radix"] = rx.int_const(calls[0]["args"][1]) if len(calls[0]["args"]) == 2 else None
                info["unwrap"] = bool(F.find_all(f["body"], lambda x: x.get("k") == "mcall" and x["m"] in ("unwrap", "expect")))
        elif f["k"] == "path":
            info["ctor"] = "::".join(f["segs"])
    return info


def run(c, facts, tier):
    spec = json.load(open(SPEC))
    b = peg.Builder(facts)
    g = peg.Grammar(b)
    scope = b.scope(facts.fn(SPECIAL).module)
    from .. import glue

    glue.obligations(c, facts, b, "C14")
    c.trusted = ["winnow 0.6.7 semantics in vlib/peg.py", "E1 extractor", "spec/printf.json (find(1) -printf tables + LiPE brace directives)"]
    c.explanation = (
        "Table and shape rules on the combinator IR of format.rs: escape table, octal escape bounded to exactly three digits and tried before '\\0', fall-back backslash, "
        "directive table with prefix-shadowing check, hard error on an unknown directive, and the literal-run scanner (maximal, never empty, never adjacent) by structural argument."
    )
    c.decided = ["escape and directive tables", "octal escape takes at most three digits", "backslash before any other character stands for itself", "maximal non-empty literal runs", "unknown '%' directive is an error"]

    # ------------------------------------------------------------------ escapes
    sb = single_body(b.fn_ir(SPECIAL))
    if sb is None or sb["t"] != "alt":
        raise F.AnchorMissing("escape parser shape (%s)" % SPECIAL)
    outer = sb["alts"]
    first = unwrap(outer[0])
    inner_alt = None
    if first["t"] == "seq" and len(first["items"]) == 2 and unwrap(first["items"][0]["p"])["t"] == "lit" and unwrap(first["items"][0]["p"])["s"] == "\\" and not first["items"][0]["keep"]:
        inner_alt = first["items"][1]["p"]
    if inner_alt is None:
        raise F.AnchorMissing("escape parser: preceded('\\\\', alt(...)) not found")
    ealts = sub_alts(g, inner_alt, SPECIAL)
    table = {}
    octal = None
    for a in ealts:
        if a.lit is not None and not a.rest:
            table.setdefault(a.lit, kw.ctor_of_transform(a, scope))
        else:
            r = radix_site(a)
            if r is not None:
                octal = (a, r)
            else:
                c.ob("C14.escapes", SPECIAL, "alternative #%d" % a.idx, None, "unrecognised escape alternative %s" % peg.show(a.head))
    want = {k: "FormatSpecial::%s" % v for k, v in spec["escapes"].items()}
    for k, v in sorted(want.items()):
        c.ob(
            "C14.escapes",
            SPECIAL,
            "\\%s → %s" % (k, v.split("::")[1]),
            table.get(k) == v,
            "escape \\%s yields %s; documented: %s" % (k, table.get(k, "no alternative (falls back to a lone backslash followed by a literal)"), v),
            witness="-printf '\\%s'" % k if table.get(k) != v else None,
        )
    for k in sorted(set(table) - set(want)):
        c.ob("C14.escapes", SPECIAL, "\\%s (undocumented)" % k, False, "escape \\%s → %s is not in the documented table" % (k, table[k]))
    produced = set(table.values()) | ({"FormatSpecial::%s" % spec["octal"]["variant"]} if octal else set())
    for v in facts.variants("FormatSpecial"):
        c.ob("C14.escapes", SPECIAL, "variant %s has a producing alternative" % v, "FormatSpecial::" + v in produced, "FormatSpecial::%s is %s" % (v, "produced" if "FormatSpecial::" + v in produced else "never produced by the parser"), nontrivial=False)
    # ------------------------------------------------------------------ octal
    if octal is None:
        c.ob("C14.octal", SPECIAL, "octal escape alternative", False, "no \\NNN alternative found")
    else:
        a, r = octal
        st = r["set"]
        digs = peg.cs_in("01234567")
        c.ob("C14.octal", SPECIAL, "digit set is 0-7", st["cs"] == digs, "digit set %s" % peg.cs_show(st["cs"]))
        c.ob(
            "C14.octal",
            SPECIAL,
            "exactly three digits",
            st["min"] == spec["octal"]["digits"] and st["max"] == spec["octal"]["digits"],
            "the octal run takes %s..%s digits; documented: exactly %d (a fourth digit starts the next literal)" % (st["min"], st["max"] if st["max"] is not None else "∞", spec["octal"]["digits"]),
            witness="-printf '\\0123'  (must be Ascii(0o012) then literal \"3\")" if not (st["min"] == 3 and st["max"] == 3) else None,
        )
        c.ob("C14.octal", SPECIAL, "radix 8 into %s" % spec["octal"]["variant"], r["radix"] == 8 and r["ctor"] is not None and r["ctor"].endswith("::" + spec["octal"]["variant"]), "from_str_radix(_, %s) mapped by %s" % (r["radix"], r["ctor"]))
        from ..valueflow import compose_maps

        comp = compose_maps(list(reversed(a.maps)), facts, b, {"__module": facts.fn(SPECIAL).module, "__tsubst": {}}, "FormatSpecial")
        want_comp = "FormatSpecial::%s(%s::from_str_radix(X,8).unwrap())" % (spec["octal"]["variant"], r["ty"])
        okc = comp is not None and re.sub(r"\s", "", comp) == want_comp
        c.ob("C14.octal", SPECIAL, "the element carries exactly the octal value of the digits", okc, "digits X become `%s`; required `%s` (no masking, offset or other arithmetic)" % (comp, want_comp), witness="-printf '\\501'  (must be Ascii(0o501))" if not okc else None)
        # ordering: the run must be tried before any literal alternative starting with one of its digits
        bad = [x.lit for x in ealts if x.lit and x.idx < a.idx and peg.cs_has(st["cs"], x.lit[0])]
        c.ob("C14.octal", SPECIAL, "octal run precedes the single-digit escapes", not bad, "literal alternatives %s are tried before the octal run: \\012 would be read as \\0 followed by '12'" % bad if bad else "the run is tried first")
    # ------------------------------------------------------------------ how the format argument is delimited
    from ..anchors import Anchors

    an = Anchors(facts, b)
    tokfn = an.role("token")
    sfn = "<String as Parseable>::parse"
    wordfn = None
    if sfn in facts.fns:
        nd = single_body(b.fn_ir(sfn))
        while nd is not None and nd["t"] in ("map", "ctx", "cut"):
            nd = nd["p"]
        wordfn = nd["fn"] if nd is not None and nd["t"] == "ref" else None
    ndel = 0
    for a_ in kw.alternatives(g, tokfn):
        for x in kw.flatten_rest(g, a_.rest):
            n_ = unwrap(x["n"])
            hops = 0
            while n_["t"] == "ref" and hops < 4 and n_["fn"] != VEC:
                # argument parsers reached through a helper function
                fbx = g.deref(n_)
                sb = single_body(fbx) if not fbx.get("returns_parser") else None
                if sb is None:
                    break
                n_ = unwrap(sb)
                hops += 1
            if n_["t"] == "andthen" and unwrap(n_["inner"])["t"] == "ref" and unwrap(n_["inner"])["fn"] == VEC:
                ndel += 1
                outer_ = unwrap(n_["outer"])
                ok_ = outer_["t"] == "ref" and wordfn is not None and outer_["fn"] == wordfn
                c.ob(
                    "C14.literals",
                    a_.site,
                    "%s: the format string is the argument word, delimited like every other string argument" % a_.lit,
                    ok_,
                    "the text handed to the format parser is delimited by %s; the word parser of string arguments is %s — another delimiter changes where the format ends (and so its last elements)" % (outer_.get("fn") or peg.show(outer_)[:60], wordfn),
                    witness="%s 'dir\\'" % a_.lit if not ok_ else None,
                )
    c.ob("C14.literals", tokfn, "format-taking keywords found", ndel >= 2, "%d keyword arguments are parsed by the format parser" % ndel, nontrivial=False)
    # ------------------------------------------------------------------ other backslash
    last = unwrap(outer[-1])
    okb = len(outer) == 2 and last["t"] == "value" and unwrap(last["p"])["t"] == "lit" and unwrap(last["p"])["s"] == "\\" and rx.path_str(last["v"]) is not None and rx.canon_path(rx.path_str(last["v"]), scope) == "FormatSpecial::" + spec["other_backslash"]
    c.ob("C14.other-backslash", SPECIAL, "fall-back consumes exactly the backslash and yields Backslash", okb, "fall-back alternative: %s" % peg.show(last))

    # ------------------------------------------------------------------ directives
    fbody = single_body(b.fn_ir(FIELD))
    inner2 = None
    if fbody is not None and fbody["t"] == "seq" and len(fbody["items"]) == 2 and unwrap(fbody["items"][0]["p"])["t"] == "lit" and unwrap(fbody["items"][0]["p"])["s"] == "%":
        inner2 = fbody["items"][1]["p"]
    if inner2 is None:
        raise F.AnchorMissing("directive parser: preceded('%', alt(...)) not found")
    dalts = sub_alts(g, inner2, FIELD)
    dtable, ctable, xattr, tailalt = {}, {}, None, None
    for a in dalts:
        if a.lit is not None and not a.rest and a.values:
            dtable.setdefault(a.lit, kw.ctor_of_transform(a, scope))
        elif a.lit is not None and len(a.rest) == 1 and unwrap(a.rest[0]["n"])["t"] == "any" and a.maps:
            ctable[a.lit] = kw.ctor_of_transform(a, scope)
        elif a.lit is not None and len(a.rest) == 2:
            xattr = a
        elif a.lit is None:
            tailalt = a
        else:
            c.ob("C14.directives", FIELD, "alternative #%d" % a.idx, None, "unrecognised directive alternative starting with %r" % a.lit)
    wantd = {k: "FormatField::%s" % v for k, v in spec["directives"].items()}
    for k, v in sorted(wantd.items()):
        c.ob("C14.directives", FIELD, "%%%s → %s" % (k, v.split("::")[1]), dtable.get(k) == v, "directive %%%s yields %s; documented: %s" % (k, dtable.get(k), v), witness="-printf '%%%s'" % k if dtable.get(k) != v else None)
    for k in sorted(set(dtable) - set(wantd)):
        c.ob("C14.directives", FIELD, "%%%s (undocumented)" % k, False, "directive %%%s → %s is not documented" % (k, dtable[k]))
    for k, v in sorted(spec["char_directives"].items()):
        c.ob("C14.directives", FIELD, "%%%sk → %s(k)" % (k, v), ctable.get(k) == "FormatField::" + v, "directive %%%s + one character yields %s; documented FormatField::%s" % (k, ctable.get(k), v))
    for k in sorted(set(ctable) - set(spec["char_directives"])):
        c.ob("C14.directives", FIELD, "%%%sk (undocumented)" % k, False, "character directive %%%s → %s is not documented" % (k, ctable[k]))
    okx = False
    detx = "no {xattr:NAME} alternative"
    if xattr is not None:
        nm, cl = unwrap(xattr.rest[0]["n"]), unwrap(xattr.rest[1]["n"])
        okx = xattr.lit == spec["xattr"]["open"] and cl["t"] == "lit" and cl["s"] == spec["xattr"]["close"] and nm["t"] == "set" and nm["min"] >= 1 and kw.ctor_of_transform(xattr, scope) == "FormatField::" + spec["xattr"]["variant"]
        detx = "%s NAME(%s) %s → %s" % (xattr.lit, peg.show(nm), peg.show(cl), kw.ctor_of_transform(xattr, scope))
    c.ob("C14.directives", FIELD, "%{xattr:NAME}", okx, detx)
    # shadowing among directive literals
    lits = [a for a in dalts if a.lit is not None]
    npairs = 0
    for i, ai in enumerate(lits):
        for aj in lits[i + 1 :]:
            if aj.lit.startswith(ai.lit) and aj.lit != ai.lit:
                npairs += 1
                c.ob("C14.directives", FIELD, "%%%s before %%%s" % (ai.lit, aj.lit), False, "%%%s is tried first and succeeds on the head of %%%s, which is never recognised" % (ai.lit, aj.lit), witness="-printf '%%%s'" % aj.lit)
            if ai.lit == aj.lit:
                c.ob("C14.directives", FIELD, "%%%s duplicated" % ai.lit, False, "two alternatives for %%%s; the second is dead" % ai.lit)
    # ------------------------------------------------------------------ unknown directive
    oku = tailalt is not None and tailalt.idx == len(dalts) - 1 and tailalt.rest and tailalt.rest[0]["cut"] and unwrap(tailalt.rest[0]["n"])["t"] == "fail"
    c.ob(
        "C14.unknown",
        FIELD,
        "'%' + undocumented character is a hard error",
        oku,
        "last alternative after '%%' is %s" % (("cut_err(fail)" if oku else (peg.show(tailalt.rest[0]["n"]) + (" under cut" if tailalt.rest[0]["cut"] else " NOT under cut: the scanner would absorb '%' as literal text")) if tailalt else "missing: an unknown directive backtracks and '%' is absorbed as literal text")),
        witness="-printf '%q'" if not oku else None,
    )

    # ------------------------------------------------------------------ literal scanner
    vb = single_body(b.fn_ir(VEC))
    det = "shape of the scanner not recognised: %s" % (peg.show(vb) if vb else "?")
    ok_struct = ok_pair = ok_fold = ok_suffix = None
    if vb is not None and vb["t"] == "map" and unwrap(vb["p"])["t"] == "seq":
        sq = unwrap(vb["p"])
        if len(sq["items"]) == 2:
            fold, suffix = unwrap(sq["items"][0]["p"]), unwrap(sq["items"][1]["p"])
            if fold["t"] == "fold" and unwrap(fold["p"])["t"] == "rep":
                rep = unwrap(fold["p"])
                pair = unwrap(rep["p"])
                if pair["t"] == "map" and unwrap(pair["p"])["t"] == "reptill":
                    rt = unwrap(pair["p"])
                    stops = [unwrap(x) for x in flat_alts(rt["stop"])]
                    stopmap = {}
                    for s_ in stops:
                        if s_["t"] == "map" and unwrap(s_["p"])["t"] == "ref":
                            stopmap[unwrap(s_["p"])["fn"]] = rx.canon_path(rx.path_str(s_["f"]) or "?", scope)
                    ok_struct = (
                        rep["min"] == 0
                        and rep["max"] is None
                        and rt["min"] == 0
                        and rt["max"] is None
                        and unwrap(rt["p"])["t"] == "any"
                        and stopmap == {FIELD: "FormatElement::Field", SPECIAL: "FormatElement::Special"}
                        and suffix["t"] == "rep"
                        and suffix["min"] == 0
                        and suffix["max"] is None
                        and unwrap(suffix["p"])["t"] == "any"
                    )
                    det = "scanner = repeat(0.., repeat_till(0.., any, %s)) then repeat(0.., any)" % sorted(stopmap.items())
                    ok_pair = pair_closure_ok(pair["f"], scope)
                    ok_fold = fold_ok(fold)
                    ok_suffix = suffix_closure_ok(vb["f"], scope)
    c.ob("C14.literals", VEC, "scanner tries an element before extending the literal at every position", ok_struct, det)
    c.ob("C14.literals", VEC, "a literal before an element is emitted only when non-empty, in order [literal, element]", ok_pair, "pair closure: %s" % (src(unwrap(vb["p"])["items"][0]["p"]) if False else "match on the literal's length; 0 → [el], otherwise [Literal(lit), el]"))
    c.ob("C14.literals", VEC, "pairs are concatenated in input order", ok_fold, "fold(vec![], |acc, e| { acc.extend(e); acc })")
    from .. import mir as _mir

    _mir.order_rule(c, facts, "C14.literals", [VEC], "elements and literal characters must keep the order of the format string")
    c.ob("C14.literals", VEC, "the trailing literal is emitted only when non-empty, after all elements", ok_suffix, "suffix closure guards on !suffix.is_empty() and pushes Literal(suffix) last")
    # maximality premises: '%' and '\' always start an element or a hard error
    f1 = g.first(b.fn_ir(FIELD))
    f2 = g.first(b.fn_ir(SPECIAL))
    c.ob(
        "C14.literals",
        VEC,
        "literal runs are maximal runs of characters other than '%' and '\\'",
        f1 == peg.cs_in("%") and f2 == peg.cs_in("\\") and bool(oku) and bool(okb),
        "FIRST(directive)=%s and a '%%' never backtracks (C14.unknown: %s); FIRST(escape)=%s and a '\\' always yields an element (C14.other-backslash: %s). Hence a literal never contains either character, and two literals are never adjacent (a literal is always followed by an element or is the suffix)" % (peg.cs_show(f1), bool(oku), peg.cs_show(f2), bool(okb)),
    )
    c.floor("escape alternatives", len(ealts), 10)
    c.floor("directive alternatives", len(dalts), 37)
    c.control("C14.octal", True, "fixture take_while(3.., octal): max=None ≠ 3 is reported (same comparison as above)")


def pair_closure_ok(f, scope):
    if f["k"] != "closure" or len(f["params"]) != 1:
        return None
    p = rx.closure_params(f)[0]
    if p["k"] != "tuple" or len(p["elems"]) != 2:
        return None
    names = [rx.pat_bindings(e)[0] if rx.pat_bindings(e) else None for e in p["elems"]]
    lit, el = names
    body = rx.closure_body(f)
    empty_branch = nonempty_branch = None
    if body["k"] == "match":
        sc = body["scrut"]
        if not (sc["k"] == "mcall" and sc["m"] == "len" and rx.is_var(sc["recv"], lit)):
            return None
        for arm in body["arms"]:
            if arm["pat"]["k"] == "lit" and arm["pat"]["v"] == 0:
                empty_branch = arm["body"]
            elif rx.is_catchall(arm["pat"]):
                nonempty_branch = arm["body"]
    elif body["k"] == "if":
        cond = body["cond"]
        neg = False
        if cond["k"] == "unary" and cond["op"] == "!":
            neg, cond = True, cond["e"]
        if not (cond["k"] == "mcall" and cond["m"] == "is_empty" and rx.is_var(cond["recv"], lit)):
            return None
        th, el_ = rx.peel(body["then"]), rx.peel(body["else"]) if body["else"] else None
        empty_branch, nonempty_branch = (el_, th) if neg else (th, el_)
    if empty_branch is None or nonempty_branch is None:
        return None
    eb, nb = rx.peel(empty_branch), rx.peel(nonempty_branch)
    ok_e = eb["k"] == "macro" and eb["name"] == "vec" and len(eb.get("args", [])) == 1 and rx.is_var(eb["args"][0], el)
    ok_n = False
    if nb["k"] == "macro" and nb["name"] == "vec" and len(nb.get("args", [])) == 2:
        chain, a = rx.ctor_chain(nb["args"][0])
        ok_n = bool(chain) and rx.canon_path(chain[-1], scope) == "FormatElement::Literal" and a is not None and len(a) == 1 and rx.is_var(a[0], lit) and rx.is_var(nb["args"][1], el)
    return ok_e and ok_n


def fold_ok(fold):
    ini, st = fold["init"], fold["step"]
    if st["k"] != "closure" or len(st["params"]) != 2:
        return None
    if ini["k"] == "path":
        # a constructor function used as the initialiser: Vec::new / Vec::default
        if rx.path_str(ini) not in ("Vec::new", "Vec::default", "Default::default"):
            return False
    elif ini["k"] != "closure":
        return None
    else:
        ib = rx.closure_body(ini)
        if not (ib["k"] == "macro" and ib["name"] == "vec" and not ib.get("args")):
            if not (ib["k"] == "call" and rx.path_str(ib["f"]) in ("Vec::new", "Vec::default") and not ib["args"]):
                return False
    acc, e = [rx.pat_bindings(p)[0] for p in rx.closure_params(st)]
    body = st["body"]
    stmts = rx.stmts_of(body)
    if len(stmts) != 2:
        return None
    s0, s1 = stmts
    e0 = s0.get("e")
    ok0 = e0 is not None and e0["k"] == "mcall" and e0["m"] in ("extend", "append") and rx.is_var(e0["recv"], acc) and rx.is_var(e0["args"][0], e)
    ok1 = s1["k"] == "expr" and rx.is_var(s1["e"], acc)
    return ok0 and ok1


def suffix_closure_ok(f, scope):
    if f["k"] != "closure" or len(f["params"]) != 1:
        return None
    p = rx.closure_params(f)[0]
    if p["k"] != "tuple" or len(p["elems"]) != 2:
        return None
    lst, suf = [rx.pat_bindings(e)[0] for e in p["elems"]]
    stmts = rx.stmts_of(f["body"])
    if len(stmts) != 2:
        return None
    ifs, ret = stmts
    e = ifs.get("e")
    if e is None or e["k"] != "if" or e["else"] is not None:
        return None
    cond = e["cond"]
    if not (cond["k"] == "unary" and cond["op"] == "!" and cond["e"]["k"] == "mcall" and cond["e"]["m"] == "is_empty" and rx.is_var(cond["e"]["recv"], suf)):
        return False
    th = rx.stmts_of(e["then"])
    if len(th) != 1:
        return None
    pe = th[0].get("e")
    okp = pe is not None and pe["k"] == "mcall" and pe["m"] == "push" and rx.is_var(pe["recv"], lst)
    if okp:
        chain, a = rx.ctor_chain(pe["args"][0])
        okp = bool(chain) and rx.canon_path(chain[-1], scope) == "FormatElement::Literal" and a is not None and rx.is_var(a[0], suf)
    return okp and ret["k"] == "expr" and rx.is_var(ret["e"], lst)
