"""C02 — compiled policy means what the expression means: the clauses visible in the shape of the code generator
(codegen-table agreement). Behavioural equivalence with find's evaluation is declined (needs a model of Guile+LiPE)."""
import json
import os
import re

from .. import facts as F
from .. import codegen, emit, rx, sexp
from ..facts import src, psrc, find_all, norm_ty
from . import c19

SPEC = os.path.join(F.VERIF, "spec", "codegen.json")
POSIX = os.path.join(F.VERIF, "spec", "posix_mode.json")
CMP = {"GreaterThan": ">", "LesserThan": "<", "Equal": "="}


def flag_consts(facts):
    """values::S_* constants (constant-folded)"""
    out = {}
    for k, it in facts.consts.items():
        if k.startswith("permission_flags::values::"):
            v = rx.int_const(it["e"])
            out[k.split("::")[-1]] = v
    return out


def flag_set(facts, tyname):
    """OR of the flags declared for `tyname` in the crate's bitflags! invocation (None when it cannot be read)."""
    consts = flag_consts(facts)
    for it in facts.macro_items:
        if it.get("name") != "bitflags":
            continue
        raw = re.sub(r'#\[doc="(?:[^"\\]|\\.)*"\]', "", it.get("raw", ""))
        m = re.search(r"pub struct (\w+):\w+\{(.*)\}\s*$", raw)
        if not m or m.group(1) != tyname:
            continue
        names = [x.strip() for x in m.group(2).split(";") if x.strip()]
        vals = [consts.get(re.sub(r"\s*as\s*\w+$", "", n_)) for n_ in names]
        if any(v is None for v in vals) or not all(re.fullmatch(r"\w+(\s*as\s*\w+)?", n_) for n_ in names):
            return None
        out = 0
        for v in vals:
            out |= v
        return out
    return None


def run(c, facts, tier):
    spec = json.load(open(SPEC))
    posix = json.load(open(POSIX))
    c.trusted = ["E1 extractor", "emission interpreter (vlib/emit.py)", "spec/codegen.json: accessor/printer names frozen from the reviewed tree (no LiPE documentation offline)", "spec/units.json, spec/posix_mode.json"]
    c.explanation = (
        "Code-generation tables extracted by abstract interpretation of every match arm of the TargetScheme impls are compared, row by row (one row per variant combination, whitespace-insensitive S-expression "
        "tokens), with the reference tables; on top, semantic rules check the comparison operator and operand order, unit constants and same-unit comparison, POSIX type bits and mask, matcher choice agreement "
        "between the two managers, printer/terminator per action, directive/argument alignment of format strings, what each element of a joined collection contributes (per-element case tables, compared up to refinement of the case split), and the program skeleton. Each violated row is a definite mistranslation."
    )
    c.decided = ["operator, comparison, field, unit, mask and printer named by the emitted text for every variant (necessary for equivalence)"]
    c.not_decided = ["what the LiPE/Guile procedures compute at run time", "run-time failure freedom of the policy", "truth value of actions", "order of outputs across files"]
    T = "<Test as TargetScheme>::compile"
    trows = codegen.table(facts, T)
    n = codegen.diff_tables(c, "C02.field", T, codegen.plain(trows), spec["tables"][T], "test template", fields=("tokens", "outcome"))
    c.floor("test rows", n, 80)
    # C02.cmp: operator and operand order for every comparison row
    ex = codegen.expand(trows)
    ncmp = 0
    for key, row in sorted(ex.items()):
        m = re.search(r"∈Comparison::(\w+)", key)
        if not m or not row["tokens"]:
            continue
        ncmp += 1
        toks = row["tokens"]
        op_ok = len(toks) > 3 and toks[0] == "(" and toks[1] == CMP[m.group(1)]
        # file-side expression first (a parenthesised accessor form), constant (a hole) last
        order_ok = len(toks) > 3 and toks[2] == "(" and toks[-1] == ")" and toks[-2].startswith("{") and not toks[-2].startswith("{SystemTime")
        c.ob("C02.cmp", T, key, op_ok and order_ok, "`%s`: operator for %s must be %s, file-side expression first, constant second" % (" ".join(toks), m.group(1), CMP[m.group(1)]), witness=None, nontrivial=False)
    c.floor("comparison rows", ncmp, 48)
    # C02.units
    c19.units_rules(c, facts, "C02.units")
    for key, row in sorted(ex.items()):
        mu = re.search(r"∈Size::(\w+)$", key)
        if key.startswith("self∈Test::Size") and mu:
            unit = mu.group(1)
            toks = row["tokens"]
            txt = " ".join(toks)
            if unit == "Byte":
                ok = "round-up" not in txt and "( size )" in txt and toks[-2] == "{Size::byte_size($Comparison.0)}"
                det = "bytes are compared unrounded: `%s`" % txt
            else:
                ok = "( round-up-power-of-2 ( size ) {Size::mult($Comparison.0)} )" in txt and toks[-2] == "{Size::byte_size($Comparison.0)}"
                det = "file size rounded up to the unit (mult()) and compared with count×unit (byte_size): `%s`" % txt
            c.ob("C02.units", T, key, ok, det, nontrivial=False)
        m = re.match(r"self∈Test::(AccessTime|ChangeTime|ModifyTime) ", key)
        if m:
            fld = {"AccessTime": "atime", "ChangeTime": "ctime", "ModifyTime": "mtime"}[m.group(1)]
            txt = " ".join(row["tokens"])
            ok = ("( quotient ( - {SystemTime::now().duration_since(SystemTime::UNIX_EPOCH).unwrap().as_secs()} ( %s ) ) {TimeSpec::secs($Comparison.0)} ) {$TimeSpec.0} )" % fld) in txt
            c.ob("C02.units", T, key, ok, "age = quotient (now − %s) by the unit's seconds, compared with the bare count: `%s`" % (fld, txt), nontrivial=False)
    # the count read for time comparisons binds every TimeSpec variant
    # C02.type
    consts = flag_consts(facts)
    for name, val in posix.items():
        if name.startswith("S_"):
            c.ob("C02.type", "permission_flags::values", name, consts.get(name) == int(val, 8), "%s = %s; POSIX %s" % (name, oct(consts[name]) if consts.get(name) is not None else None, val), nontrivial=False)
    fo = facts.fn("FileType::octal")
    # the bits of each file type, evaluated (vlib/probe.py) — a match, a lookup table, an array indexed by discriminant …
    from .. import probe as P

    tab = {}
    for v in facts.variants("FileType"):
        try:
            r_ = P.Probe(facts, "FileType", fo.module).invoke(fo, ("enum", "FileType::%s" % v, []), [])
            tab[v] = r_ if isinstance(r_, int) and not isinstance(r_, bool) else None
        except (P.NoEval, P.Panic) as ex:
            tab[v] = None
    for v, flag in posix["file_types"].items():
        want_ = consts.get(flag)
        okv = tab.get(v) is not None and want_ is not None and tab[v] == want_
        c.ob("C02.type", fo.key, v, okv, "FileType::%s → %s; POSIX %s = %s" % (v, oct(tab[v]) if tab.get(v) is not None else None, flag, oct(want_) if want_ is not None else None), witness="-type %s" % {"Block": "b", "Character": "c", "Directory": "d", "Pipe": "p", "File": "f", "Link": "l", "Socket": "s"}[v] if not okv else None)
    # the macro that defines the flags takes each value from `values::<same name>`
    mr = facts.macro_rules.get("bitflags")
    c.ob("C02.type", "permission_flags", "flag F has the value of constant F", mr is not None and "const$Flag=values::$Flag" in mr["raw"].replace(" ", ""), "bitflags! wrapper defines `const $Flag = values::$Flag`", nontrivial=False)
    # how a type list is tested: read from the Test::Type rows of the test table (wherever the code lives)
    SIFMT = str(int(posix["S_IFMT"], 8)) if "S_IFMT" in posix else str(0o170000)
    ok_t, det, njoin = False, "", 0
    for r in trows:
        if "Test::Type" not in r["cond"]:
            continue
        for p in r["st"].buf:
            if p[0] != "join":
                continue
            mp, joiner = p[1], p[2]
            if mp.get("v") == "mapped":
                for conds, v in mp["elems"]:
                    if v.get("v") == "str":
                        t = emit.scheme_tokens(emit.canon_parts(v["parts"]))
                        ok_t = len(t) == 11 and t[:7] == ["(", "=", "(", "logand", "(", "mode", ")"] and t[7] == SIFMT and ("octal().bits()" in t[9] or ("FileType::octal(" in t[9] and t[9].rstrip("}").endswith(".bits()"))) and t[8] == ")" and t[10] == ")"
                        det = " ".join(t)
                txt = " ".join(r["tokens"])
                ok_j = r["tokens"][:2] == ["(", "or"] and joiner == " "
                njoin += 1
                c.ob("C02.type", T, "several types are joined by (or …)", ok_j, "`%s` with separator %r" % (txt, joiner), nontrivial=False)
    c.ob("C02.type", T, "a type list is rendered by joining its elements", njoin >= 1, "%d joined renderings of Test::Type" % njoin, nontrivial=False)
    c.ob("C02.type", T, "each type test is (= (logand (mode) S_IFMT) type-bits)", ok_t, "element template `%s` (S_IFMT = %s)" % (det, SIFMT))
    # C02.elements: what each element of a joined collection contributes (the rows above only say that it is joined)
    nel = 0
    for key, want_subs in sorted((spec.get("elements") or {}).items()):
        got_subs = codegen.element_tables(codegen.table(facts, key))
        c.ob("C02.elements", key, "joined collections in the emitted text", len(got_subs) == len(want_subs), "%d joined collection(s) in the rows of %s, reference %d" % (len(got_subs), key, len(want_subs)), nontrivial=False)
        for gs, ws in zip(got_subs, want_subs):
            c.ob("C02.elements", key, "join #%d of [%s]: collection and separator" % (ws["index"], ws["row"]), gs["sep"] == ws["sep"] and gs["of"] == ws["of"], "joins %s with %r; reference %s with %r" % (gs["of"], gs["sep"], ws["of"], ws["sep"]), nontrivial=False)
            nel += codegen.equiv_tables(c, "C02.elements", key, gs["rows"], ws["rows"], "element of join #%d (%s)" % (ws["index"], ws["of"]), got_fails=gs.get("fails", ()), want_fails=ws.get("fails", ()))
    c.floor("element cases of joined collections", nel, 40)
    # C02.op / action / expression
    for key, rule, floor in (("<Operator as TargetScheme>::compile", "C02.op", 5), ("<Action as TargetScheme>::compile", "C02.action", 12), ("<Expression as TargetScheme>::compile", "C02.op", 5)):
        n = codegen.diff_tables(c, rule, key, codegen.plain(codegen.table(facts, key)), spec["tables"][key], "template", fields=("tokens", "outcome"))
        c.floor("%s rows" % key, n, floor)
    orows = codegen.expand(codegen.table(facts, "<Operator as TargetScheme>::compile"))
    want_ops = {"And": "and", "List": "and", "Or": "or", "Not": "not"}
    for v, kw_ in want_ops.items():
        row = orows.get("self∈Operator::%s" % v)
        ar = len(facts.variant_fields("Operator", v))
        exp = ["(", kw_] + ["{sub $Operator.%d}" % i for i in range(ar)] + [")"]
        c.ob("C02.op", "<Operator as TargetScheme>::compile", "%s → (%s …) children once, left before right" % (v, kw_), row is not None and row["tokens"] == exp, "emits `%s`; expected `%s`" % (" ".join(row["tokens"]) if row else None, " ".join(exp)), witness="-true %s -false" % {"And": "-a", "List": ",", "Or": "-o", "Not": "!"}[v] if not (row and row["tokens"] == exp) else None)
    # C02.action: terminators
    arows = codegen.expand(codegen.table(facts, "<Action as TargetScheme>::compile"))
    want_act = {
        "Print": "mgr.get_printer(Some('\\n'))",
        "PrintNull": "mgr.get_printer(Some('\\x00'))",
        "FilePrint": "mgr.get_file_printer($Action.0,Some('\\n'))",
        "FilePrintNull": "mgr.get_file_printer($Action.0,Some('\\x00'))",
        "PrintFormatted": "mgr.get_printer(None)",
        "FilePrintFormatted": "mgr.get_file_printer($Action.0,None)",
    }
    for a, hole in want_act.items():
        row = arows.get("self∈Action::%s" % a)
        has = row is not None and any(t == "{%s}" % hole for t in row["tokens"])
        c.ob("C02.action", "<Action as TargetScheme>::compile", "%s uses printer %s" % (a, hole), has, "tokens %s" % (row["tokens"] if row else None), witness="-%s" % a.lower() if not has else None, nontrivial=False)
    # C02.match: matcher choice agrees between the managers and with the reference
    mt = {}
    for M in codegen.MANAGERS:
        k = codegen.mgr_key(facts, M, "get_matcher")
        rows = codegen.table(facts, k, codegen.AFF())
        mt[M] = codegen.expand(codegen.plain(rows))
        codegen.diff_tables(c, "C02.match", k, codegen.plain(rows), spec["tables"][k], "matcher definition")
    a_, b_ = [mt[M] for M in codegen.MANAGERS]
    c.ob("C02.match", "scheme::manager", "both managers choose and define matchers identically", a_ == b_, "sibling tables %s" % ("agree" if a_ == b_ else "differ: %s" % [k for k in set(a_) | set(b_) if a_.get(k) != b_.get(k)][:3]))
    # which matcher: decided by "is the pattern a glob" (the condition made of contains('?'|'*'|'[') on the pattern) and by
    # the case flag (the second parameter); both appear as conditions of the allocating paths
    want_m = {(True, True): "fnmatch-ci?", (False, True): "streq-ci?", (True, False): "fnmatch?", (False, False): "streq?"}
    seen_m = set()
    for key, row in a_.items():
        if not row["effects"]:
            continue
        atoms = key.split(" ∧ ")
        ci = [x.split("=")[1] == "True" for x in atoms if re.fullmatch(r"@1=(True|False)", x)]
        glob_atoms = [x for x in atoms if ".contains_any(" in x and "@0" in x and re.search(r"=(True|False)$", x)]
        if len(ci) != 1 or len(glob_atoms) != 1:
            c.ob("C02.match", "scheme::manager", "matcher choice [%s]" % key[:70], None, "the allocating path does not branch on exactly one glob test of the pattern and on the case flag: %s" % atoms)
            continue
        gsub, gval = glob_atoms[0].rsplit("=", 1)
        shape_ok = gsub == "@0.contains_any(%r)" % "".join(sorted("?*["))
        k_ = (gval == "True", ci[0])
        seen_m.add(k_)
        txt = " ".join(row["effects"])
        fn_ = re.search(r"\((fnmatch-ci\?|streq-ci\?|fnmatch\?|streq\?) ", txt)
        c.ob("C02.match", "scheme::manager", "(is_pattern, insensitive)=%s → %s" % (k_, want_m[k_]), shape_ok and fn_ is not None and fn_.group(1) == want_m[k_], "glob test `%s` (a pattern is a string containing ?, * or [: %s); definition `%s`" % (gsub[:80], shape_ok, txt[:110]), nontrivial=False)
    c.ob("C02.match", "scheme::manager", "all four (glob, case) combinations allocate a matcher", seen_m == set(want_m), "combinations seen: %s" % sorted(seen_m), nontrivial=False)
    # C02.printer: what each manager defines for a (destination, terminator) request
    for M in codegen.MANAGERS:
        for meth in ("get_printer", "get_file_printer"):
            k = codegen.mgr_key(facts, M, meth)
            codegen.diff_tables(c, "C02.printer", k, codegen.plain(codegen.table(facts, k, codegen.AFF())), spec["tables"][k], "printer definition")
    # the name/path tests pass the right case flag and accessor
    for v, (acc, ci) in {"Name": ("call-with-name", "false"), "InsensitiveName": ("call-with-name", "true"), "Path": ("call-with-relative-path", "false"), "InsensitivePath": ("call-with-relative-path", "true")}.items():
        row = ex.get("self∈Test::%s" % v)
        exp = ["(", acc, "{mgr.get_matcher($Test.0,%s)}" % ci, ")"]
        c.ob("C02.match", T, "%s → (%s matcher(pattern, ci=%s))" % (v, acc, ci), row is not None and row["tokens"] == exp, "emits `%s`" % (" ".join(row["tokens"]) if row else None), nontrivial=False)
    # C02.fmt-*: placeholder / snippet / literal tables and arity agreement
    for key in ["scheme::target_scheme::placeholder", "scheme::target_scheme::snippet", "scheme::target_scheme::literal", "<Vec<FormatElement> as TargetScheme>::compile"] + [k_ for k_ in codegen.helpers(facts) if k_ in codegen.OPTIONAL_HELPERS]:
        # per-element failures inside a traversal (`∃ element …  → Err`) are rows only in the loop spelling; whether such an
        # error is propagated is C12.propagate's question, the table compares what is emitted when every element is accepted
        codegen.diff_tables(c, "C02.fmt", key, codegen.plain(codegen.table(facts, key)), spec["tables"][key], "format table", fields=("tokens", "outcome"), only=(lambda k_: "∃" not in k_) if "Vec<FormatElement>" in key else None)
    pe = codegen.expand(codegen.table(facts, "scheme::target_scheme::placeholder"))
    se = codegen.expand(codegen.table(facts, "scheme::target_scheme::snippet"))
    nf = 0
    for v in facts.variants("FormatField"):
        pk = [(k, r) for k, r in pe.items() if re.match(r"@0∈FormatField::%s\b" % v, k)]
        sk = [(k, r) for k, r in se.items() if re.match(r"@0∈FormatField::%s\b" % v, k)]
        for k, r in pk:
            if r["outcome"].startswith("err"):
                continue
            nf += 1
            directive = r["outcome"].startswith('ok:"~')
            # the snippet row with the same sub-condition
            sub = k.split(" ∧ ", 1)[1] if " ∧ " in k else None
            cand = [r2 for k2, r2 in sk if (sub is None or sub in k2 or " ∧ " not in k2)]
            args_ = {r2["outcome"].startswith("ok:Some(") for r2 in cand if not r2["outcome"].startswith("err")}
            c.ob("C02.fmt-arity", "placeholder/snippet", k, args_ == {directive}, "placeholder %s (%s a ~ directive) ⇔ snippet yields %s" % (r["outcome"], "is" if directive else "is not", sorted(o["outcome"][:30] for o in cand)), nontrivial=False)
    c.floor("format fields checked for directive/argument alignment", nf, 30)
    # both lists are produced from the same vector, element by element, in order: decided on the interpreted value of the
    # successful path — the template and the argument list are joins over an element-wise traversal of `self` itself
    # (iterator chain, filter_map, one or two `for` loops: the interpreter brings them to the same `mapped` form; a reversed,
    # skipped or sorted traversal does not have that form and the template row above differs)
    vf = facts.fn("<Vec<FormatElement> as TargetScheme>::compile")
    okrows = [r_ for r_ in codegen.table(facts, vf.key) if r_["outcome"].startswith("ok") and "∃" not in (r_["cond"] or "")]
    joins = []
    for r_ in okrows:
        for part in r_["st"].buf:
            if part and part[0] == "join":
                mv = part[1]
                joins.append((isinstance(mv, dict) and mv.get("v") == "mapped" and isinstance(mv.get("of"), dict) and mv["of"].get("v") == "self", part[2]))
    okc = len(okrows) == 1 and [j[1] for j in joins] == ["", " "] and all(j[0] for j in joins)
    c.ob("C02.fmt-arity", vf.key, "directives and arguments are produced in element order", okc, "joined parts of the emitted form: %s (element-wise over self: %s)" % ([j[1] for j in joins], [j[0] for j in joins]))
    # fail closed: the interpreter must have modelled every construct of the code generator it walked
    for key in codegen.COMPILE_IMPLS + codegen.helpers(facts):
        unk = sorted({u for r in codegen.table(facts, key) for u in r["unknown"]})
        c.ob("C02.modelled", key, "every construct of the generator was interpreted", not unk, "unmodelled constructs: %s" % unk[:4] if unk else "all paths fully interpreted", nontrivial=False)
    for M in codegen.MANAGERS:
        for meth in codegen.MGR_METHODS:
            k = codegen.mgr_key(facts, M, meth)
            unk = sorted({u for r in codegen.table(facts, k, codegen.AFF()) for u in r["unknown"]})
            c.ob("C02.modelled", k, "every construct of the generator was interpreted", not unk, "unmodelled constructs: %s" % unk[:4] if unk else "all paths fully interpreted", nontrivial=False)
    # C02.skeleton
    sk = emit.skeleton(facts)
    toks = emit.scheme_tokens(sk["text"]) if sk and "text" in sk else None
    c.ob("C02.skeleton", "CompiledExpression::scheme", "program skeleton", toks == spec["skeleton"]["tokens"], "policy body is the thunk passed as 3rd argument of lipe-scan, init/fini the 1st/3rd thunks of dynamic-wind, definitions the let* bindings: %s" % (toks == spec["skeleton"]["tokens"]), facts={"lipe_scan_args": sk.get("lipe_scan_args") if sk else None})
    from .. import toplevel

    T_ = toplevel.summary(facts)
    comp = T_["fn"]
    want_f = {"policy_body": "<buffer handed to compile()>", "options": "<rendered thread count>", "modules": "M.modules()", "definitions": "M.definitions()", "initialization": "M.initialization()", "terminate": "M.terminate()", "io_map": "M.printer_map()"}
    got_f, okf = {}, bool(T_["paths"])
    for p_ in T_["paths"]:
        if p_["outcome"] != "ok" or not p_["fields"]:
            continue
        mgrs_ = {toplevel.ctor_of(c_["args"][1]) for c_ in p_["calls"] if c_["method"] == "compile" and len(c_["args"]) >= 2}
        for fname, meth in (("modules", "modules"), ("definitions", "definitions"), ("initialization", "initialization"), ("terminate", "terminate"), ("io_map", "printer_map")):
            v_ = p_["fields"].get(fname)
            hit = isinstance(v_, dict) and v_.get("kind") == "mcall" and v_.get("method") == meth and {toplevel.ctor_of(v_)} == mgrs_
            got_f.setdefault(fname, set()).add("M.%s()" % meth if hit else emit.canon(v_)[:60] if isinstance(v_, dict) else str(v_))
            okf = okf and hit
        if set(p_["fields"]) != set(want_f):
            okf = False
    got_f = {k_: sorted(v_) for k_, v_ in got_f.items()}
    c.ob("C02.skeleton", comp.key, "each part of the compiled expression comes from the right source", okf, "on every path modules/definitions/initialization/terminate/io_map are read from the manager M the expression was compiled with: %s" % got_f)
    # C02.input: the per-variant tables above say what each node is translated to; they say something about the policy only
    # if the tree handed to the generator *is* the expression the caller gave — itself, or `And(it, DefaultPrint)` (C09 decides
    # when). A rewritten tree (folded, simplified, reordered, filtered) is a second translation step the tables do not cover
    # and whose interplay with action()/complex_frames() cannot be read off them.
    WRAP_ = "Expression::Operator(Operator::And(@0,Expression::Action(Action::DefaultPrint)))"
    tg_ = {emit.canon(c_["recv"]) for p_ in T_["paths"] for c_ in p_["calls"] if c_["method"] == "compile"}
    unk_ = sorted({u for p_ in T_["paths"] for u in p_["unknown"]})
    c.ob(
        "C02.input",
        comp.key,
        "the tree translated is the caller's expression (possibly wrapped with the implicit print)",
        bool(tg_) and tg_ <= {"@0", WRAP_} and not unk_,
        "compile() hands %s to the code generator%s; a rewritten tree is a translation step outside the per-variant tables" % (sorted(tg_), ("; constructs not understood: %s" % unk_[:2]) if unk_ else ""),
    )
    # C02.input (premise): "the same outputs as evaluating the expression" includes the implicit print — added exactly when the
    # tree holds no action (C09 decides the detection and the wrap; a wrong answer writes a file twice or not at all)
    from .. import report as _rep2

    _rep2.require(c, facts, "c09", "C02.input", "scheme::compile", "the implicit print is added exactly when the expression holds no action", lambda o: o["rule"] in ("C09.detect", "C09.wrap", "C09.default"), "which outputs the policy adds on its own is decided by the C09 rules (action detection by induction, wrap = And(whole, DefaultPrint))")
    # C02.printer (types): an action writes "what it names" — its own destination with its own terminator — only if the printer
    # registry tells (destination, terminator) pairs apart: equality and hash of the key types are the derived ones
    from .. import valuetraits as _vt

    kp_ = _vt.key_problems(facts)
    c.ob("C02.printer", "printer registry", "requests for different (destination, terminator) pairs are told apart (key types derive ==/hash)", not kp_, "key types: %s%s" % (sorted(_vt.key_types(facts)), ("; NOT derived: %s" % kp_) if kp_ else ""), witness="-fprint f -fprint0 f" if kp_ else None)
    c.control("C02.cmp", CMP["GreaterThan"] == ">" and CMP["LesserThan"] == "<", "operator table distinguishes > and <")
