"""C11 — generated identifiers: bound once, before use, never captured (affine analysis of the managers)."""
import re

from .. import facts as F
from .. import codegen, emit, mgr, sexp, rx
from ..facts import src, find_all

ALLOC = ["get_printer", "get_file_printer", "get_matcher"]


def run(c, facts, tier):
    c.trusted = ["E1 extractor", "emission interpreter (affine forms over var_index; every path of every allocating method enumerated)"]
    c.explanation = (
        "Affine dataflow over the managers' counter: on every path of every allocating method the names bound are kind:(v+i) for pairwise distinct i in [0,k) and the counter leaves as v+k, "
        "nothing is emitted on the 'already present' path, the name handed back equals the binder emitted for that request, references inside initialisers point to names allocated earlier, "
        "and lookup key = insertion key ⊇ all request parameters. By induction over the call sequence (kind, number) pairs are globally unique for any number of resources."
    )
    c.decided = ["each generated name bound exactly once", "use after binding (let* order)", "reference reaches the resource created for that request", "identical requests share, different requests never share"]
    c.not_decided = ["behaviour of the executed policy"]
    from .. import report as _rep

    _rep.require(c, facts, "c02", "C11.key", "requests", "each name/path test asks for the matcher of its own pattern and case-sensitivity", lambda o: o["rule"] == "C02.match" and "matcher(pattern, ci=" in o["instance"], "which (pattern, case flag) request a test sends to the manager is decided by the C02.match rows of the test table")
    _rep.require(c, facts, "c02", "C11.key", "printer requests", "each printing action asks for the printer of its own destination and terminator", lambda o: o["rule"] == "C02.action" and " uses printer " in o["instance"], "which (destination, terminator) request an action sends to the manager is decided by the C02.action rows; a request for another action's resource would make two different requests share it")
    c.exhaustive = True
    npaths = 0
    for M in codegen.MANAGERS:
        dv = mgr.default_vars(facts, M)
        start = dv["start"]
        pre = []
        for text in dv["vars"]:
            forms = sexp.parse(emit.scheme_tokens(text))
            for f in forms:
                if isinstance(f, list) and f and isinstance(f[0], str):
                    m = mgr.NAME.fullmatch(f[0])
                    if m:
                        pre.append((m.group(1), mgr.idx_of(m.group(2))))
        dyn_kinds = set()
        for meth in ALLOC:
            ps = mgr.paths(facts, M, meth)
            site = "%s::%s" % (M, meth)
            for p in ps:
                npaths += 1
                names = p.bound_names()
                for kd, ix, role in names:
                    dyn_kinds.add(kd)
                inst = p.cond or "(unconditional)"
                if p.row.get("unknown"):
                    c.ob("C11.fresh", site, inst, None, "path contains constructs the interpreter could not model: %s" % p.row["unknown"][:2])
                    continue
                idxs = [ix for _, ix, _ in names]
                k = p.final[1] if p.final else 0
                sym = all(i[0] == "v" for i in idxs)
                distinct = len({(kd, i) for kd, i, _ in names}) == len(names)
                inrange = all(0 <= i[1] < k for i in idxs) if sym else False
                # every index in [0,k) is used by some name (no gaps are harmless, but overshoot is not)
                ok = sym and distinct and inrange and (p.final is None or p.final[0] == "v") if names else (p.final is None)
                c.ob(
                    "C11.fresh",
                    site,
                    inst,
                    ok,
                    "names bound on this path: %s; counter leaves as v%+d" % (["%s:v%+d" % (kd, i[1]) if i[0] == "v" else "%s:%s" % (kd, i[1]) for kd, i, _ in names], k) if names else "nothing allocated, counter unchanged: %s" % (p.final is None),
                    facts={"pushes": [t for _, t, _, _ in p.pushes], "final": p.final},
                )
                # nothing emitted without bumping and vice versa
                if (not names) != (p.final is None):
                    c.ob("C11.fresh", site, inst + " [bump⇔emit]", False, "names %s but counter %s" % (names, p.final))
                # C11.returned
                ret = p.ret
                m = next(iter(mgr.NAME.finditer(ret)), None)
                if m is not None:
                    m = mgr._M(m.kind, m.idx.strip("{}") if m.idx.startswith("{") else m.idx, m.full)
                rk = m.group(1) if m else None
                binders = [(kd, i) for kd, i, role in names if role == "binder" and kd == rk]
                if m is None:
                    c.ob("C11.returned", site, inst, None, "returned value %s is not a generated name" % ret)
                elif binders:
                    rix = mgr.idx_of("{" + m.group(2) + "}")
                    if rix[0] == "v":
                        okr = (rk, rix) in binders
                        det = "returns %s:v%+d; binder emitted on this path: %s" % (rk, rix[1], binders)
                    else:
                        # returned through the table: the inserted value must be the binder's index
                        ins = [v for fld, v in p.inserts if len(v) == 2]
                        vals = [mgr.idx_of("{" + x[1] + "}") if not x[1].isdigit() else (None, int(x[1])) for x in ins]
                        okr = any(("v", b[1][1]) == v for b in binders for v in vals) and "get(" in m.group(2)
                        det = "returns the table entry %s; value inserted on this path %s; binder %s" % (m.group(2)[:60], vals, binders)
                    c.ob("C11.returned", site, inst, okr, det)
                else:
                    # existing-resource path: returns the stored index
                    okr = "get(" in m.group(2) or "matched(" in m.group(2) or "$" in m.group(2)
                    c.ob("C11.returned", site, inst, okr, "already-present path returns the stored index: %s" % m.group(2)[:80])
                # C11.scope: references inside initialisers
                for kd, ixt, binder, fld in p.references():
                    ix = mgr.idx_of(ixt)
                    bm = mgr.NAME.fullmatch(binder) if binder else None
                    bix = mgr.idx_of(bm.group(2)) if bm else None
                    if ix[0] is None:
                        okp = (kd, ix) in pre
                        det = "reference to pre-allocated %s:%d (defined first in the let*: %s)" % (kd, ix[1], okp)
                    elif ix[0] == "v":
                        earlier = [(k2, i2) for k2, i2, _ in names]
                        okp = (kd, ix) in earlier and (bix is None or bix[0] != "v" or True)
                        # must be bound before: position in push order
                        order = [b for b in [sexp.parse(t)[0][0] if sexp.parse(t) and isinstance(sexp.parse(t)[0], list) else None for _, _, t, _ in p.pushes if _ == "vars"]]
                        det = "reference %s:v%+d inside %s; names bound on this path: %s" % (kd, ix[1], binder, earlier)
                        if fld == "vars" and binder:
                            # the referenced binder must precede the referencing one in push order
                            pos_ref = next((i for i, b in enumerate(order) if b and b.startswith("%%lf3:%s:" % kd) and mgr.idx_of(mgr.NAME.fullmatch(b).group(2)) == ix), None)
                            pos_use = next((i for i, b in enumerate(order) if b == binder), None)
                            if pos_ref is not None and pos_use is not None and pos_ref > pos_use:
                                okp = False
                                det += " — bound AFTER its use"
                    else:
                        # projection of a stored OpenPort: .port / .mutex of a looked-up / just-created port
                        inner = ixt[1:-1] if ixt.startswith("{") else ixt
                        okp = inner.endswith(".port") or inner.endswith(".mutex")
                        det = "reference through a stored port record: %s" % ixt[:80]
                    c.ob("C11.scope", site, "%s ← %s:%s" % (binder, kd, ixt[:40]), okp, det, nontrivial=False)
                # C11.stored: the index stored in the sharing table is the binder emitted on this path
                for fld, kv in p.inserts:
                    if fld not in ("printers", "matches") or len(kv) != 2:
                        continue
                    want_kind = {"printers": "print", "matches": "match"}[fld]
                    bix = [i for kd, i, role in names if role == "binder" and kd == want_kind]
                    val = mgr.idx_of("{" + kv[1] + "}") if not kv[1].isdigit() else (None, int(kv[1]))
                    oks = len(bix) == 1 and val == bix[0]
                    c.ob("C11.stored", site, "%s[%s] = index of the %s binder" % (fld, inst[:50], want_kind), oks, "stored value %s; binder emitted on this path: %s — a later identical request would otherwise be handed a different resource" % (val, bix), witness="-name *.c -name main.c -o -name *.c -print0" if not oks else None)
                # C11.key
                for fld, kv in p.inserts:
                    key = p.norm(kv[0])
                    conds = p.norm(p.cond)
                    looked = key in conds
                    c.ob("C11.key", site, "%s: lookup key = insertion key [%s]" % (fld, inst[:60]), looked, "inserted under %s; path condition tests %s" % (key, "the same key" if looked else conds[:120]), nontrivial=False)
            # key completeness: every parameter of the request occurs in the key
            fn = facts.fn(codegen.mgr_key(facts, M, meth))
            nparams = len(fn.params)
            keys = set()
            for p in ps:
                for fld, kv in p.inserts:
                    if fld in ("printers", "matches"):
                        keys.add(p.norm(kv[0]))
            for key in keys:
                # the key must be built from the parameters themselves (copies), not from a function of them that could merge requests
                stripped = re.sub(r'files\[(?:"\{@\d+\}"|@\d+)\]|default_port|"\{@\d+\}"|@\d+|Target::(File|Stdout)|[(),]', "", key)
                inj = stripped.strip() == ""
                c.ob("C11.key", site, "sharing key is made of the request parameters themselves", inj, "key %s%s" % (key, "" if inj else " — contains a derived value (%s): two different requests may map to one key and share a resource" % stripped.strip()[:60]), witness="-name Makefile -o -name makefile" if not inj else None)
                missing = [i for i in range(nparams) if "@%d" % i not in key]
                c.ob("C11.key", site, "sharing key contains every request parameter", not missing, "key %s; request parameters missing from it: %s" % (key, ["@%d=%s" % (i, fn.params[i][0]) for i in missing]), witness="-name x -iname x" if missing and meth == "get_matcher" else None)
            if not keys:
                c.ob("C11.key", site, "sharing key present", False, "no insertion into the sharing table found")
        # pre-allocated names vs dynamic kinds
        for kd, ix in pre:
            okp = kd not in dyn_kinds or (start is not None and ix[1] < start)
            c.ob("C11.fresh", M, "pre-allocated %s:%s" % (kd, ix[1]), okp, "pre-allocated name %s:%s; dynamic kinds %s start at %s" % (kd, ix[1], sorted(dyn_kinds), start))
        c.ob("C11.fresh", M, "counter starts above the pre-allocated numbers of dynamic kinds", start is not None, "start index %s" % start, nontrivial=False)
        # C11.scope: definitions() renders vars in order
        dk = codegen.mgr_key(facts, M, "definitions")
        dfn = facts.fn(dk)
        t = rx.tail_expr(dfn.body)
        # which list does definitions() render, and in which order?  By role: the layout ties the list called `vars` to
        # the Vec<String> that definitions() joins (a Vec keeps insertion order)
        from .. import mgrstate

        lay = mgrstate.layout(facts, M)
        vars_paths = [p_ for p_, r_ in lay["alias"].items() if r_ == "vars"]
        okd = len(vars_paths) == 1 and lay["paths"].get(vars_paths[0]) == "Vec<String>"
        fldname = "vars" if okd else None
        pushed = {fld for meth in ALLOC for p in mgr.paths(facts, M, meth) for fld, _, _, _ in p.pushes if fld not in ("fini", "init")}
        c.ob("C11.scope", dk, "definitions are the pushed bindings in creation order", okd and pushed <= {fldname}, "definitions() joins the insertion-ordered Vec %s; bindings are pushed to %s" % (vars_paths, sorted(pushed)))
    # C11.key (types): "identical requests share, different requests never share" is decided above on the keys the managers build;
    # it holds for the *map* only if equality and hash of the key types look at every field (derived impls do)
    from .. import valuetraits as _vt

    kp_ = _vt.key_problems(facts)
    c.ob("C11.key", "sharing tables", "equality and hash of the key types cover every field (derived)", not kp_, "key types of the crate's maps: %s%s" % (sorted(_vt.key_types(facts)), ("; NOT derived: %s — two different requests can compare equal and share one resource" % kp_) if kp_ else ""), witness="-fprint f -fprint0 f" if kp_ else None)
    # C11.identity: a reference reaches "the printer created for that very destination" only if the printer bound to the name
    # carries, as its frame tag, the number its own name and its table entry carry — a tag rendered from a converted, truncated or
    # later value binds the name to a printer that announces another destination (decision shared with C10.one-index)
    from . import c10 as _c10

    fr_, _pl = _c10.framed_manager(facts)
    if fr_:
        for site_, inst_, ok_, det_, nt_ in _c10.one_index(facts, fr_):
            c.ob("C11.identity", site_, inst_, ok_, det_, nontrivial=nt_)
    # skeleton: definitions inside let*
    sk = emit.skeleton(facts)
    toks = sk["tokens"] if sk and "tokens" in sk else emit.scheme_tokens(sk["text"]) if sk and "text" in sk else []
    forms = sexp.parse(toks)
    ok = False
    for f in forms:
        if isinstance(f, list) and f and f[0] == "let*" and len(f) > 1 and f[1] == ["{self.definitions}"]:
            ok = True
    c.ob("C11.scope", "CompiledExpression::scheme", "definitions are the bindings of let* (sequential scope)", ok, "skeleton: %s" % [sexp.show(f)[:60] for f in forms])
    c.floor("allocation paths", npaths, 16)
    c.control("C11.fresh", mgr.idx_of("{v+1}") == ("v", 1) and mgr.idx_of("{v}") == ("v", 0), "affine index parser distinguishes v and v+1 (a bump-by-1 matcher would collide on v+1/v)")
