"""C17 — debug and release builds behave identically (a property of the source's shape)."""
import glob
import json
import os
import re

from .. import facts as F
from .. import mir, peg, rx
from ..anchors import Anchors
from ..facts import src, find_all, norm_ty
from . import c03

SPEC = os.path.join(F.VERIF, "spec", "dep_asserts.json")
PROFILE_CFG = re.compile(r"debug_assertions|overflow_checks|cfg\(\s*debug|opt_level|cfg_panic|panic\s*=")
PROFILE_TXT = re.compile(r"debug_assertions|overflow_checks|\bdebug_assert(_eq|_ne)?!")


LOG_MACRO = re.compile(r"^log::(trace|debug|info|warn|error|log)!$")


def attr_census(facts):
    """Every attribute mentioning a profile predicate, with its holder."""
    hits = []

    def scan(node, holder):
        if isinstance(node, dict):
            at = node.get("attrs")
            if isinstance(at, list):
                for a in at:
                    if isinstance(a, str) and PROFILE_CFG.search(a):
                        hits.append((holder, a, node.get("l")))
            for v in node.values():
                scan(v, holder)
        elif isinstance(node, list):
            for v in node:
                scan(v, holder)

    for f in facts.files:
        if f["module"] and f["module"][0] == "<example>":
            continue
        for a in f.get("attrs", []):
            if PROFILE_CFG.search(a):
                hits.append((f["path"], a, 1))
    for fn in facts.nontest_fns():
        scan(fn.node, fn.key)
    for name, e in list(facts.enums.items()) + list(facts.structs.items()):
        scan(e, name)
    for _, _, im in facts.impls:
        for a in im.get("attrs", []):
            if PROFILE_CFG.search(a):
                hits.append(("impl " + im["self_ty"], a, im["l"]))
    for mod, it in facts.mods:
        for a in it.get("attrs", []):
            if PROFILE_CFG.search(a) and not it.get("test"):
                hits.append(("mod " + it["name"], a, it["l"]))
    # predicates the extractor evaluated (and removed from the tree it hands on): engines/ast-extract/src/cfgstrip.rs
    for r in F.cfg_records(facts):
        if PROFILE_CFG.search(r["pred"]) and r["on"] != "cfg!":
            hits.append(("%s: %s" % (r["file"], r["on"]), "cfg(%s)" % r["pred"], r["l"]))
    return hits


NEUTRAL_ATTR = re.compile(r"^(inline|must_use|allow|warn|deny|expect|forbid|cold|doc|deprecated|rustfmt::|clippy::|track_caller$|automatically_derived$)")


def _shape(n):
    """A node without positions, documentation and attributes that do not change what a program computes (`inline`, lints,
    `must_use`, …): what the compiler compiles, not where it stands or how it is optimised."""
    if isinstance(n, dict):
        out = {k: _shape(v) for k, v in n.items() if k not in ("l", "end", "docs", "_file", "_module", "attrs") and not k.startswith("_")}
        if isinstance(n.get("attrs"), list):
            out["attrs"] = [a for a in n["attrs"] if not (isinstance(a, str) and NEUTRAL_ATTR.match(a.strip()))]
        return out
    if isinstance(n, list):
        return [_shape(x) for x in n]
    return n


def profile_program_diff(facts):
    """Items (outside test code) that differ between the program the development profile compiles and the one the release
    profile compiles, after the normalisation that drops statements which only log (vlib/normalise.py).  Empty: the cfg splits
    over `debug_assertions` select between programs that are the same up to logging."""
    on = F.load(debug_assertions=True)
    off = F.load(debug_assertions=False)
    F.load()  # constants of the configuration being decided
    out = []
    for what, get in (("fn", lambda f_: {k: v.node for k, v in f_.fns.items() if not v.test}), ("const", lambda f_: f_.consts), ("static", lambda f_: f_.statics), ("enum", lambda f_: f_.enums), ("struct", lambda f_: f_.structs), ("type", lambda f_: f_.types)):
        a, b_ = get(on), get(off)
        for k in sorted(set(a) | set(b_)):
            if what == "const" and k.split("::")[-1] == "_":
                continue  # `const _: () = assert!(..)`: evaluated by the compiler, nothing of it exists at run time
            if k not in a or k not in b_:
                out.append("%s %s exists only %s debug assertions" % (what, k, "with" if k in a else "without"))
            elif json.dumps(_shape(a[k]), sort_keys=True, default=str) != json.dumps(_shape(b_[k]), sort_keys=True, default=str):
                out.append("%s %s" % (what, k))
    ia = sorted(json.dumps(_shape({k: v for k, v in im.items() if k != "items"}), sort_keys=True, default=str) for _, _, im in on.impls)
    ib = sorted(json.dumps(_shape({k: v for k, v in im.items() if k != "items"}), sort_keys=True, default=str) for _, _, im in off.impls)
    if ia != ib:
        out.append("the impl blocks (headers, derive-independent) differ")
    return out


def macro_census(facts):
    hits = []
    for fn in facts.nontest_fns():
        for x in find_all(fn.body, lambda x: x.get("k") == "macro") + list(fn.node.get("_asserts") or []):
            if x["name"] in ("debug_assert", "debug_assert_eq", "debug_assert_ne"):
                hits.append((fn.key, x["name"] + "!"))
            if x["name"] == "cfg" and PROFILE_CFG.search(x.get("raw", "")):
                hits.append((fn.key, "cfg!(%s)" % x.get("raw")))
    for r in F.cfg_records(facts):
        if PROFILE_CFG.search(r["pred"]) and r["on"] == "cfg!":
            hits.append((r["file"], "cfg!(%s)" % r["pred"]))
    return hits


def text_census(facts):
    """Textual safety net: occurrences outside comments and outside test items."""
    out = []
    test_ranges = {}
    for fn in facts.fns.values():
        if fn.test:
            test_ranges.setdefault(fn.file, []).append((fn.line, fn.node.get("end", fn.line)))
    for f in facts.files:
        if f["module"] and f["module"][0] == "<example>":
            continue
        path = os.path.join(facts.data["root"], f["path"])
        try:
            lines = open(path).read().split("\n")
        except OSError:
            continue
        for i, ln in enumerate(lines, 1):
            code = ln.split("//")[0]
            if PROFILE_TXT.search(code):
                if any(a <= i <= b for a, b in test_ranges.get(f["path"], [])):
                    continue
                out.append((f["path"], i, code.strip()[:80]))
    return out


def normalise_body(bd):
    # what a logging macro of the `log` crate expands to is not behaviour of the library (its arguments, written at the call
    # site, are: their spans are not inside the macro)
    calls = sorted((c["resolved"] or c["callee"], tuple(c["macros"][-1:])) for c in bd["calls"] if not (c["macros"] and LOG_MACRO.search(c["macros"][-1])))
    asserts = sorted((a["kind"], a["operands"]) for a in bd["asserts"] if a["kind"] not in c03.UB_CHECKS)
    casts = sorted((x["from"], x["to"]) for x in bd["casts"])
    return calls, asserts, casts


def run(c, facts, tier):
    b = peg.Builder(facts)
    g = peg.Grammar(b)
    an = Anchors(facts, b)
    c.trusted = ["E1 extractor (keeps both arms of every cfg split)", "E2 MIR facts of the debug-assertions=on and =off builds", "triage of the pinned dependencies' profile-dependent constructs (spec/dep_asserts.json), re-read from the registry source on every run"]
    c.explanation = (
        "Absence of profile-dependent constructs: (1) attribute/macro census over the unexpanded source (cfg(debug_assertions), cfg!(..), debug_assert*!, overflow_checks), cross-checked by a textual scan; "
        "(2) the MIR fact files of the debug-assertions=on and =off builds are identical per function (calls, asserts, casts; compiler-inserted UB checks excluded); (3) every overflow-checked arithmetic site is "
        "discharged (an undischarged one is precisely a panic-vs-wrap divergence); (4) winnow's profile-dependent assertion (ErrMode::assert: panic in debug, error in release) is unreachable because every repetition "
        "makes progress and every range is ascending, and its remaining debug_assert!s are pure internal checks."
    )
    c.decided = ["no behaviour depends on debug assertions", "no behaviour depends on overflow checking", "boundary with winnow"]
    c.not_decided = ["optimiser-dependent behaviour (impossible without unsafe: the crate has none, see C20.pure)"]
    # ---------------------------------------------------------------- C17.cfg
    attrs = attr_census(facts)
    macs = macro_census(facts)
    txt = text_census(facts)
    seen = set()
    pdiff = profile_program_diff(facts) if (attrs or any(not m_[1].startswith("debug_assert") for m_ in macs)) else []
    for holder, a, l in attrs:
        key = (holder, a)
        if key in seen:
            continue
        seen.add(key)
        c.ob("C17.cfg", holder, a, not pdiff, ("profile-dependent attribute `#[%s]` in %s: the two builds contain different code — %s" % (a, holder, "; ".join(pdiff[:6]))) if pdiff else ("`#[%s]` in %s selects between programs that are the same up to statements that only log: every function, constant and type of the crate is the same in the program either profile compiles" % (a, holder)), witness="nope" if "Positional" in holder else None)
    for holder, mname in macs:
        if mname.startswith("debug_assert"):
            # a debug assertion makes the builds differ only if it can fire: in the debug build it is a panic site of the
            # function, and whether that site can be reached is what the C03 rules decide
            from .. import report as _rep

            _rep.require(c, facts, "c03", "C17.cfg", holder, mname, lambda o, holder=holder: o["site"] == holder and str(o["instance"]).startswith("core::panicking::"), "%s in %s exists in the debug build only; it is harmless iff it cannot fire — the panic sites of %s (debug build) are decided by the C03 rules" % (mname, holder, holder))
            continue
        c.ob("C17.cfg", holder, mname, not pdiff, ("profile-dependent macro %s in %s: the two builds contain different code — %s" % (mname, holder, "; ".join(pdiff[:6]))) if pdiff else ("%s in %s selects between programs that are the same up to statements that only log" % (mname, holder)))
    structured = len(attrs) + len(macs)
    c.ob("C17.cfg", "crate", "textual cross-check agrees with the structured census", (len(txt) == 0) == (structured == 0) or len(txt) <= structured, "structured census: %d attribute(s) + %d macro(s); textual scan: %d line(s) %s" % (len(attrs), len(macs), len(txt), [(p, l) for p, l, _ in txt][:6]), nontrivial=False)
    if structured == 0 and txt:
        for p, l, code in txt:
            c.ob("C17.cfg", p, code, False, "profile-dependent construct found only by the textual scan: `%s`" % code)
    c.ob("C17.cfg", "crate", "census ran over the whole crate", True, "%d functions, %d files" % (len(facts.nontest_fns()), len(facts.files)), nontrivial=False)
    # Cargo profile overrides that would change semantics per profile
    try:
        cargo = open(os.path.join(facts.data["root"], "Cargo.toml")).read()
    except OSError:
        cargo = ""
    prof = re.findall(r"^\s*(overflow-checks|debug-assertions|panic)\s*=\s*(\S+)", cargo, re.M)
    c.ob("C17.cfg", "Cargo.toml", "no per-profile override of overflow-checks / debug-assertions / panic", not prof, "profile settings: %s" % prof if prof else "none", nontrivial=False)
    # ---------------------------------------------------------------- E2 on/off diff
    m_on, m_off = mir.load(True), mir.load(False)
    diffs = []
    for p in sorted(set(m_on.bodies) | set(m_off.bodies)):
        a, b_ = m_on.bodies.get(p), m_off.bodies.get(p)
        if a is None or b_ is None:
            diffs.append((p, "body exists only in the %s build" % ("debug-assertions=on" if b_ is None else "debug-assertions=off")))
            continue
        na, nb = normalise_body(a), normalise_body(b_)
        if na != nb:
            only_on = [x for x in na[0] if x not in nb[0]] + [x for x in na[1] if x not in nb[1]]
            only_off = [x for x in nb[0] if x not in na[0]] + [x for x in nb[1] if x not in na[1]]
            diffs.append((p, "only with debug assertions: %s; only without: %s" % (only_on[:3], only_off[:3])))
    for p, d in diffs:
        c.ob("C17.mir-diff", mir.e1_key(p, facts) or p, "MIR differs between the two builds", False, d, witness="nope" if "Positional" in p else None)
    c.ob("C17.mir-diff", "crate", "per-function MIR facts compared", True, "%d bodies compared (calls, asserts, casts); %d differ" % (len(m_on.bodies), len(diffs)), nontrivial=False)
    c.analysed["mir_bodies_compared"] = len(m_on.bodies)
    # ---------------------------------------------------------------- C17.overflow
    D = c03.Discharger(c, facts, b, g, an, m_on)
    cs = c03.Census(m_on, facts)
    no = 0
    for s in cs.sites:
        if s["kind"] == "arith-call" or (s["kind"] == "assert" and s["what"].startswith("Overflow")):
            if s["fn"] is None:
                continue
            no += 1
            ok, form, det = D.discharge(s)
            c.ob("C17.overflow", s["fn"], "%s#%d" % (s["what"], s["ord"]), ok, det + (" — debug builds panic here, release builds continue with a wrapped value" if ok is not True else ""), witness=D.witness(s, form) if ok is not True else None, nontrivial=ok is not True)
    c.floor("overflow-capable sites", no, 8)
    # ---------------------------------------------------------------- C17.dep-asserts
    spec = json.load(open(SPEC))
    ver = F.cargo_lock_version("winnow")
    c.ob("C17.dep-asserts", "Cargo.lock", "winnow version is the triaged one", ver == spec["winnow"]["version"], "Cargo.lock pins winnow %s; triage was done for %s" % (ver, spec["winnow"]["version"]))
    roots = glob.glob(os.path.expanduser("~/.cargo/registry/src/*/winnow-%s/src" % ver))
    if not roots:
        c.ob("C17.dep-asserts", "winnow", "source available", None, "winnow-%s source not found in the cargo registry" % ver)
    else:
        root = roots[0]
        callers, dbg = {}, {}
        for path in glob.glob(os.path.join(root, "**", "*.rs"), recursive=True):
            rel = "src/" + os.path.relpath(path, root)
            if rel.endswith("tests.rs") or "/tests/" in rel:
                continue
            for ln in open(path).read().split("\n"):
                code = ln.split("//")[0]
                if re.search(r"ErrMode::assert\(|[^a-z_]E::assert\(", code) and rel != spec["winnow"]["assert_impl"]:
                    callers[rel] = callers.get(rel, 0) + 1
                if re.search(r"\bdebug_assert(_eq|_ne)?!|cfg!?\(\s*(not\()?debug_assertions", code) and rel != spec["winnow"]["assert_impl"]:
                    dbg[rel] = dbg.get(rel, 0) + 1
        want_c = {k: v["count"] for k, v in spec["winnow"]["assert_callers"].items()}
        want_d = {k: v["count"] for k, v in spec["winnow"]["debug_asserts"].items()}
        c.ob("C17.dep-asserts", "winnow", "ErrMode::assert call sites are the triaged ones", callers == want_c, "found %s; triaged %s" % (callers, want_c))
        c.ob("C17.dep-asserts", "winnow", "debug_assert!/cfg(debug_assertions) sites are the triaged ones", dbg == want_d, "found %s; triaged %s (all pure assertions on internal invariants or in modules the crate does not use)" % (dbg, want_d))
        # the crate does not use winnow::binary
        uses_binary = [u for mod, us in facts.uses.items() for u in us if u["path"][:2] == ["winnow", "binary"]]
        c.ob("C17.dep-asserts", "crate", "winnow::binary is not used", not uses_binary, "imports from winnow::binary: %d" % len(uses_binary), nontrivial=False)
    # premises discharging ErrMode::assert: progress (shared with C03.progress) and ascending ranges
    nrep, bad = 0, []
    for fn in facts.nontest_fns():
        if fn.module[:1] != ("find_parser",) or fn.key in b.template_fns():
            continue
        try:
            fb = b.fn_ir(fn.key)
        except F.AnchorMissing:
            continue
        nodes = []
        g.walk(fb, lambda x: nodes.append(x) if x["t"] in ("rep", "reptill", "sep", "set", "until", "alt") else None, follow=False)
        for x in nodes:
            if x["t"] in ("rep", "reptill", "sep"):
                if b._input_name(fn) is None:
                    prm = []
                    g.walk(x["p"], lambda y: prm.append(y) if y["t"] == "param" else None, follow=False)
                    if prm:
                        continue  # a parser builder repeating its parameter: examined at its (expanded) uses
                nrep += 1
                if g.nullable(x["p"]):
                    bad.append("%s: nullable parser under %s" % (fn.key, x["t"]))
            if x["t"] in ("rep", "reptill", "sep", "set", "until") and x.get("max") is not None and x["min"] > x["max"]:
                bad.append("%s: descending range %s..%s" % (fn.key, x["min"], x["max"]))
            if x["t"] == "alt" and not x["alts"]:
                bad.append("%s: empty alt" % fn.key)
        builder_params = [n_ for n_, _ in fn.params if n_] if b._input_name(fn) is None else []
        for o in g.opaque_nodes(fb, follow=False):
            if builder_params and any(re.search(r"\b%s\b" % re.escape(pn_), o.get("src", "")) for pn_ in builder_params):
                continue  # a parser builder's use of its own parameter: examined where the builder is expanded with the actual argument
            if re.search(r"\b(repeat|separated|take_while|take_until|alt)\b", o.get("src", "")):
                bad.append("%s: unmodelled combinator use `%s`" % (fn.key, o.get("src", "")[:50]))
    c.ob("C17.dep-asserts", "find_parser", "winnow's profile-dependent assertion is unreachable", not bad, "; ".join(bad) if bad else "%d repetitions all make progress; all ranges ascending; no empty alt: ErrMode::assert (panic in debug, error in release) is never called" % nrep)
    c.floor("repetitions", nrep, 5)
    c.control("C17.cfg", bool(PROFILE_CFG.search("cfg(debug_assertions)")) and bool(PROFILE_CFG.search("cfg(not(debug_assertions))")) and bool(PROFILE_TXT.search("debug_assert!(x)")), "fixture attributes/macros are recognised")
