"""C19 — tree query helpers agree with the tree (structural induction over the enum definitions)."""
import json
import re
import os

from .. import facts as F
from .. import rx, treeq
from ..facts import src, psrc, find_all, norm_ty

UNITS = os.path.join(F.VERIF, "spec", "units.json")
FRAMES = os.path.join(F.VERIF, "spec", "frames.json")


def const_table(facts, fn):
    """Value of a unit helper per variant of its enum, by interpreting the function (helper methods, constants, tuple
    returns looked through): ({variant: int}, problems).  Every path must be selected by the variant of `self` alone and
    end in a constant."""
    from .. import emit

    enum = F.norm_ty(fn.impl["self_ty"]) if fn.impl is not None else None
    it = emit.Interp(facts)
    out, probs = {}, []
    try:
        res = it.run_fn(fn.key)
    except Exception as e:  # fail closed
        return None, ["could not be interpreted: %s" % e]
    for st, v in res:
        if st.unknown:
            probs.append("construct not understood: %s" % st.unknown[:2])
            continue
        variants, extra = [], []
        for subj, lab in st.conds:
            if subj == "self" and isinstance(lab, tuple):
                variants = [x.split("::")[-1] for x in lab]
            else:
                extra.append("%s=%s" % (subj, lab))
        if extra:
            probs.append("the value depends on more than the variant: %s" % extra[:2])
        if not variants:
            variants = list(facts.variants(enum)) if enum in facts.enums and not out else []
            if not variants:
                probs.append("a path is not selected by the variant of self")
        val = v.get("n") if isinstance(v, dict) and v.get("v") == "int" else None
        if val is None:
            probs.append("%s: value %s is not a constant" % ("|".join(variants), emit.canon(v)[:40] if isinstance(v, dict) else v))
        for vn in variants:
            if vn in out and out[vn] != val:
                probs.append("%s has two values" % vn)
            out.setdefault(vn, val)
    return out, probs


def byte_size_semantic(facts):
    """Size::byte_size, interpreted: on every path the value is (payload of self) × (the unit of that variant), where the unit
    is either the call self.mult() or the constant mult() yields for the variant.  -> (ok, detail)"""
    from .. import emit

    fb = facts.fn("Size::byte_size")
    mtab, mprobs = const_table(facts, facts.fn("Size::mult"))
    it = emit.Interp(facts)
    try:
        res = it.run_fn(fb.key)
    except Exception as e:
        return False, "could not be interpreted: %s" % e
    seen, bad = set(), []
    for st, v in res:
        if st.unknown:
            bad.append("not understood: %s" % st.unknown[:2])
            continue
        variants = []
        for subj, lab in st.conds:
            if subj == "self" and isinstance(lab, tuple):
                variants = [x.split("::")[-1] for x in lab]
        if not (isinstance(v, dict) and v.get("kind") == "expr" and v.get("op") == "*" and len(v.get("operands", [])) == 2):
            bad.append("value `%s` is not a product" % (emit.canon(v)[:60] if isinstance(v, dict) else v))
            continue
        ops = v["operands"]
        pay = [o for o in ops if isinstance(o, dict) and o.get("kind") == "payload" and o.get("enum") == "Size" and o.get("idx") == 0]
        other = [o for o in ops if o not in pay]
        if len(pay) != 1 or len(other) != 1:
            bad.append("`%s` does not multiply the count carried by self" % emit.canon(v)[:60])
            continue
        pv = [x.split("::")[-1] for x in (pay[0].get("variants") or [pay[0].get("variant")]) if x]
        vs = variants or pv or list(facts.variants("Size"))
        o = other[0]
        if isinstance(o, dict) and o.get("v") == "int":
            wrong = [vn for vn in vs if (mtab or {}).get(vn) != o["n"]]
            if wrong or mprobs:
                bad.append("unit %s used for %s differs from mult()" % (o["n"], wrong or vs))
                continue
        elif not (isinstance(o, dict) and o.get("kind") == "mcall" and o.get("method") == "mult" and emit.canon(o.get("recv")) == "self" and not o.get("args")):
            bad.append("`%s` is not the unit of the size" % (emit.canon(o)[:40] if isinstance(o, dict) else o))
            continue
        seen |= set(vs)
    missing = [vn for vn in facts.variants("Size") if vn not in seen]
    ok = not bad and not missing
    return ok, ("count × unit for %s" % sorted(seen)) if ok else "; ".join(bad + (["variants not covered: %s" % missing] if missing else []))


def units_rules(c, facts, rule):
    spec = json.load(open(UNITS))
    for key, enum, want in (("Size::mult", "Size", spec["size"]), ("TimeSpec::secs", "TimeSpec", spec["time"])):
        fn = facts.fn(key)
        tab, probs = const_table(facts, fn)
        if tab is None:
            c.ob(rule, key, "unit table", None, "; ".join(probs))
            continue
        for v in facts.variants(enum):
            c.ob(rule, key, v, tab.get(v) == want.get(v), "%s::%s → %s; reference %s" % (enum, v, tab.get(v), want.get(v)), witness="-size 1%s" % v if tab.get(v) != want.get(v) and enum == "Size" else None)
        c.ob(rule, key, "no wildcard / non-constant arm", not probs, "; ".join(probs) or "every variant has its own constant row")


def frames_leaf(facts, r, spec):
    """Compare the per-action values of complex_frames (evaluated by treeq.check_exists) with the statement. -> problems"""
    probs = []
    table = r.get("action") or {}
    if not table:
        return ["the value for an action node could not be evaluated"]
    for v in facts.variants("Action"):
        rows = table.get(v)
        if v not in spec["always"] and v not in spec["never"] and v not in spec["conditional"]:
            probs.append("action %s is not classified by the specification" % v)
            continue
        if not rows:
            probs.append("%s: no value" % v)
            continue
        for desc, val in rows:
            if v in spec["always"]:
                want = True
            elif v in spec["never"]:
                want = False
            else:
                want = desc == "ends in something else"
            if val is not want:
                probs.append("%s%s yields %s, must be %s" % (v, (" with some format that %s" % ("is empty" if desc == "empty" else desc)) if desc else "", val, str(want).lower()))
                break
    return probs


def run(c, facts, tier):
    c.trusted = ["E1 extractor", "rustc's match exhaustiveness (a missing variant does not compile)", "spec/units.json, spec/frames.json"]
    c.explanation = (
        "Fully structural: action() and complex_frames() are checked to be a correct recursive 'exists' by induction over the Operator enum definition "
        "(every sub-expression of every variant queried exactly once, joined by || only, nothing hidden behind a wildcard), the per-action table equals the statement, "
        "unit tables are constant-folded and compared with the reference, byte_size is count × mult() for every variant."
    )
    c.decided = ["contains-an-action", "needs-framed-output", "unit helpers", "byte size = count × unit"]
    c.not_decided = ["behaviour on overflow (excluded by 'whenever that fits')"]
    fspec = json.load(open(FRAMES))
    # C19.action
    fa = facts.fn("Expression::action")
    r = treeq.check_exists(facts, fa)
    c.ob("C19.action", fa.key, "recursive exists over every operator variant", r["ok"], "; ".join(r["problems"]) or "every Operator variant yields the disjunction of the recursive results on all its sub-expressions (every assignment evaluated); %s nodes yield false" % r["hidden"])
    act_vals = {a: [v_ for _, v_ in rows] for a, rows in (r.get("action") or {}).items()}
    leaf_ok = bool(act_vals) and all(all(v_ is True for v_ in vs) for vs in act_vals.values())
    c.ob("C19.action", fa.key, "an action node yields true", leaf_ok, "value for an action node, per action: %s" % ({a: sorted(set(map(str, vs))) for a, vs in act_vals.items() if not all(v_ is True for v_ in vs)} or "true for all %d actions" % len(act_vals)))
    if tier == "thorough":
        # engine cross-check: where the function is written as one `match self`, the older purely syntactic reading of the
        # recursion must agree with the evaluated one
        for fnx in (fa, facts.fn("Expression::complex_frames")):
            rs = treeq.check_exists_syntactic(facts, fnx)
            re_ = treeq.check_exists(facts, fnx)
            if rs["ok"] is not None:
                c.ob("C19.action" if fnx is fa else "C19.frames", fnx.key, "syntactic and evaluated readings of the recursion agree", bool(rs["ok"]) == bool(re_["ok"]), "syntactic reading: %s (%s); evaluated: %s (%s)" % (rs["ok"], "; ".join(rs["problems"])[:120] or "complete", re_["ok"], "; ".join(re_["problems"])[:120] or "complete"), nontrivial=False)
    # C19.frames
    ff = facts.fn("Expression::complex_frames")
    r2 = treeq.check_exists(facts, ff)
    c.ob("C19.frames", ff.key, "recursive exists over every operator variant", r2["ok"], "; ".join(r2["problems"]) or "every Operator variant yields the disjunction of the recursive results on all its sub-expressions; %s nodes yield false" % r2["hidden"])
    lp = frames_leaf(facts, r2, fspec)
    c.ob("C19.frames", ff.key, "per-action rule equals the statement", not lp, "; ".join(lp) or "file-writing ×4 and PrintNull → true; PrintFormatted → last element exists and is not Special(Newline); others → false")
    from .. import valuetraits as _vt

    eqp = _vt.eq_problems(facts)
    c.ob("C19.frames", "ast", "`==` on tree values is the derived, structural one", not eqp, "the helpers were evaluated with structural equality of tree values; hand-written equality: %s" % (eqp or "none"), nontrivial=False)
    # the method names the rules above read (`last`, `is_some_and`, ...) mean what they say only if they resolve to the
    # standard library: on the type-checked program, every call made from the two helpers goes either to std/core/alloc or
    # to a crate function the induction has accounted for
    from .. import mir as _mir

    m_ = _mir.load(True)
    for fnx, rr in ((fa, r), (ff, r2)):
        acc = set(rr.get("accounted") or [fnx.key])
        local = m_.data.get("crate")
        foreign = []
        nb = 0
        for pth, bd in m_.bodies.items():
            own = _mir.e1_key(pth, facts)
            if own not in acc:
                continue
            nb += 1
            for cl in bd["calls"]:
                tgt = cl["resolved"] or cl["callee"]
                if cl.get("crate") == local or tgt in m_.bodies:
                    k_ = _mir.e1_key(tgt, facts) or tgt
                    if k_ not in acc and not re.search(r"\{closure#\d+\}$", tgt):
                        foreign.append("%s (line %s)" % (k_, cl.get("line")))
        c.ob(
            "C19.frames" if fnx is ff else "C19.action",
            fnx.key,
            "method calls resolve to the standard library or to the recursion itself",
            nb >= 1 and not foreign,
            "%d bodies of the resolved program examined; calls into other crate functions: %s" % (nb, sorted(set(foreign)) or "none") + ("" if not foreign else " — a name the rule reads as a std method (e.g. `last`) is bound to crate code with its own meaning"),
            witness="-printf '%p\\n\\c'" if foreign else None,
        )
    # operator arity agrees with the enum (so 'every sub-expression' is well defined)
    for v in facts.enum("Operator")["variants"]:
        n = len(v["fields"])
        c.ob("C19.action", "Operator", "arity of %s" % v["name"], fspec["operator_arity"].get(v["name"]) == n and all(norm_ty(f["ty"]) == "Expression" for f in v["fields"]), "%s has %d Expression payload(s)" % (v["name"], n), nontrivial=False)
    # C19.units
    units_rules(c, facts, "C19.units")
    # C19.bytes
    fb = facts.fn("Size::byte_size")
    ok, det = byte_size_semantic(facts)
    c.ob("C19.bytes", fb.key, "count × mult() for every variant", ok, det)
    c.floor("Size+TimeSpec variants", len(facts.variants("Size")) + len(facts.variants("TimeSpec")), 11)
    # positive control: a disjunction with && is rejected by or_operands
    fx = {"k": "binary", "op": "&&", "lhs": {"k": "lit", "t": "bool", "v": True}, "rhs": {"k": "lit", "t": "bool", "v": True}}
    c.control("C19.action", len(treeq.or_operands(fx)) == 1, "fixture `a && b` is not accepted as a disjunction of recursive calls")
