"""C12 — unsupported constructs are refused, never silently dropped."""
import json
import os
import re

from .. import facts as F
from .. import codegen, emit, rx
from ..facts import src, psrc, find_all, norm_ty

SPEC = os.path.join(F.VERIF, "spec", "codegen.json")
PLACEHOLDER_WORDS = re.compile(r"unimplemented|todo|not.?implemented|placeholder|fixme|unsupported|tbd|xxx", re.I)

# which error constructor each construct family must use
FAMILY = {
    "<Test as TargetScheme>::compile": ("Test", "CompileError::UnsupportedTest"),
    "<Action as TargetScheme>::compile": ("Action", "CompileError::UnsupportedAction"),
    "scheme::target_scheme::placeholder": ("FormatField", "CompileError::UnsupportedFormat"),
    "scheme::target_scheme::snippet": ("FormatField", "CompileError::UnsupportedFormat"),
    "<PositionalOption as TargetScheme>::compile": ("PositionalOption", "CompileError::UnsupportedOption"),
    "scheme::target_scheme::literal": ("FormatSpecial", "CompileError::UnsupportedFormat"),
}
# supported/unsupported partition (LiPE capabilities as documented by the comments in target_scheme.rs; frozen after reading)
UNSUPPORTED = {
    "Test": ["AccessNewer", "ChangeNewer", "FsType", "Group", "InsensitiveLinkName", "InsensitiveRegex", "LinkName", "ModifyNewer", "NoGroup", "NoUser", "Regex", "Samefile", "User"],
    "Action": ["Prune", "List", "FileList"],
    "FormatField": ["Depth", "DeviceNumber", "FsType", "SymbolicTarget", "PermissionsSymbolic", "TypeSymlink", "SecurityContext"],
    "PositionalOption": ["XDev"],
    "FormatSpecial": ["Clear"],
}


def variant_outcomes(rows, enum, first_subject):
    """{variant: set(outcome kinds)} from expanded rows."""
    out = {}
    for key, row in codegen.expand(rows).items():
        m = re.match(r"^(\S+)∈%s::(\w+)" % enum, key)
        if m:
            out.setdefault(m.group(2), []).append((key, row))
        elif re.match(r"^(\S+)∈_", key) or key == "":
            out.setdefault("_", []).append((key, row))
    return out


def run(c, facts, tier):
    c.trusted = ["E1 extractor", "emission interpreter", "supported/unsupported partition frozen from the reviewed tree (comments in target_scheme.rs name the LiPE limitations)"]
    c.explanation = (
        "For Test, Action, FormatField and PositionalOption every variant is shown to be in exactly one of two classes: an arm that emits text and returns Ok, or an arm whose only effect is "
        "returning the family's Unsupported* error carrying the Debug rendering of the construct. Sibling tables (placeholder/snippet) partition identically, every CResult-returning call is "
        "propagated with `?`, both operands of every operator are compiled on every non-error path, and no arm emits a placeholder or depends on the build profile."
    )
    from .. import report as _rep

    _rep.require(c, facts, "c02", "C12.partition", "<Vec<FormatElement> as TargetScheme>::compile", "the format compiler has exactly the reviewed paths", lambda o: o["rule"] in ("C02.fmt", "C02.fmt-arity", "C02.elements") and "FormatElement" in str(o["site"]), "that an unsupported format element is refused is read off the element tables of the format compiler; a path of that function the tables do not know (a cache hit that returns before the refusing pass) is reported by C02.fmt")
    _rep.require(c, facts, "c05", "C12.partition", "parse", "an unsupported keyword is parsed into its own node", lambda o: o["rule"] == "C05.vocab", "a construct can only be refused by the compiler if the parser builds the node that stands for it (`-ilname` read as `-iname` is compiled without complaint): keyword → variant is decided by C05.vocab")
    _rep.require(c, facts, "c14", "C12.partition", "parse", "an unsupported format directive is parsed into its own element", lambda o: o["rule"] in ("C14.literals", "C14.fields", "C14.escapes", "C14.unknown", "C14.octal"), "an unsupported `%` directive or escape can only be refused if the format string is segmented as documented (not swallowed by a literal run): decided by the C14 rules")
    _rep.require(c, facts, "c06", "C12.partition", "parse", "an unsupported primary written in the text reaches the tree", lambda o: o["rule"] in ("C06.quoting", "C06.api", "C06.blank-set"), "a primary can only be refused if it is not swallowed by the argument before it: decided by the C06 rules on word boundaries and the glue")
    c.decided = ["fails exactly when an unsupported construct occurs at any depth", "error names the construct", "nothing omitted / replaced by a constant / left as a placeholder", "supported-only expressions compile"]
    tabs = {k: codegen.table(facts, k) for k in FAMILY}
    total = 0
    for key, (enum, errctor) in FAMILY.items():
        vo = variant_outcomes(tabs[key], enum, None)
        allv = facts.variants(enum)
        if "_" in vo:
            # wildcard rows apply to every variant without its own row
            for v in allv:
                vo.setdefault(v, vo["_"])
        for v in allv:
            total += 1
            rows = vo.get(v)
            if not rows:
                c.ob("C12.partition", key, v, None, "no row for %s::%s" % (enum, v))
                continue
            kinds = set()
            for rk, row in rows:
                o = row["outcome"]
                if o.startswith("err:"):
                    kinds.add("refused" if o == "err:" + errctor and not row["tokens"] else "bad-refusal:" + o)
                elif o.startswith("panic"):
                    kinds.add("panics")
                elif o.startswith("ok") or o.startswith("ret") or o == "sub":
                    kinds.add("emits")
            want = "refused" if v in UNSUPPORTED[enum] else "emits"
            ok = kinds == {want}
            c.ob(
                "C12.partition",
                key,
                "%s::%s" % (enum, v),
                ok,
                "%s::%s is %s; specification: %s%s" % (enum, v, "/".join(sorted(kinds)), want, "" if ok else " — an unsupported construct must return %s, a supported one must emit code on every path" % errctor),
                witness=None,
            )
            # profile independence of each row
            prof = [rk for rk, row in rows if "attrs" in rk or "cfg(" in rk]
    # profile-dependent arms (cfg on match arms) and placeholder constants
    for key in list(FAMILY) + ["<Operator as TargetScheme>::compile", "<Expression as TargetScheme>::compile", "<Vec<FormatElement> as TargetScheme>::compile"]:
        fn = facts.fn(key)
        cfg_arms = [a for m in find_all(fn.body, lambda n: n.get("k") == "match") for a in m["arms"] if any("cfg" in x for x in a.get("attrs", []))]
        c.ob("C12.no-placeholder", key, "no profile-dependent arm", not cfg_arms, "arms under cfg: %s" % [(psrc(a["pat"]), a["attrs"]) for a in cfg_arms] if cfg_arms else "none", witness="nope" if cfg_arms and "Positional" in key else None)
        rows = tabs.get(key) or codegen.table(facts, key)
        bad = []
        for r in rows:
            txt = " ".join(r["tokens"]) + " " + (r["outcome"] if r["outcome"].startswith(("ok:", "ret:")) else "")
            if PLACEHOLDER_WORDS.search(txt):
                bad.append(txt.strip()[:60])
            if r["outcome"].startswith("panic:todo") or r["outcome"].startswith("panic:unimplemented"):
                bad.append(r["outcome"])
        c.ob("C12.no-placeholder", key, "no placeholder text or todo!()", not bad, "placeholder output: %s" % bad if bad else "none", witness="nope" if bad and "Positional" in key else None)
    # the error carries the Debug rendering of the construct
    for key, (enum, errctor) in FAMILY.items():
        fn = facts.fn(key)
        errs = find_all(fn.body, lambda n: n.get("k") == "call" and n["f"]["k"] == "path" and "::".join(n["f"]["segs"][-2:]) == errctor)
        for e in errs:
            a = e["args"][0] if e["args"] else None
            ok = a is not None and a["k"] == "macro" and a["name"] == "format" and a["args"] and a["args"][0]["k"] == "lit" and re.fullmatch(r"\{(self|\w+):\??#?\??\}|\{:\?\}", a["args"][0]["v"]) is not None
            c.ob("C12.partition", key, "error names the construct", ok, "%s(%s)" % (errctor, src(a) if a else ""), nontrivial=False)
        if enum in UNSUPPORTED and UNSUPPORTED[enum] and not errs and key != "<PositionalOption as TargetScheme>::compile":
            # not written in the function itself (a constructor helper): what the refusing paths return, as the interpreter
            # computed it, must be the family's error applied to the Debug rendering of the construct
            erows = [r_ for r_ in (tabs.get(key) or codegen.table(facts, key)) if r_["outcome"].startswith("err:")]
            pay = []
            for r_ in erows:
                x_ = r_["st"].ret.get("x") if isinstance(r_["st"].ret, dict) else None
                pay.append(emit.canon(x_) if isinstance(x_, dict) else "?")
            okp = bool(erows) and all(re.fullmatch(re.escape(errctor) + r'\("\{\{:\??#?\?\}\((self|@\d+|\$[\w:|.]+)\)\}"\)', p_) for p_ in pay)
            c.ob("C12.partition", key, "error names the construct", okp, "refusing paths return %s" % sorted(set(pay))[:3] if erows else "no %s(..) constructed in %s" % (errctor, key), nontrivial=False)
    # the Debug rendering that names the construct: derived (variant name), or hand-written and injective
    for enum in sorted({e for e, _ in FAMILY.values()}):
        d_ = facts.enums.get(enum)
        if d_ is None:
            continue
        manual = [(p_, i) for p_, _, i in facts.impls if norm_ty(i["self_ty"]).split("<")[0] == enum and i["trait"] and norm_ty(i["trait"]).split("::")[-1] == "Debug"]
        if "Debug" in facts.derives(d_) and not manual:
            c.ob("C12.partition", enum, "the name shown in the error identifies the construct", True, "Debug is derived: the error shows the variant name", nontrivial=False)
            continue
        ok, det = None, "Debug of %s is neither derived nor a recognisable hand-written impl" % enum
        if len(manual) == 1:
            fm = [m_ for m_ in manual[0][1]["items"] if m_["k"] == "fn" and m_["name"] == "fmt"]
            mt = find_all(fm[0]["body"], lambda n: n.get("k") == "match" and rx.is_var(n["scrut"], "self")) if fm else []
            if len(mt) == 1:
                shown = {}
                undecided = []
                for arm in mt[0]["arms"]:
                    lits = [n["v"] for n in find_all(arm["body"], lambda n: n.get("k") == "lit" and n.get("t") == "str")]
                    for p_ in rx.pat_cases(arm["pat"]):
                        pv = rx.pat_variant(p_)
                        if not pv or len(lits) != 1:
                            undecided.append(psrc(p_))
                            continue
                        shown.setdefault(lits[0], []).append(pv[0].split("::")[-1])
                clash = {t: vs for t, vs in shown.items() if len(vs) > 1}
                covered = {v for vs in shown.values() for v in vs}
                missing = [v for v in facts.variants(enum) if v not in covered]
                ok = not clash and not undecided and not missing
                det = "hand-written Debug for %s: %d variants rendered; same text for several variants: %s; arms not understood: %s; variants without an arm: %s" % (enum, len(covered), clash or "none", undecided or "none", missing or "none")
        c.ob("C12.partition", enum, "the name shown in the error identifies the construct", ok, det, witness=("-printf '%%Y'" if enum == "FormatField" else None) if not ok else None)
    # C12.siblings
    pv = variant_outcomes(tabs["scheme::target_scheme::placeholder"], "FormatField", None)
    sv = variant_outcomes(tabs["scheme::target_scheme::snippet"], "FormatField", None)
    for v in facts.variants("FormatField"):
        pk = {("err" if r["outcome"].startswith("err") else "ok") for _, r in pv.get(v, [])}
        sk = {("err" if r["outcome"].startswith("err") else "ok") for _, r in sv.get(v, [])}
        c.ob("C12.siblings", "placeholder/snippet", v, pk == sk and len(pk) == 1, "placeholder: %s, snippet: %s" % (sorted(pk), sorted(sk)), nontrivial=False)
    # C12.propagate: every call returning CResult is consumed by `?` / returned / matched
    cres_fns = {fn.name for fn in facts.nontest_fns() if norm_ty(fn.node["output"]).startswith("CResult")}
    nprop = 0
    for fn in facts.nontest_fns():
        if fn.module[:1] != ("scheme",):
            continue
        parents = {}

        def index(n, parent=None):
            if isinstance(n, dict):
                parents[id(n)] = parent
                for v in n.values():
                    index(v, n)
            elif isinstance(n, list):
                for v in n:
                    index(v, parent)

        index(fn.body)
        calls = find_all(fn.body, lambda n: (n.get("k") == "mcall" and n["m"] in cres_fns and n["m"] == "compile") or (n.get("k") == "call" and n["f"]["k"] == "path" and n["f"]["segs"][-1] in cres_fns and n["f"]["segs"][-1] != "compile"))
        for cl in calls:
            nprop += 1
            par = parents.get(id(cl))
            name = cl["m"] if cl["k"] == "mcall" else cl["f"]["segs"][-1]
            how = None
            # walk up through value-transparent contexts (.map(..), match arm bodies, block tails) to the consumer
            node, up = cl, par
            while up is not None:
                k_ = up.get("k")
                if k_ == "mcall" and up.get("recv") is node and up["m"] in ("map", "map_err"):
                    node, up = up, parents.get(id(up))
                elif k_ is None and "pat" in up and up.get("body") is node:  # match arm
                    node, up = up, parents.get(id(up))
                elif k_ == "match" and any(a is node for a in up["arms"]):
                    node, up = up, parents.get(id(up))
                elif k_ == "expr" and not up.get("semi") and up.get("e") is node:
                    node, up = up, parents.get(id(up))
                elif k_ == "block" and up["stmts"] and up["stmts"][-1] is node:
                    node, up = up, parents.get(id(up))
                else:
                    break
            if up is None or (up.get("k") == "fn"):
                how = "tail"
            elif up.get("k") == "try":
                how = "?"
            elif up.get("k") == "closure":
                how = "closure-result"
            elif up.get("k") == "mcall" and up["m"] in ("unwrap_or_else", "unwrap_or", "ok", "unwrap_or_default", "is_ok", "is_err", "unwrap", "expect") and up.get("recv") is node:
                how = "swallowed:" + up["m"]
            elif up.get("k") == "match" and up.get("scrut") is node:
                # `match call(..) { Ok(..) => .., Err(e) => <no return, no ?> }`: the error ends in the Err arm
                errs = [a_ for a_ in up["arms"] if any(pc_.get("k") == "tstruct" and pc_["segs"][-1] == "Err" for pc_ in rx.pat_cases(a_["pat"]))]
                passes = [a_ for a_ in errs if find_all(a_["body"], lambda n_: n_.get("k") in ("return", "try")) or (rx.peel(a_["body"]).get("k") == "call" and rx.path_str(rx.peel(a_["body"])["f"]) == "Err")]
                if errs and not passes:
                    how = "swallowed:match"
                elif errs and len(passes) == len(errs):
                    how = "tail-of-match" if parents.get(id(up)) is None or parents.get(id(up), {}).get("k") in (None, "fn") else "?"
            elif up.get("k") == "let" and up["pat"]["k"] == "wild":
                how = "discarded:let _"
            elif up.get("k") == "expr" and up.get("semi"):
                how = "discarded:statement"
            elif up.get("k") == "return":
                how = "tail"
            if how in ("?", "tail", "tail-of-match"):
                c.ob("C12.propagate", fn.key, "%s(..) [%s]" % (name, src(cl)[:50]), True, "result consumed by %s" % how, nontrivial=False)
            elif how == "closure-result":
                # the closure must be the argument of an iterator adaptor whose collect targets CResult and is followed by ?
                top = up
                while top is not None and top.get("k") != "try" and parents.get(id(top)) is not None and (parents.get(id(top)).get("k") in ("mcall", "closure", "match", "block", "expr") or "pat" in parents.get(id(top))):
                    top = parents.get(id(top))
                collected = find_all(top, lambda n: n.get("k") == "mcall" and n["m"] == "collect" and any("CResult" in t or "Result" in t for t in n.get("targs", []))) if top else []
                tried = top is not None and (top.get("k") == "try" or parents.get(id(top)) is not None and parents.get(id(top)).get("k") == "try")
                inside_swallow = False
                q = up
                while q is not None:
                    if q.get("k") == "mcall" and q["m"] in ("filter_map",):
                        inside_swallow = True
                    q = parents.get(id(q))
                # the closure handed to a short-circuiting adaptor whose own result is then passed on
                sc_ = parents.get(id(up))
                sc_ok = False
                if sc_ is not None and sc_.get("k") == "mcall" and sc_["m"] in ("try_for_each", "try_fold") and any(a_ is up for a_ in sc_["args"]):
                    cons = parents.get(id(sc_))
                    node_ = sc_
                    while cons is not None and ((cons.get("k") == "expr" and not cons.get("semi") and cons.get("e") is node_) or (cons.get("k") == "block" and cons["stmts"] and cons["stmts"][-1] is node_)):
                        node_, cons = cons, parents.get(id(cons))
                    sc_ok = cons is None or cons.get("k") in ("try", "fn", "return")
                if sc_ok and not inside_swallow:
                    c.ob("C12.propagate", fn.key, "%s(..) [%s]" % (name, src(cl)[:50]), True, "the first error stops %s(..) and is passed on" % sc_["m"], nontrivial=False)
                elif collected and not inside_swallow:
                    c.ob("C12.propagate", fn.key, "%s(..) [%s]" % (name, src(cl)[:50]), True, "errors collected into CResult<Vec<_>> and propagated with ?", nontrivial=False)
                else:
                    c.ob("C12.propagate", fn.key, "%s(..) [%s]" % (name, src(cl)[:50]), None, "result produced inside a closure whose consumer was not recognised")
            elif how and how.startswith("swallowed"):
                # accepted only for snippet(..) when the same elements already passed placeholder(..)? and the sibling tables agree
                prem1 = name == facts.fn("scheme::target_scheme::snippet").name and bool(find_all(fn.body, lambda n: n.get("k") == "try" and find_all(n, lambda m: m.get("k") == "call" and m["f"]["k"] == "path" and m["f"]["segs"][-1] == facts.fn("scheme::target_scheme::placeholder").name)))
                # order: the placeholder pass precedes the snippet pass
                lp = min([n["l"] for n in find_all(fn.body, lambda m: m.get("k") == "call" and m["f"]["k"] == "path" and m["f"]["segs"][-1] == facts.fn("scheme::target_scheme::placeholder").name)] or [10**9])
                prem2 = all(
                    {("err" if r["outcome"].startswith("err") else "ok") for _, r in pv.get(v, [])} == {("err" if r["outcome"].startswith("err") else "ok") for _, r in sv.get(v, [])} for v in facts.variants("FormatField")
                )
                ok = prem1 and prem2 and lp < cl["l"]
                if not ok and prem2 and name == facts.fn("scheme::target_scheme::snippet").name:
                    # the swallowing loop sits in a helper: every caller of the helper must have run, earlier and with `?`,
                    # a placeholder pass over the very collection it hands to the helper
                    phname = facts.fn("scheme::target_scheme::placeholder").name
                    has_ph_try = lambda body: bool(find_all(body, lambda n: n.get("k") == "try" and find_all(n, lambda m: m.get("k") == "call" and m["f"]["k"] == "path" and m["f"]["segs"][-1] == phname)))
                    guards = {g_.name for g_ in facts.fns.values() if not g_.test and g_.body is not None and has_ph_try(g_.body) and "Result" in (g_.node.get("output") or "")}
                    sites = []
                    for f2 in facts.fns.values():
                        if f2.test or f2.body is None or f2 is fn:
                            continue
                        for c2 in find_all(f2.body, lambda n: n.get("k") == "call" and n["f"]["k"] == "path" and n["f"]["segs"][-1] == fn.name and len(n["args"]) >= 1):
                            arg = src(rx.peel(c2["args"][0]))
                            pre = [t_ for t_ in find_all(f2.body, lambda n: n.get("k") == "try") if t_["l"] <= c2["l"] and t_ is not c2 and (find_all(t_, lambda m: m.get("k") == "call" and m["f"]["k"] == "path" and m["f"]["segs"][-1] == phname) or find_all(t_, lambda m: m.get("k") == "call" and m["f"]["k"] == "path" and m["f"]["segs"][-1] in guards and m["args"] and src(rx.peel(m["args"][0])) == arg and m is not c2))]
                            # the guard has to stand before the call in evaluation order: an earlier statement of the same block
                            sites.append((f2.key, bool(pre) and not any(find_all(t_, lambda m: m is c2) for t_ in pre)))
                    if sites and all(ok_ for _, ok_ in sites) and fn.impl is None and fn.node.get("vis") != "pub":
                        ok = True
                        how += "; every caller (%s) first runs the placeholder pass over the same collection with `?`" % ", ".join(sorted({k_ for k_, _ in sites}))
                c.ob("C12.propagate", fn.key, "%s(..) [%s]" % (name, src(cl)[:50]), ok, "error swallowed by %s; accepted only because the same elements already passed placeholder(..)? (%s) and placeholder/snippet refuse exactly the same fields (%s)" % (how, prem1 and lp < cl["l"], prem2))
            else:
                c.ob("C12.propagate", fn.key, "%s(..) [%s]" % (name, src(cl)[:50]), False, "result is %s: an Unsupported* error from below would be lost and the construct silently dropped" % (how or "not propagated"), witness="-true -o -regex x" if name == "compile" else None)
    c.floor("CResult call sites", nprop, 6)
    # C12.early: in operator arms both children are compiled on every ok path
    orows = codegen.expand(codegen.table(facts, "<Operator as TargetScheme>::compile"))
    for key, row in sorted(orows.items()):
        m = re.match(r"self∈Operator::(\w+)", key)
        if not m or not row["outcome"].startswith("ok"):
            continue
        v = m.group(1)
        ar = len(facts.variant_fields("Operator", v))
        subs = [t for t in row["tokens"] if t.startswith("{sub ")]
        c.ob("C12.early", "<Operator as TargetScheme>::compile", v, len(subs) == ar and len(set(subs)) == ar, "%s compiles %s (arity %d): an unsupported construct in any operand, even a dead branch, is reached" % (v, subs, ar))
    erows = codegen.expand(codegen.table(facts, "<Expression as TargetScheme>::compile"))
    for key, row in sorted(erows.items()):
        m = re.match(r"self∈Expression::(\w+)", key)
        if m and not row["outcome"].startswith("panic"):
            c.ob("C12.early", "<Expression as TargetScheme>::compile", m.group(1), row["outcome"] == "sub" and len(row["tokens"]) == 1, "Expression::%s delegates to its payload's compile and returns its result (%s)" % (m.group(1), row["outcome"]), nontrivial=False)
    # C12.early (top): what compile() hands to the code generator is the whole input expression — itself, or wrapped with
    # the implicit print — never a simplified, folded or filtered copy from which an unsupported construct could be missing
    from .. import toplevel, emit as _emit

    T = toplevel.summary(facts)
    WRAP = "Expression::Operator(Operator::And(@0,Expression::Action(Action::DefaultPrint)))"
    tg = set()
    for p_ in T["paths"]:
        for c_ in p_["calls"]:
            if c_["method"] == "compile":
                tg.add(_emit.canon(c_["recv"]))
    unk = sorted({u for p_ in T["paths"] for u in p_["unknown"]})
    c.ob(
        "C12.early",
        "compile",
        "the expression compiled is the whole input (possibly wrapped with the implicit print)",
        bool(tg) and tg <= {"@0", WRAP} and not unk,
        "compile() hands %s to the code generator%s; anything else (a folded, simplified or filtered tree) may have lost the unsupported construct the user wrote" % (sorted(tg), ("; constructs not understood: %s" % unk[:2]) if unk else ""),
        witness="-false -a -nouser" if not (tg <= {"@0", WRAP}) else None,
    )
    c.floor("variants partitioned", total, 38 + 12 + 37 + 37 + 1 + 11)
    c.control("C12.no-placeholder", bool(PLACEHOLDER_WORDS.search("( UNIMPLEMENTED )")), "fixture `(UNIMPLEMENTED)` is recognised as placeholder text")
