"""C07 — numbers are exact or rejected: range-checked decimal conversion, no narrowing cast, no unchecked or lossy
arithmetic on user numbers, plain Display into the emitted text."""
import re

from .. import facts as F
from .. import mir, peg, rx, kw, codegen, emit, args as A
from ..anchors import Anchors
from ..facts import src, find_all, norm_ty
from . import c03

LOSSY = re.compile(r"::(wrapping_|saturating_|overflowing_|unchecked_)(add|sub|mul|neg|shl|shr|pow|div|rem|abs)\b|::(unwrap_or|unwrap_or_default|unwrap_or_else)$")
WIDTH = {"u8": 8, "u16": 16, "u32": 32, "u64": 64, "u128": 128, "usize": 64, "i8": 8, "i16": 16, "i32": 32, "i64": 64, "i128": 128, "isize": 64, "char": 32}


def _newtype_step(facts, f):
    """+1 if `f` wraps its argument into a one-field tuple struct of the crate, -1 if it takes the field out again, else 0."""
    f0 = rx.peel(f)
    if f0.get("k") == "path":
        segs = f0["segs"]
        sd = facts.structs.get(segs[-1])
        if sd is not None and len(sd.get("fields") or []) == 1 and sd.get("tuple", True) and not (sd["fields"][0].get("name") or "").isidentifier():
            return 1
        if len(segs) >= 2 and segs[-2] in facts.structs:
            fn = facts.fns.get("%s::%s" % (segs[-2], segs[-1]))
            if fn is None:
                cand = [f_ for f_ in facts.fns.values() if not f_.test and f_.name == segs[-1] and f_.impl is not None and not f_.impl.get("trait") and norm_ty(f_.impl["self_ty"]).split("<")[0] == segs[-2]]
                fn = cand[0] if len(cand) == 1 else None
            sd = facts.structs[segs[-2]]
            if fn is not None and len(sd.get("fields") or []) == 1 and fn.node.get("self") in ("self", "&self") and fn.body is not None:
                st_ = [x for x in fn.body.get("stmts", []) if x.get("k") != "item"]
                if len(st_) == 1 and st_[0].get("k") == "expr":
                    e_ = rx.peel(st_[0]["e"])
                    if e_.get("k") == "field" and rx.is_var(e_["e"], "self") and str(e_.get("name")) in ("0", sd["fields"][0].get("name")):
                        return -1
        return 0
    if f0.get("k") == "closure":
        ps = rx.closure_params(f0)
        bd = rx.peel(rx.closure_body(f0))
        if len(ps) == 1 and bd.get("k") == "field" and rx.is_var(bd["e"], ps[0].get("name")) and str(bd.get("name")) == "0":
            return -1
        if len(ps) == 1 and bd.get("k") == "call" and bd["f"].get("k") == "path" and len(bd["args"]) == 1 and rx.is_var(bd["args"][0], ps[0].get("name")):
            return _newtype_step(facts, bd["f"]) if _newtype_step(facts, bd["f"]) == 1 else 0
    return 0


def run(c, facts, tier):
    b = peg.Builder(facts)
    g = peg.Grammar(b)
    an = Anchors(facts, b)
    c.trusted = ["E1 combinator IR", "E2 MIR facts (resolved callees, casts, overflow asserts)", "str::parse::<uN>() is exact and range-checked (std)"]
    c.explanation = (
        "The numeric path is enumerated completely and every operation on it is shown to be lossless: digit runs are converted by str::parse::<T> with T the type of the AST field, inside try_map (the range error "
        "is propagated, decimal only); no int→int narrowing cast exists in the crate; every arithmetic site that touches a user number is either constant, guarded by a dominating range check, or reported; explicitly "
        "lossy arithmetic (wrapping_/saturating_/…) is forbidden; numbers reach the emitted text through plain `{}`/to_string()."
    )
    c.decided = ["decimal, range-checked conversion", "value carried unchanged into tree and text", "count × unit exact or rejected (given the arithmetic rule)", "out-of-range never appears as a different number"]
    from .. import report as _rep

    _rep.require(c, facts, "c13", "C07.convert", "-threads", "the thread count read reaches the returned options and the scan call", lambda o: o["rule"] in ("C13.leading", "C13.misplaced", "C13.last-wins", "C13.threads", "C13.total") and "-threads" not in o["instance"], "how the parsed thread count is carried into the options object and the emitted text is decided by the C13 rules")
    # ---------------------------------------------------------------- C07.convert
    n = 0
    for key, fn in sorted(facts.fns.items()):
        m = re.match(r"<(u8|u16|u32|u64|u128|usize|i32|i64) as Parseable>::parse$", key)
        if not m or fn.test:
            continue
        n += 1
        ty = m.group(1)
        body = A.single_body(b.fn_ir(key))
        ts = {}
        hops = 0
        wraps = 0
        while body is not None and body["t"] in ("ref", "map", "ctx") and hops < 8:
            if body["t"] == "ctx":
                body = body["p"]
                continue
            if body["t"] == "map":
                # a one-field wrapper type put around the number or taken off again (`.map(Decimal)`, `.map(|d| d.0)`,
                # `.map(Decimal::into_inner)`): the number is the same; as many must come off as go on
                w_ = _newtype_step(facts, body["f"])
                if w_ == 0:
                    break
                wraps += w_
                body = A.unwrap(body["p"])
                hops += 1
                continue
            # forwarding to a (generic) helper: `unsigned::<u32>(input)`
            ts = dict(body.get("targs") or {}) or ts
            body = A.single_body(g.deref(body))
            hops += 1
        ok = False
        det = "shape not recognised: %s" % (peg.show(body) if body else "?")
        if body is not None and body["t"] == "trymap":
            st = A.unwrap(body["p"])
            f = body["f"]
            parses = find_all(f, lambda x: x.get("k") == "mcall" and x["m"] == "parse")
            targ = [ts.get(x, x) for x in (parses[0]["targs"] if parses else [])]
            onparam = bool(parses) and f["k"] == "closure" and rx.is_var(parses[0]["recv"], rx.closure_params(f)[0].get("name"))
            plain = f["k"] == "closure" and rx.closure_body(f) is parses[0] if parses else False
            f0 = rx.peel(f)
            if not parses and f0.get("k") == "path" and f0["segs"][-2:] == ["str", "parse"]:
                # the conversion named as a function: `.try_map(str::parse::<T>)`
                targ = [ts.get(x, x) for x in (f0.get("gen") or [[]])[-1]]
                onparam = plain = True
            elif not parses and f0.get("k") == "path" and f0["segs"][-1] == "from_str" and len(f0["segs"]) >= 2:
                # `.try_map(T::from_str)` / `<T as FromStr>::from_str`
                t0 = f0["segs"][-2] if f0["segs"][-2] != "FromStr" else (f0.get("qself") or "")
                targ = [ts.get(t0, t0)]
                onparam = plain = True
            ok = st["t"] == "set" and st["cs"] == peg.cs_in("0123456789") and st["min"] >= 1 and st["max"] is None and targ == [ty] and onparam and plain and wraps == 0
            det = "digit1.try_map(|s| s.parse::<%s>()) — digits %s, target type %s (field type %s), error propagated by try_map: %s" % (",".join(targ), peg.cs_show(st["cs"]) if st["t"] == "set" else "?", targ, ty, plain)
        elif body is not None:
            bad = "map" if body["t"] == "map" else body["t"]
            det = "conversion is wrapped by `%s`, not try_map: a range error cannot be reported (%s)" % (bad, peg.show(body)[:80])
        c.ob("C07.convert", key, "digit run → %s by range-checked parse" % ty, ok, det, witness="-uid 4294967296" if not ok and ty == "u32" else ("-links 18446744073709551616" if not ok else None))
    c.floor("integer parsers", n, 2)
    # the AST's numeric fields are exactly the types of those parsers
    al = {k: norm_ty(v["ty"]) for k, v in facts.types.items()}
    tokfn = an.role("token")
    scope = b.scope(facts.fn(tokfn).module)
    nnum = 0
    for a in kw.alternatives(g, tokfn):
        ctor = kw.ctor_of_transform(a, scope)
        if not ctor or a.lit is None or ctor.startswith("Token::"):
            continue
        kept = [x for x in kw.flatten_rest(g, a.rest) if x["keep"]]
        for i, x in enumerate(kept):
            sem = A.arg_sem(g, x["n"], scope)
            m = re.match(r"^(?:cmp\()?(u32|u64)\)?$", sem)
            if not m:
                continue
            nnum += 1
            enum, var = ctor.split("::")
            fty = facts.variant_fields(enum, var)[i] if i < len(facts.variant_fields(enum, var)) else None
            fty_n = re.sub(r"^Comparison<(.*)>$", r"\1", fty or "")
            fty_n = al.get(fty_n, fty_n)
            c.ob("C07.convert", a.site, "%s stores a %s" % (a.lit, m.group(1)), fty_n == m.group(1), "argument parsed as %s, field type %s" % (m.group(1), fty), nontrivial=False)
    c.floor("numeric keyword arguments", nnum, 7)
    # count of sizes / times: the count parser is the u64 parser and the payload is SizeType = u64
    for ty in ("Size", "TimeSpec"):
        e = facts.enum(ty)
        ftys = {al.get(norm_ty(f["ty"]), norm_ty(f["ty"])) for v in e["variants"] for f in v["fields"]}
        key = [k for k in facts.fns if re.match(r"<%s as (Default)?Parseable(<.*>)?>::parse$" % ty, k)]
        refs = []
        if key:
            g.walk(b.fn_ir(key[0]), lambda x: refs.append(x["fn"]) if x["t"] == "ref" else None, follow=True)
        c.ob("C07.convert", key[0] if key else ty, "%s count is parsed by the u64 parser into a u64 field" % ty, ftys == {"u64"} and "<u64 as Parseable>::parse" in refs and not [r for r in refs if re.match(r"<(u8|u16|u32|i\d+) as Parseable>", r)], "payload types %s; number parsers used: %s" % (sorted(ftys), sorted(set(r for r in refs if "Parseable" in r))))
    # ---------------------------------------------------------------- E2: casts, lossy calls, arithmetic
    m = mir.load(True)
    D0 = c03.Discharger(c, facts, b, g, an, m)
    ncast = 0
    for p, bd in sorted(m.bodies.items()):
        fn = mir.e1_key(p, facts)
        for ca in bd["casts"]:
            if any("bitflags" in x for x in ca["macros"]) or fn is None:
                continue
            ncast += 1
            wf, wt = WIDTH.get(ca["from"]), WIDTH.get(ca["to"])
            if wf is None or wt is None:
                c.ob("C07.no-narrowing", fn, "%s as %s" % (ca["from"], ca["to"]), None, "cast between types of unknown width")
                continue
            if ca["from"] == "char":
                # only on the constant record terminators
                consts = all(n_.get("t") == "char" and ord(n_["v"]) < 256 for f2 in facts.nontest_fns() for cl in find_all(f2.body, lambda x: x.get("k") == "mcall" and x["m"] in ("get_printer", "get_file_printer")) for some in find_all(cl["args"], lambda x: x.get("k") == "call" and rx.path_str(x["f"]) == "Some") for n_ in some["args"])
                # the cast sits in the terminator rendering: the helper of that role, or — when the rendering was folded into
                # a Display impl or a method of a private type — any function of the managers' module (the only characters
                # that module handles are terminators; patterns and file names are strings)
                try:
                    in_role = fn == facts.fn("scheme::manager::terminator_escape").key
                except F.AnchorMissing:
                    in_role = False
                mgr_mod = tuple(facts.fn(codegen.mgr_key(facts, codegen.MANAGERS[0], "get_printer")).module)
                ok = (in_role or (fn in facts.fns and tuple(facts.fns[fn].module) == mgr_mod)) and consts
                c.ob("C07.no-narrowing", fn, "char as %s" % ca["to"], ok, "character → byte cast on the record terminator; every terminator passed by the code generator is a literal character < 256: %s (not a user number)" % consts, nontrivial=False)
                continue
            # a literal constant converted to a type that holds it (e.g. the shift amount of `1 << 20`, which rustc's overflow check
            # converts with `20_i32 as u32`) is not a user number and changes no value
            mc = re.match(r"^const (-?\d+)_[iu](?:8|16|32|64|128|size)$", ca.get("operand") or "")
            if mc:
                val = int(mc.group(1))
                lo, hi = (-(1 << (wt - 1)), (1 << (wt - 1)) - 1) if ca["to"][0] == "i" else (0, (1 << wt) - 1)
                if lo <= val <= hi:
                    c.ob("C07.no-narrowing", fn, "%s as %s (constant %d)" % (ca["from"], ca["to"], val), True, "literal constant %d fits %s: no run-time value is converted" % (val, ca["to"]), nontrivial=False)
                    continue
            if not (wt >= wf and (ca["from"][0] == ca["to"][0] or (ca["from"][0] == "u" and wt > wf))) and fn in facts.fns:
                # a digit below its radix (the second parameter of a radix fold over to_digit(R), R ≤ 36) converted to another
                # integer type: every `as` of this kind in the function must be one of those
                f_ = facts.fns[fn]
                D0.radix_fold(f_, find_all(f_.body, lambda n: n.get("k") == "binary" and n["op"] in ("+", "-", "*", "<<")))
                dc = getattr(D0, "_digit_casts", [])
                same_kind = [x for x in find_all(f_.body, lambda n: n.get("k") == "cast") if norm_ty(x.get("ty") or "") == ca["to"]]
                if same_kind and all(any(x is y for y in dc) for x in same_kind):
                    c.ob("C07.no-narrowing", fn, "%s as %s (digit)" % (ca["from"], ca["to"]), True, "the converted value is a digit produced by to_digit(R) inside a bounded radix fold: below 36, it fits %s" % ca["to"], nontrivial=False)
                    continue
            ok = wt >= wf and (ca["from"][0] == ca["to"][0] or (ca["from"][0] == "u" and wt > wf))
            c.ob("C07.no-narrowing", fn, "%s as %s" % (ca["from"], ca["to"]), ok, "%s-bit → %s-bit %s" % (wf, wt, "widening" if ok else "NARROWING / sign-changing: a value out of range silently becomes a different number"), witness="-uid 4294967297" if not ok else None)
    c.ob("C07.no-narrowing", "crate", "cast census", True, "%d int casts in crate code examined" % ncast, nontrivial=False)
    nl = 0
    for p, bd in sorted(m.bodies.items()):
        fn = mir.e1_key(p, facts)
        if fn is None:
            continue
        for cl in bd["calls"]:
            t = cl["resolved"] or cl["callee"]
            mm = LOSSY.search(t)
            if mm and mm.group(1):
                nl += 1
                c.ob("C07.no-arith", fn, t.split("::")[-1], False, "explicitly lossy integer arithmetic `%s` on %s: a value beyond the range is replaced by a different number instead of being rejected" % (t, cl["argtys"]), witness="-size 18014398509481984k")
    # checked_*(..).unwrap_or(..) — E1
    for fn in facts.nontest_fns():
        for x in find_all(fn.body, lambda x: x.get("k") == "mcall" and x["m"] in ("unwrap_or", "unwrap_or_default", "unwrap_or_else") and x["recv"].get("k") == "mcall" and (x["recv"]["m"].startswith("checked_") or x["recv"]["m"] in ("parse", "try_into", "try_from"))):
            nl += 1
            c.ob("C07.no-arith", fn.key, "%s(..).%s" % (x["recv"]["m"], x["m"]), False, "`%s` replaces an out-of-range result by a default value instead of rejecting the input" % src(x)[:80], witness="-uid 99999999999")
    c.ob("C07.no-arith", "crate", "lossy-arithmetic callee census", True, "%d lossy sites found among %d resolved call edges" % (nl, sum(len(x["calls"]) for x in m.bodies.values())), nontrivial=False)
    # arithmetic on user numbers: the C03 census restricted to functions that take AST numeric payloads
    D = c03.Discharger(c, facts, b, g, an, m)
    cs = c03.Census(m, facts)
    numeric_fns = {k for k, fn in facts.fns.items() if not fn.test and fn.impl is not None and norm_ty(fn.impl["self_ty"]) in ("Size", "TimeSpec") or k.startswith("scheme::target_scheme::compile_") or "Parseable>::parse" in k}
    na = 0
    for s in cs.sites:
        if s["fn"] in numeric_fns and (s["kind"] == "arith-call" or (s["kind"] == "assert" and s["what"].startswith("Overflow"))):
            na += 1
            ok, form, det = D.discharge(s)
            c.ob("C07.no-arith", s["fn"], "%s#%d" % (s["what"], s["ord"]), ok, det, witness=D.witness(s, form) if ok is not True else None)
    # the floor is tied to the one site the property is about (count × unit); how many constant products the unit tables
    # are written with is a matter of style
    c.floor("arithmetic sites on the numeric path (must include count × unit in Size::byte_size)", na if any(s["fn"] == "Size::byte_size" and (s["kind"] == "arith-call" or s["what"].startswith("Overflow")) for s in cs.sites) else 0, 1)
    # ---------------------------------------------------------------- C07.display
    rows = codegen.table(facts, "<Test as TargetScheme>::compile")
    nh = 0
    for r in rows:
        sc = emit.scan_scheme(r["st"].buf)
        for h, ins, d, _ in sc["holes"]:
            if h.get("v") == "join" or ins:
                continue
            cn = emit.canon(h)
            if cn.startswith("mgr."):
                continue
            nh += 1
            spec = h.get("spec") or ""
            flt = bool(re.search(r"as f(32|64)|f64|f32", cn))
            c.ob("C07.display", "<Test as TargetScheme>::compile", "%s [%s]" % (cn[:60], r["cond"][:50]), spec == "" and not flt, "number is rendered by Display `{}`%s" % ("" if spec == "" else " with format spec `%s` (width/precision/radix changes the digits)" % spec), nontrivial=False)
    c.floor("numeric holes in test templates", nh, 40)
    from .. import toplevel

    T_ = toplevel.summary(facts)
    comp = T_["fn"]
    rend = set()
    for p_ in T_["paths"]:
        if p_["outcome"] == "ok" and p_["fields"] and p_["conds"].get("@1.threads") == "Some":
            o_ = p_["fields"].get("options")
            rend.add(emit.canon_parts(o_["parts"]) if isinstance(o_, dict) and o_.get("v") == "str" else (emit.canon(o_) if isinstance(o_, dict) else str(o_)))
    ok = bool(rend) and all(re.fullmatch(r"\{@1\.threads\.some\}", t_) for t_ in rend)
    c.ob("C07.display", comp.key, "thread count rendered by to_string()", ok, "options text when a count was given: %s (the number itself, plain Display, no cast or arithmetic)" % sorted(rend))
    c.control("C07.no-arith", bool(LOSSY.search("core::num::<impl u64>::wrapping_mul")) and bool(LOSSY.search("core::num::<impl u64>::saturating_mul")), "fixture callees wrapping_mul / saturating_mul are recognised as lossy")
