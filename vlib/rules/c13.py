"""C13 — global options are honoured wherever they appear."""
from .. import facts as F
from .. import peg, rx, kw
from ..anchors import Anchors
from ..facts import src, find_all
from ..args import unwrap, flat_alts, single_body
from . import c05, c06


def update_fn(facts):
    for k, fn in facts.fns.items():
        if fn.name == "update" and not fn.test and fn.impl is not None and F.norm_ty(fn.impl["self_ty"]) == "RunOptions":
            return fn
    raise F.AnchorMissing("RunOptions::update")


def update_arms(fn):
    """[(variant|None, pattern, body)] of the match in RunOptions::update"""
    ms = find_all(fn.body, lambda n: n.get("k") == "match")
    if len(ms) != 1:
        return None
    out = []
    for arm in ms[0]["arms"]:
        for p in rx.pat_cases(arm["pat"]):
            pv = rx.pat_variant(p)
            out.append((pv[0].split("::")[-1] if pv else None, p, arm["body"], arm))
    return out


def panics(body):
    return bool(find_all(body, lambda n: n.get("k") == "macro" and n["name"] in ("unreachable", "todo", "unimplemented", "panic")))


def run(c, facts, tier):
    b = peg.Builder(facts)
    g = peg.Grammar(b)
    an = Anchors(facts, b)
    inner = an.role("parse_inner")
    infn = facts.fn(inner)
    tokfn = an.role("token")
    scope = b.scope(infn.module)
    c.trusted = ["winnow 0.6.7 semantics in vlib/peg.py", "E1 extractor"]
    c.explanation = (
        "Structural rules on the only two places options are handled (the leading pass and the token map in the inner parse function) and on RunOptions::update: "
        "in-order registration, replacement by -true, assignment (last wins), totality over every option the grammar can build, and thread-count emission."
    )
    c.decided = ["position independence (front / inside)", "last occurrence wins", "misplaced option ≡ -true", "no option reaches the tree", "thread count emission"]
    upd = update_fn(facts)

    # ------------------------------------------------------------ C13.leading
    lead = c06.leading_pass(b, infn)
    ok = None
    det = "no leading pass found"
    optfn = None
    if lead is not None:
        n = unwrap(lead)
        det = "leading pass = %s" % peg.show(n)
        if n["t"] == "seq" and len(n["items"]) == 2:
            ms0, rep = unwrap(n["items"][0]["p"]), unwrap(n["items"][1]["p"])
            if rep["t"] == "rep" and ms0["t"] == "set":
                item = unwrap(rep["p"])
                head = unwrap(item["items"][0]["p"]) if item["t"] == "seq" and len(item["items"]) == 2 else None
                if head is not None and head["t"] == "seq":
                    # option followed by a dropped guard (word boundary)
                    kept = [unwrap(i["p"]) for i in head["items"] if i["keep"]]
                    head = kept[0] if len(kept) == 1 and head["items"][0]["keep"] else head
                if head is not None and head["t"] == "ref":
                    optfn = head["fn"]
                    tail = unwrap(item["items"][1]["p"])
                    ok = rep["min"] == 0 and rep["max"] is None and ms0["min"] == 0 and n["items"][1]["keep"] and tail["t"] == "set" and tail["min"] == 0 and "GlobalOption" in optfn
    c.ob("C13.leading", inner, "blank* (option blank*)* consumed before lexing", ok, det)
    # options are fed in order to update
    fed = None
    for st in infn.body["stmts"]:
        e = st.get("e") if st["k"] == "expr" else st.get("init")
        if e is None:
            continue
        base, chain = rx.method_chain(e)
        ms = [m for m, _, _ in chain]
        if "for_each" in ms or st["k"] == "for":
            names = [m for m in ms if m not in ("?",)]
            fe = [a for m, a, _ in chain if m == "for_each"]
            calls = find_all(fe[0], lambda n: n.get("k") == "mcall" and n["m"] == upd.name) if fe else []
            fed = (names, bool(calls))
            break
    okf = fed is not None and fed[1] and all(m in ("iter", "into_iter", "for_each", "parse_next") for m in fed[0])
    c.ob("C13.leading", inner, "leading options are registered in input order", okf, "consumer chain %s, calls update: %s (no reordering/filtering adaptor allowed)" % (fed[0] if fed else None, fed[1] if fed else None))
    # the loop stops by Backtrack on the first non-option, leaving the rest untouched
    oalts = kw.alternatives(g, optfn) if optfn else []
    okb = bool(oalts) and all(a.lit for a in oalts) and not g.nullable(b.fn_ir(optfn))
    c.ob("C13.leading", optfn or inner, "a non-option stops the leading pass without consuming input", okb, "every option alternative starts with a keyword literal (fails with Backtrack, position restored): %s" % [a.lit for a in oalts])

    # ------------------------------------------------------------ C13.misplaced
    maps = []
    for st in infn.body["stmts"]:
        if st["k"] != "let":
            continue
        base, chain = rx.method_chain(st["init"]) if st["init"] else (None, [])
        for m, a, node in chain:
            if m == "map" and a and a[0]["k"] == "closure":
                mt = find_all(a[0], lambda n: n.get("k") == "match")
                if mt and any(rx.pat_variant(p) and rx.pat_variant(p)[0] == "Token::Global" for arm in mt[0]["arms"] for p in rx.pat_cases(arm["pat"])):
                    maps.append((st, base, chain, a[0], mt[0]))
    if len(maps) != 1:
        c.ob("C13.misplaced", inner, "token map handling Token::Global", None if not maps else False, "found %d token maps with a Token::Global arm" % len(maps))
    else:
        st, base, chain, clo, mt = maps[0]
        ms = [m for m, _, _ in chain]
        c.ob("C13.misplaced", inner, "tokens are mapped in order", all(m in ("into_iter", "iter", "enumerate", "map", "collect", "cloned") for m in ms), "adaptor chain %s" % ms)
        glob_ok, ident_ok, others = None, None, []
        for arm in mt["arms"]:
            for p in rx.pat_cases(arm["pat"]):
                pv = rx.pat_variant(p)
                if pv and pv[0] == "Token::Global":
                    bind = rx.pat_bindings(p)
                    stmts = rx.stmts_of(arm["body"])
                    tail = rx.tail_expr(arm["body"]) if arm["body"]["k"] == "block" else arm["body"]
                    upcalls = find_all(arm["body"], lambda n: n.get("k") == "mcall" and n["m"] == upd.name and len(n["args"]) == 1 and bind and rx.is_var(n["args"][0], bind[0]))
                    glob_ok = bool(upcalls) and tail is not None and src(tail) == "Token::Test(Test::True)"
                elif rx.is_catchall(p) and p["k"] == "ident":
                    ident_ok = rx.is_var(arm["body"], p["name"])
                else:
                    others.append(F.psrc(p))
        c.ob("C13.misplaced", inner, "Token::Global(v) → update(&v); Token::Test(Test::True)", glob_ok, "the misplaced-option arm registers the option and yields -true: %s" % glob_ok, witness="-name x -threads 3" if not glob_ok else None)
        c.ob("C13.misplaced", inner, "every other token is passed through unchanged", ident_ok and not others, "identity catch-all: %s; other arms: %s" % (ident_ok, others))
        # the mapped vector is what the precedence parser receives
        entry = an.role("prec_entry")
        mapped = rx.pat_bindings(st["pat"])
        uses = find_all(infn.body, lambda n: n.get("k") == "mcall" and n["m"] == "parse_next" and n["args"] and find_all(n["args"][0], lambda x: x.get("k") == "path" and x["segs"] == mapped))
        later = [u for u in uses if u["l"] > st["l"]]
        c.ob("C13.misplaced", inner, "the precedence parser receives the mapped tokens", bool(later), "parse_next over %s after the map statement: %d site(s)" % (mapped, len(later)))
    # no Global reaches the tree: with the map above, Token::Global is never an input of the precedence parser
    # (the arm of atom that would build Expression::Global is then dead; C03.never-built re-checks it for the panic site)

    # ------------------------------------------------------------ C13.last-wins
    arms = update_arms(upd)
    if arms is None:
        c.ob("C13.last-wins", upd.key, "update is one match on the option", None, "shape not recognised")
        arms = []
    handled = {}
    for var, p, body, arm in arms:
        if var is None:
            continue
        bb = rx.peel(body)
        ok = None
        det = src(bb)
        if bb["k"] == "assign" and bb["lhs"]["k"] == "field" and rx.is_var(bb["lhs"]["e"], "self"):
            rhs = rx.peel(bb["rhs"])
            binds = rx.pat_bindings(p)
            if rhs["k"] == "lit":
                # a flag option switches its flag on
                ok = rhs.get("t") != "bool" or rhs["v"] is True
            elif rhs["k"] == "call" and rx.path_str(rhs["f"]) == "Some" and len(rhs["args"]) == 1 and binds and rx.is_var(rhs["args"][0], binds[0]):
                ok = True
            elif binds and rx.is_var(rhs, binds[0]):
                ok = True
            else:
                ok = False
            handled[var] = bb["lhs"]["name"]
        else:
            ok = False if not panics(body) else None
            if panics(body):
                continue
        c.ob("C13.last-wins", upd.key, "%s assigns (never merges)" % var, ok, "arm body `%s` — a plain assignment makes the last occurrence win" % det, witness="-threads 2 -threads 8" if ok is False else None)
    # two different options must not write the same field with different meaning: informational
    # the options object that is updated (leading pass and token map) is the one returned, and it starts from the defaults
    recvs = {rx.var_name(n["recv"]) for n in find_all(infn.body, lambda n: n.get("k") == "mcall" and n["m"] == upd.name)}
    tl = rx.tail_expr(infn.body)
    ret0 = None
    if tl is not None and tl["k"] == "call" and tl["args"] and tl["args"][0]["k"] == "tuple":
        ret0 = rx.var_name(tl["args"][0]["elems"][0])
    inits = [st for st in infn.body["stmts"] if st["k"] == "let" and st["pat"]["k"] == "ident" and st["pat"]["name"] == ret0]
    init_ok = len(inits) == 1 and src(inits[0]["init"]) in ("RunOptions::default()", "Default::default()", "RunOptions::new()")
    c.ob("C13.last-wins", inner, "one options object: created from the defaults, updated in input order, returned", len(recvs) == 1 and ret0 in recvs and init_ok, "update() receivers %s; returned %s; initialised by %s" % (sorted(x for x in recvs if x), ret0, src(inits[0]["init"]) if inits else None))
    dfn = facts.fns.get("<RunOptions as Default>::default")
    okd, detd = None, "Default impl for RunOptions not found (derived?)"
    if dfn is not None:
        lit = find_all(dfn.body, lambda n: n.get("k") == "struct" and n["segs"][-1] == "RunOptions")
        if lit:
            fl = {f["name"]: src(f["e"]) for f in lit[0]["fields"]}
            okd = fl.get("depth") == "false" and fl.get("threads") == "None"
            detd = "defaults %s (no option given ⇒ depth off, thread count left to the runtime)" % fl
    elif "Default" in facts.derives(facts.struct("RunOptions")):
        okd, detd = True, "derived Default: depth=false, threads=None"
    c.ob("C13.threads", "<RunOptions as Default>::default", "defaults: depth off, no thread count", okd, detd)
    # ------------------------------------------------------------ C13.total
    built = {}
    for a in kw.alternatives(g, tokfn):
        ctor = kw.ctor_of_transform(a, scope)
        if ctor and ctor.startswith("GlobalOption::"):
            seq_ir = {"t": "seq", "l": None, "items": [{"p": {"t": "lit", "l": None, "s": a.lit or ""}, "keep": True}] + [{"p": r["n"], "keep": r["keep"]} for r in a.rest]}
            if not c05.never_succeeds(g, seq_ir):
                built[ctor.split("::")[1]] = a.lit
    for v in facts.variants("GlobalOption"):
        if v in built:
            ok = v in handled
            c.ob(
                "C13.total",
                upd.key,
                v,
                ok,
                "%s can be built by the parser (keyword %s) and is %s" % (v, built[v], "handled by an assigning arm" if ok else "NOT handled: it falls to the panicking catch-all of update()"),
                witness="%s 3" % built[v] if not ok else None,
            )
        else:
            c.ob("C13.total", upd.key, v, True, "%s cannot be built by the parser (its keyword is rejected with an error or absent), so update() never receives it" % v, nontrivial=False)
    c.floor("GlobalOption variants", len(facts.variants("GlobalOption")), 4)

    # ------------------------------------------------------------ C13.threads
    comp = facts.fn("scheme::compile") if "scheme::compile" in facts.fns else None
    if comp is None:
        for k, fn in facts.fns.items():
            if fn.name == "compile" and fn.impl is None and not fn.test and fn.node["vis"] == "pub":
                comp = fn
    if comp is None:
        raise F.AnchorMissing("public compile function")
    oks = None
    det = "options rendering not found"
    for st in comp.body["stmts"]:
        if st["k"] == "let" and st["init"] is not None and find_all(st["init"], lambda n: n.get("k") == "field" and n["name"] == "threads"):
            init = st["init"]
            base, chain = rx.method_chain(init)
            ms = [m for m, _, _ in chain]
            strs = [n["v"] for n in find_all(init, lambda n: n.get("k") == "lit" and n.get("t") == "str")]
            tostr = bool(find_all(init, lambda n: n.get("k") == "mcall" and n["m"] == "to_string")) or bool(find_all(init, lambda n: n.get("k") == "macro" and n["name"] == "format"))
            oks = tostr and strs == ["(lipe-getopt-thread-count)"] and ms[-1] in ("unwrap_or", "unwrap_or_else", "unwrap_or_default") and all(m in ("and_then", "map", "unwrap_or", "unwrap_or_else") for m in ms)
            det = "threads rendered by %s with default %s" % (ms, strs)
            var = rx.pat_bindings(st["pat"])
    c.ob("C13.threads", comp.key, "Some(n) → n.to_string(), None → runtime default call", oks, det)
    # position in the scan call: decided on the skeleton template (shared with C02.skeleton)
    from .. import emit

    sk = emit.skeleton(facts)
    okp = sk is not None and sk.get("lipe_scan_args") is not None and len(sk["lipe_scan_args"]) == 5 and sk["lipe_scan_args"][4] == "{self.options}"
    c.ob("C13.threads", "CompiledExpression::scheme", "thread count is the fifth argument of lipe-scan", okp, "lipe-scan arguments in the template: %s" % (sk.get("lipe_scan_args") if sk else None))
    # field provenance: CompiledExpression.options is the rendered string
    lits = find_all(comp.body, lambda n: n.get("k") == "struct" and n["segs"][-1] == "CompiledExpression")
    okv = False
    if lits:
        for f in lits[0]["fields"]:
            if f["name"] == "options":
                okv = rx.var_name(f["e"]) == "options"
    c.ob("C13.threads", comp.key, "the rendered thread string is stored in the compiled expression", okv, "field `options` initialised from the local rendering: %s" % okv)
