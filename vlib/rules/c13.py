"""C13 — global options are honoured wherever they appear."""
import re

from .. import facts as F
from .. import peg, rx, kw
from ..anchors import Anchors
from ..facts import src, find_all
from ..args import unwrap, flat_alts, single_body
from . import c05, c06


def update_fn(facts):
    for k, fn in facts.fns.items():
        if fn.name == "update" and not fn.test and fn.impl is not None and F.norm_ty(fn.impl["self_ty"]) == "RunOptions":
            return fn
    raise F.AnchorMissing("RunOptions::update")


def update_arms(fn):
    """[(variant|None, pattern, body)] of the match in RunOptions::update"""
    ms = find_all(fn.body, lambda n: n.get("k") == "match")
    if len(ms) != 1:
        return None
    out = []
    for arm in ms[0]["arms"]:
        for p in rx.pat_cases(arm["pat"]):
            pv = rx.pat_variant(p)
            out.append((pv[0].split("::")[-1] if pv else None, p, arm["body"], arm))
    return out


def update_table(facts, upd):
    """{variant: (kind, field, value text, unknown)} from the interpreter's paths of RunOptions::update; a catch-all path is
    expanded to the variants no other path names."""
    from .. import emit

    it = emit.Interp(facts)
    try:
        res = it.run_fn(upd.key)
    except Exception:
        return None
    out, rest = {}, None
    allv = facts.variants("GlobalOption")
    for st, v in res:
        labs = [lab for subj, lab in st.conds if subj == "@0" and isinstance(lab, tuple)]
        assigns = [e_ for e_ in st.effects if e_[0] == "assign"]
        rv = st.ret if st.ret is not None else v
        if isinstance(rv, dict) and rv.get("v") == "panic":
            entry = ("panic", None, rv.get("macro"), list(st.unknown))
        elif len(assigns) == 1 and len(st.effects) == 1:
            entry = ("assign", assigns[0][1], emit.canon(assigns[0][2]), list(st.unknown))
        else:
            entry = ("other", None, "%d effects" % len(st.effects), list(st.unknown))
        if not labs:
            return None
        for lab in labs[0]:
            if lab == "_":
                rest = entry
            else:
                out[lab.split("::")[-1]] = entry
    if rest is not None:
        for vn in allv:
            out.setdefault(vn, rest)
    return out


def panics(body):
    return bool(find_all(body, lambda n: n.get("k") == "macro" and n["name"] in ("unreachable", "todo", "unimplemented", "panic")))


def run(c, facts, tier):
    b = peg.Builder(facts)
    g = peg.Grammar(b)
    an = Anchors(facts, b)
    from .. import glue

    glue.obligations(c, facts, b, "C13")
    from .. import report as _rep

    _rep.require(c, facts, "c07", "C13.threads", "-threads", "every decimal thread count is read exactly", lambda o: o["rule"] == "C07.convert" and ("u32" in o["site"] or "-threads" in o["instance"]), "the value of -threads N is read by the u32 parser decided by C07.convert")
    inner = an.role("parse_inner")
    infn = facts.fn(inner)
    tokfn = an.role("token")
    scope = b.scope(infn.module)
    c.trusted = ["winnow 0.6.7 semantics in vlib/peg.py", "E1 extractor"]
    c.explanation = (
        "Structural rules on the only two places options are handled (the leading pass and the token map in the inner parse function) and on RunOptions::update: "
        "in-order registration, replacement by -true, assignment (last wins), totality over every option the grammar can build, and thread-count emission."
    )
    c.decided = ["position independence (front / inside)", "last occurrence wins", "misplaced option ≡ -true", "no option reaches the tree", "thread count emission"]
    upd = update_fn(facts)

    # ------------------------------------------------------------ C13.leading
    lead = c06.leading_pass(b, infn)
    ok = None
    det = "no leading pass found"
    optfn = None
    if lead is not None:
        n = unwrap(lead)
        det = "leading pass = %s" % peg.show(n)
        if n["t"] == "seq" and len(n["items"]) == 2:
            ms0, rep = unwrap(n["items"][0]["p"]), unwrap(n["items"][1]["p"])
            if rep["t"] == "rep" and ms0["t"] == "set":
                item = unwrap(rep["p"])
                head = unwrap(item["items"][0]["p"]) if item["t"] == "seq" and len(item["items"]) == 2 else None
                if head is not None and head["t"] == "seq":
                    # option followed by a dropped guard (word boundary)
                    kept = [unwrap(i["p"]) for i in head["items"] if i["keep"]]
                    head = kept[0] if len(kept) == 1 and head["items"][0]["keep"] else head
                if head is not None and head["t"] == "ref":
                    optfn = head["fn"]
                    tail = unwrap(item["items"][1]["p"])
                    ok = rep["min"] == 0 and rep["max"] is None and ms0["min"] == 0 and n["items"][1]["keep"] and tail["t"] == "set" and tail["min"] == 0 and "GlobalOption" in optfn
    c.ob("C13.leading", inner, "blank* (option blank*)* consumed before lexing", ok, det)
    # options are fed in order to update: element-wise traversal of the list returned by the leading pass
    S = c06.inner_summary(b, infn)
    opts = S.ret[0] if S.ret and len(S.ret) == 2 else None
    lead_ev = S.parses()[0] if S.parses() else None
    fed_t = [t for t in S.traversals() if lead_ev is not None and S.origin(t["over"]).get("ev") == lead_ev["id"] and S.origin(t["over"])["v"] == "parsed"]
    okf, detf = None, "no traversal of the leading options found"
    if len(fed_t) == 1 and opts is not None:
        t = fed_t[0]
        cs = t["cases"]
        good_case = len(cs) == 1 and cs[0]["pat"] is None and not cs[0].get("unrecognised") and len(cs[0]["effects"]) == 1 and S.is_update_of(cs[0]["effects"][0], upd.name, opts, cs[0]["elem"], cs[0].get("env"))
        okf = good_case and not t["adaptors"] and not S.unknown
        detf = "traversal (%s) over the leading list: adaptors %s (only order-preserving iteration allowed), per element: %s%s" % (
            t["spelling"],
            t["adaptors"] or "none",
            [src(x) for x in cs[0]["effects"]] if cs else None,
            ("; statements not understood: %s" % S.unknown) if S.unknown else "",
        )
    elif len(fed_t) > 1:
        okf, detf = False, "the leading list is traversed %d times" % len(fed_t)
    from .. import innerval

    # the summary decides for lists of any length; where it does not recognise the statements, the inner function is
    # evaluated on scenarios (vlib/innerval.py)
    EV = None
    if not okf:
        EV, _why = innerval.cached(facts, b, an)
    if EV is not None:
        okf, detf = EV["ok_options"], innerval.how(EV) + (" — " + EV["detail"] if not EV["ok_options"] else "")
    c.ob("C13.leading", inner, "leading options are registered in input order", okf, detf)
    from .. import mir as _mir

    owners = [inner] + list(getattr(S, "inlined", [])) + [e_["ir"]["fn"] for e_ in S.parses()[:1] if e_["ir"]["t"] == "ref"] + [e_["via"]["fn"] for e_ in S.parses()[:1] if e_.get("via") is not None and e_["via"].get("t") == "ref"]
    nacc = _mir.order_rule(c, facts, "C13.leading", owners, "the last occurrence of an option must win, so the options have to be registered in the order written")
    c.ob("C13.leading", inner, "the leading options are an accumulation of the resolved program", nacc >= 1, "%d winnow accumulation(s) found in %s" % (nacc, owners), nontrivial=False)
    # the loop stops by Backtrack on the first non-option, leaving the rest untouched
    oalts = kw.alternatives(g, optfn) if optfn else []
    okb = bool(oalts) and all(a.lit for a in oalts) and not g.nullable(b.fn_ir(optfn))
    c.ob("C13.leading", optfn or inner, "a non-option stops the leading pass without consuming input", okb, "every option alternative starts with a keyword literal (fails with Backtrack, position restored): %s" % [a.lit for a in oalts])

    # ------------------------------------------------------------ C13.misplaced
    lexk = an.role("lex")
    entry = an.role("prec_entry")

    def from_lex(val):
        o = S.origin(val)
        if o["v"] == "ifempty":
            o = S.origin(o["els"])
        return o["v"] == "parsed" and peg.Grammar(b).open(o["ir"]) is not None and o["ir"]["t"] == "ref" and o["ir"]["fn"] == lexk

    trav = [t for t in S.traversals() if from_lex(t["over"]) and t["mode"] in ("map", "mutate")]
    def _summary_decides_misplaced():
        if len(trav) != 1:
            return False
        t = trav[0]
        if t["adaptors"] or S.unknown:
            return False
        g_ok, i_ok, oth = None, None, []
        for cs in t["cases"]:
            for p in (rx.pat_cases(cs["pat"]) if cs["pat"] is not None else [None]):
                pv = rx.pat_variant(p) if p is not None else None
                if pv and pv[0] == "Token::Global":
                    bind = rx.pat_bindings(p)
                    ups = [x for x in cs["effects"] if opts is not None and S.is_update_of(x, upd.name, opts, bind[0] if bind else None, cs.get("env"))]
                    g_ok = len(ups) == 1 and len(cs["effects"]) == 1 and isinstance(cs["result"], dict) and src(cs["result"]) == "Token::Test(Test::True)" and not cs.get("guard")
                elif p is None or rx.is_catchall(p):
                    i_ok = cs["result"] == "same" and not cs["effects"]
                else:
                    oth.append(p)
        ap_ = [e for e in S.events if e["e"] == "apply" and e["fn"] == entry]
        return bool(g_ok and i_ok and not oth and len(ap_) == 1 and ap_[0]["arg"]["v"] == "list" and ap_[0]["arg"]["from"] == t["id"])

    EVm = None
    if not _summary_decides_misplaced():
        EVm, _why = innerval.cached(facts, b, an)
    if EVm is not None:
        EV = EVm
        okt = EV["ok_tokens"]
        dt = innerval.how(EV) + (" — " + EV["detail"] if not (okt and EV["ok_options"] and EV["ok_tree"]) else "")
        c.ob("C13.misplaced", inner, "tokens are mapped in order", okt, dt)
        c.ob("C13.misplaced", inner, "Token::Global(v) → update(&v); Token::Test(Test::True)", okt and EV["ok_options"], dt, witness="-name x -threads 3" if not (okt and EV["ok_options"]) else None)
        c.ob("C13.misplaced", inner, "every other token is passed through unchanged", okt, dt)
        c.ob("C13.misplaced", inner, "the precedence parser receives the mapped tokens", okt and EV["ok_tree"], dt)
    elif len(trav) != 1:
        c.ob("C13.misplaced", inner, "token map handling Token::Global", None if not trav else False, "found %d element-wise rewrites of the token list" % len(trav))
    else:
        t = trav[0]
        c.ob("C13.misplaced", inner, "tokens are mapped in order", not t["adaptors"] and not S.unknown, "adaptors %s (%s)%s" % (t["adaptors"] or "none", t["spelling"], ("; statements not understood: %s" % S.unknown) if S.unknown else ""))
        glob_ok, ident_ok, others = None, None, []
        for cs in t["cases"]:
            pats = rx.pat_cases(cs["pat"]) if cs["pat"] is not None else [None]
            for p in pats:
                pv = rx.pat_variant(p) if p is not None else None
                if pv and pv[0] == "Token::Global":
                    bind = rx.pat_bindings(p)
                    res = cs["result"]
                    ups = [x for x in cs["effects"] if opts is not None and S.is_update_of(x, upd.name, opts, bind[0] if bind else None, cs.get("env"))]
                    rest = [x for x in cs["effects"] if x not in ups]
                    glob_ok = len(ups) == 1 and not rest and isinstance(res, dict) and src(res) == "Token::Test(Test::True)" and not cs.get("guard")
                elif p is None or rx.is_catchall(p):
                    ident_ok = cs["result"] == "same" and not cs["effects"]
                else:
                    others.append(F.psrc(p))
        c.ob("C13.misplaced", inner, "Token::Global(v) → update(&v); Token::Test(Test::True)", glob_ok, "the misplaced-option case registers the option once and yields -true: %s" % glob_ok, witness="-name x -threads 3" if not glob_ok else None)
        c.ob("C13.misplaced", inner, "every other token is passed through unchanged", bool(ident_ok) and not others, "identity for the remaining tokens: %s; other cases: %s" % (ident_ok, others))
        # the rewritten list is what the precedence parser receives
        ap = [e for e in S.events if e["e"] == "apply" and e["fn"] == entry]
        recv_ok = len(ap) == 1 and ap[0]["arg"]["v"] == "list" and ap[0]["arg"]["from"] == t["id"]
        c.ob("C13.misplaced", inner, "the precedence parser receives the mapped tokens", recv_ok, "%s is applied to the list produced by the rewrite: %s" % (entry, recv_ok))
    # no Global reaches the tree: with the map above, Token::Global is never an input of the precedence parser
    # (the arm of atom that would build Expression::Global is then dead; C03.never-built re-checks it for the panic site)

    # ------------------------------------------------------------ C13.last-wins
    # what update() does per option, by interpreting it: variant -> ('assign', field, value) | 'panic' | other
    utab = update_table(facts, upd)
    handled = {}
    if utab is None:
        c.ob("C13.last-wins", upd.key, "update is a function of the option's variant", None, "update() could not be interpreted path by path")
        utab = {}
    for var, (kind, fld, val, unk) in sorted(utab.items()):
        if kind == "panic":
            continue
        ok, det = None, "%s %s %s" % (kind, fld, val)
        if unk:
            ok, det = None, "constructs not understood: %s" % unk[:2]
        elif kind == "assign":
            # a flag option switches its flag on; a valued option stores its own value (possibly wrapped in Some)
            ok = val in ("true",) or val == "$GlobalOption::%s.0" % var or val == "Some($GlobalOption::%s.0)" % var or (val.replace("$GlobalOption::%s.0" % var, "") in ("", "Some()") and "$GlobalOption::%s.0" % var in val)
            det = "self.%s = %s — a plain assignment makes the last occurrence win" % (fld, val)
            handled[var] = fld
        else:
            ok = False
        c.ob("C13.last-wins", upd.key, "%s assigns (never merges)" % var, ok, det, witness="-threads 2 -threads 8" if ok is False else None)
    # two different options must not write the same field with different meaning: informational
    # the options object that is updated (leading pass and token map) is the one returned, and it starts from the defaults
    # every registration — in the inner function or in the helpers it was split into — goes to the object that is returned
    bodies = [infn.body] + [facts.fns[k_].body for k_ in S.inlined] + [facts.fns[e_["via"]["fn"]].body for e_ in S.events if e_["e"] == "parse" and e_.get("via") is not None and e_["via"].get("t") == "ref" and e_["via"]["fn"] in facts.fns]
    upd_calls = [n for bd in bodies for n in find_all(bd, lambda n: n.get("k") == "mcall" and n["m"] == upd.name)]
    seen_ok = set()
    for t_ in S.traversals():
        for cs_ in t_["cases"]:
            for x_ in cs_["effects"]:
                for n in find_all(x_, lambda n: n.get("k") == "mcall" and n["m"] == upd.name):
                    r_ = rx.peel(n["recv"])
                    env_ = cs_.get("env") or S.env
                    if opts is not None and r_.get("k") == "path" and len(r_["segs"]) == 1 and env_.get(r_["segs"][0]) is opts:
                        seen_ok.add(id(n))
    recv_same = opts is not None and all(id(n) in seen_ok for n in upd_calls)
    init_ok = opts is not None and opts["v"] == "fresh" and opts.get("ty") == "RunOptions" and opts.get("ctor") in ("default", "new")
    EVl = None
    if not (bool(upd_calls) and recv_same and init_ok):
        EVl, _why = innerval.cached(facts, b, an)
    if EVl is not None:
        c.ob("C13.last-wins", inner, "one options object: created from the defaults, updated in input order, returned", EVl["ok_options"], innerval.how(EVl) + (" — " + EVl["detail"] if not EVl["ok_options"] else ""))
    else:
        c.ob(
            "C13.last-wins",
            inner,
            "one options object: created from the defaults, updated in input order, returned",
            bool(upd_calls) and recv_same and init_ok,
            "%d update() calls, all on the returned object: %s; it is initialised by %s" % (len(upd_calls), recv_same, opts.get("src") if opts else None),
        )
    dfn = facts.fns.get("<RunOptions as Default>::default")
    okd, detd = None, "Default impl for RunOptions not found (derived?)"
    if dfn is not None:
        lit = find_all(dfn.body, lambda n: n.get("k") == "struct" and n["segs"][-1] == "RunOptions")
        if lit:
            fl = {f["name"]: src(f["e"]) for f in lit[0]["fields"]}
            okd = fl.get("depth") == "false" and fl.get("threads") == "None"
            detd = "defaults %s (no option given ⇒ depth off, thread count left to the runtime)" % fl
    elif "Default" in facts.derives(facts.struct("RunOptions")):
        okd, detd = True, "derived Default: depth=false, threads=None"
    c.ob("C13.threads", "<RunOptions as Default>::default", "defaults: depth off, no thread count", okd, detd)
    # ------------------------------------------------------------ C13.total
    built = {}
    for a in kw.alternatives(g, tokfn):
        ctor = kw.ctor_of_transform(a, scope)
        if ctor and ctor.startswith("GlobalOption::"):
            seq_ir = {"t": "seq", "l": None, "items": [{"p": {"t": "lit", "l": None, "s": a.lit or ""}, "keep": True}] + [{"p": r["n"], "keep": r["keep"]} for r in a.rest]}
            if not c05.never_succeeds(g, seq_ir):
                built[ctor.split("::")[1]] = a.lit
    for v in facts.variants("GlobalOption"):
        if v in built:
            ok = v in handled
            c.ob(
                "C13.total",
                upd.key,
                v,
                ok,
                "%s can be built by the parser (keyword %s) and is %s" % (v, built[v], "handled by an assigning arm" if ok else "NOT handled: it falls to the panicking catch-all of update()"),
                witness="%s 3" % built[v] if not ok else None,
            )
        else:
            c.ob("C13.total", upd.key, v, True, "%s cannot be built by the parser (its keyword is rejected with an error or absent), so update() never receives it" % v, nontrivial=False)
    c.floor("GlobalOption variants", len(facts.variants("GlobalOption")), 4)

    # ------------------------------------------------------------ C13.threads
    comp = facts.fn("scheme::compile") if "scheme::compile" in facts.fns else None
    if comp is None:
        for k, fn in facts.fns.items():
            if fn.name == "compile" and fn.impl is None and not fn.test and fn.node["vis"] == "pub":
                comp = fn
    if comp is None:
        raise F.AnchorMissing("public compile function")
    from .. import toplevel, emit as _emit

    T = toplevel.summary(facts)
    rend = {}
    for p_ in T["paths"]:
        if p_["outcome"] != "ok" or not p_["fields"]:
            continue
        o = p_["fields"].get("options")
        txt = _emit.canon_parts(o["parts"]) if isinstance(o, dict) and o.get("v") == "str" else (_emit.canon(o) if isinstance(o, dict) else None)
        thr = [v for k, v in p_["conds"].items() if k.endswith(".threads")]
        rend.setdefault(thr[0] if thr else "unconditional", set()).add(txt)
    oks = rend.get("Some") is not None and len(rend) == 2 and all(re.fullmatch(r"\{@\d+\.threads\.some\}", t or "") for t in rend["Some"]) and rend.get("None") == {"(lipe-getopt-thread-count)"}
    det = "options field of the compiled expression: threads=Some(n) → %s, threads=None → %s" % (sorted(rend.get("Some", [])), sorted(rend.get("None", [])))
    c.ob("C13.threads", comp.key, "Some(n) → n.to_string(), None → runtime default call", oks, det)
    # position in the scan call: decided on the skeleton template (shared with C02.skeleton)
    from .. import emit

    sk = emit.skeleton(facts)
    okp = sk is not None and sk.get("lipe_scan_args") is not None and len(sk["lipe_scan_args"]) == 5 and sk["lipe_scan_args"][4] == "{self.options}"
    c.ob("C13.threads", "CompiledExpression::scheme", "thread count is the fifth argument of lipe-scan", okp, "lipe-scan arguments in the template: %s" % (sk.get("lipe_scan_args") if sk else None))
    # field provenance: CompiledExpression.options is the rendered string
    okv = bool(rend) and "unconditional" not in rend
    c.ob("C13.threads", comp.key, "the rendered thread string is stored in the compiled expression", okv, "field `options` initialised from the local rendering: %s" % okv)
