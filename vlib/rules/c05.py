"""C05 — every primary and its argument language is recognised exactly (keyword grammar of token())."""
import json
import os
import re

from .. import facts as F
from .. import peg, rx, kw, args
from ..anchors import Anchors
from ..facts import src
from ..args import unwrap, flat_alts, single_body

SPEC = os.path.join(F.VERIF, "spec", "vocabulary.json")


def never_succeeds(g, ir, depth=0):
    ir = unwrap(ir)
    t = ir["t"]
    if depth > 30:
        return False
    if t == "fail":
        return True
    if t == "seq":
        return any(never_succeeds(g, i["p"], depth + 1) for i in ir["items"])
    if t == "alt":
        return all(never_succeeds(g, a, depth + 1) for a in ir["alts"])
    if t in ("map", "value", "trymap", "fold", "verify"):
        return never_succeeds(g, ir["p"], depth + 1)
    if t == "andthen":
        return never_succeeds(g, ir["outer"], depth + 1) or never_succeeds(g, ir["inner"], depth + 1)
    if t == "ref":
        fb = g.deref(ir)
        b = single_body(fb)
        return b is not None and never_succeeds(g, b, depth + 1)
    return False


def consumes_all(g, ir, depth=0):
    """Does success of `ir` imply that the whole (sub-)input was consumed?"""
    ir = unwrap(ir)
    t = ir["t"]
    if depth > 30:
        return False
    if never_succeeds(g, ir):
        return True
    if t == "eof":
        return True
    if t == "rep" and ir["max"] is None and unwrap(ir["p"])["t"] == "any":
        return True
    if t == "set" and ir["max"] is None and ir["cs"] == peg.cs_notin([]):
        return True
    if t == "seq" and ir["items"]:
        return consumes_all(g, ir["items"][-1]["p"], depth + 1)
    if t == "alt":
        return all(consumes_all(g, a, depth + 1) for a in ir["alts"])
    if t in ("map", "value", "trymap", "fold", "verify"):
        return consumes_all(g, ir["p"], depth + 1)
    if t == "reptill":
        return consumes_all(g, ir["stop"], depth + 1)
    if t == "ref":
        fb = g.deref(ir)
        if fb["t"] == "fnbody":
            seqs = g.body_seq(fb)
            return bool(seqs) and consumes_all(g, seqs[-1], depth + 1)
    if t == "fnbody":
        seqs = g.body_seq(ir)
        return bool(seqs) and consumes_all(g, seqs[-1], depth + 1)
    return False


def end_padding(g, ir, depth=0):
    """What a nested parse accepts between the argument proper and the end of the word, besides nothing: for
    `terminated(ARG, END)` the consuming parts of END other than the end-of-input test itself (`eof` redefined as
    `preceded(multispace0, eof)` lets `'644 '` through).  -> list of descriptions (empty = the word is the argument)."""
    ir = unwrap(ir)
    if depth > 12:
        return []
    t = ir["t"]
    if t in ("map", "value", "trymap", "verify", "fold"):
        return end_padding(g, ir["p"], depth + 1)
    if t == "alt":
        return [x for a in ir["alts"] for x in end_padding(g, a, depth + 1)]
    if t == "seq" and len(ir["items"]) >= 2 and not ir["items"][-1]["keep"]:
        last = ir["items"][-1]["p"]
        seen = 0
        while seen < 8:
            seen += 1
            last = unwrap(last)
            if last["t"] == "ref":
                fb = g.deref(last)
                seqs = g.body_seq(fb) if fb["t"] == "fnbody" else []
                if len(seqs) == 1:
                    last = seqs[0]
                    continue
            break
        last = unwrap(last)
        if last["t"] == "seq":
            extra = [peg.show(i["p"])[:40] for i in last["items"] if unwrap(i["p"])["t"] not in ("eof", "peek", "notp")]
            if extra and any(unwrap(i["p"])["t"] == "eof" for i in last["items"]):
                return extra
    return []


def ends_at_boundary(g, ir, bnd, depth=0):
    """Sound under-approximation of: whenever `ir` succeeds, the next input character is in `bnd` or the input
    is exhausted."""
    ir = unwrap(ir)
    t = ir["t"]
    if depth > 30:
        return False
    if never_succeeds(g, ir):
        return True
    if t == "eof":
        return True
    if t == "set":
        # greedy run: stops only at a character outside the set (or at max)
        return ir["max"] is None and peg.cs_subset(peg.cs_compl(ir["cs"]), bnd)
    if t == "peek":
        return requires_boundary(g, ir["p"], bnd)
    if t == "seq":
        items = ir["items"]
        if not items:
            return False
        last = items[-1]["p"]
        lu = unwrap(last)
        if lu["t"] == "ref":
            sb = single_body(g.deref(lu))
            if sb is not None and sb["t"] == "peek":
                lu = sb
        if lu["t"] == "peek":
            return requires_boundary(g, lu["p"], bnd)
        if not ends_at_boundary(g, last, bnd, depth + 1):
            # a trailing guard that *consumes* the boundary also proves it was there
            return requires_boundary(g, last, bnd)
        if g.nullable(last):
            return ends_at_boundary(g, dict(ir, items=items[:-1]), bnd, depth + 1)
        return True
    if t == "alt":
        return all(ends_at_boundary(g, a, bnd, depth + 1) for a in ir["alts"])
    if t in ("map", "value", "trymap", "fold", "verify"):
        return ends_at_boundary(g, ir["p"], bnd, depth + 1)
    if t == "andthen":
        return ends_at_boundary(g, ir["outer"], bnd, depth + 1)
    if t == "sep":
        return ir["min"] >= 1 and ends_at_boundary(g, ir["p"], bnd, depth + 1)
    if t == "ref":
        fb = g.deref(ir)
        b = single_body(fb)
        if b is not None:
            return ends_at_boundary(g, b, bnd, depth + 1)
        seqs = g.body_seq(fb)
        return bool(seqs) and ends_at_boundary(g, seqs[-1], bnd, depth + 1) and not g.nullable(seqs[-1])
    return False


def requires_boundary(g, ir, bnd):
    """`ir` is a guard that succeeds only if the next character is in bnd or at end of input
    (alternatives of: eof, a non-empty run / literal of boundary characters, peek of those)."""
    alts = flat_alts(ir)
    if not alts:
        return False
    for a in alts:
        a = unwrap(a)
        while a["t"] in ("value", "map"):
            a = unwrap(a["p"])
        if a["t"] == "eof":
            continue
        if a["t"] == "peek":
            if not requires_boundary(g, a["p"], bnd):
                return False
            continue
        if a["t"] == "set" and a["min"] >= 1 and peg.cs_subset(a["cs"], bnd):
            continue
        if a["t"] == "lit" and a["s"] and peg.cs_has(bnd, a["s"][0]):
            continue
        if a["t"] == "alt":
            if not requires_boundary(g, a, bnd):
                return False
            continue
        return False
    return True


def may_succeed_before(g, n, ch, depth=0):
    """May parser n succeed when the next input character is ch (input not exhausted)? Over-approximation."""
    n = unwrap(n)
    t = n["t"]
    if depth > 30:
        return True
    if t == "eof" or t == "fail":
        return False
    if t == "lit":
        return (not n["s"]) or n["s"][0] == ch
    if t == "set":
        return n["min"] == 0 or peg.cs_has(n["cs"], ch)
    if t == "alt":
        return any(may_succeed_before(g, a, ch, depth + 1) for a in n["alts"])
    if t == "seq":
        for i in n["items"]:
            if not may_succeed_before(g, i["p"], ch, depth + 1):
                return False
            if not g.nullable(i["p"]):
                return True
        return True
    if t in ("map", "value", "trymap", "fold", "verify", "peek"):
        return may_succeed_before(g, n["p"], ch, depth + 1)
    if t == "ref":
        b = single_body(g.deref(n))
        if b is not None:
            return may_succeed_before(g, b, ch, depth + 1)
    if g.nullable(n):
        return True
    return peg.cs_has(g.first(n), ch)


def example_tail(g):
    return "-print"


def run(c, facts, tier):
    spec = json.load(open(SPEC))
    b = peg.Builder(facts)
    g = peg.Grammar(b)
    an = Anchors(facts, b)
    from .. import glue

    glue.obligations(c, facts, b, "C05")
    from .. import report as _rep

    _rep.require(c, facts, "c08", "C05.arg-lang", "-perm", "the permission argument denotes the documented value", lambda o: o["rule"] in ("C08.who-perm", "C08.algebra", "C08.fold", "C08.octal", "C08.prefix"), "the value carried by Test::Perm is decided by the C08 rules")
    _rep.require(c, facts, "c14", "C05.arg-lang", "-printf/-fprintf", "the format argument is segmented as documented", lambda o: o["rule"] in ("C14.escapes", "C14.octal", "C14.other-backslash", "C14.directives", "C14.unknown", "C14.literals"), "the element list carried by the formatted print actions is decided by the C14 rules")
    _rep.require(c, facts, "c07", "C05.arg-lang", "numeric arguments", "numbers are read exactly", lambda o: o["rule"] == "C07.convert", "the numbers carried by the numeric tests and options are decided by the C07.convert rules")
    tokfn = an.role("token")
    lexfn = an.role("lex")
    scope = b.scope(facts.fn(tokfn).module)
    c.trusted = ["winnow 0.6.7 semantics in vlib/peg.py", "E1 extractor", "spec/vocabulary.json (find(1) + LiPE names)"]
    c.explanation = (
        "Keyword grammar analysis on the combinator IR of token(): vocabulary table agreement (keyword → AST variant and argument parser), ordered-choice "
        "shadowing of every prefix pair, word-boundary after every primary, whole-argument consumption of nested parses, argument sub-language tables, and "
        "cut placement. Each rule is a theorem about the extracted PEG, valid for every input."
    )
    c.decided = ["keyword→node mapping", "prefix/extension keywords", "argument languages (tables, signs, units, defaults)", "rejection of trailing junk (word boundary, nested parse)"]
    c.not_decided = ["numeric range (C07)", "permission semantics (C08)", "format segmentation (C14)"]
    alts = kw.alternatives(g, tokfn)
    c.analysed["token_alternatives"] = len(alts)
    blank = peg.named_set("multispace")
    bnd = peg.cs_union(blank, peg.cs_in(")"))

    # ------------------------------------------------------------ C05.vocab
    voc = spec["keywords"]
    catenum = {"test": "Test", "action": "Action", "global": "GlobalOption", "positional": "PositionalOption"}
    seen = {}
    prim = []
    for a in alts:
        if a.lit is None:
            continue
        ctor = kw.ctor_of_transform(a, scope)
        if ctor is None or ctor.split("::")[0] == "Token":
            continue  # operator / punctuation words: C01.lex-ops
        prim.append(a)
        fr = kw.flatten_rest(g, a.rest)
        argp = [x for x in fr if x["keep"]]
        argsem = ",".join(args.arg_sem(g, x["n"], scope) for x in argp) if argp else None
        if argp and all(never_succeeds(g, x["n"]) for x in argp):
            argsem = "<rejected>"
        seen.setdefault(a.lit, []).append((ctor, argsem, a))
    for k, want in voc.items():
        got = seen.get(k)
        if not got:
            c.ob("C05.vocab", tokfn, k, False, "keyword %r of the vocabulary has no alternative in the grammar" % k, witness=k)
            continue
        ctor, argsem, a = got[0]
        ok = ctor == want["variant"] and argsem == want["arg"]
        c.ob(
            "C05.vocab",
            a.site,
            k,
            ok,
            "%r builds %s with argument parser %s; vocabulary: %s with %s" % (k, ctor, argsem, want["variant"], want["arg"]),
            witness="%s%s" % (k, " <arg>" if want["arg"] else "") if not ok else None,
            facts={"keyword": k, "ctor": ctor, "arg": argsem},
        )
    for k, got in seen.items():
        if k not in voc:
            c.ob("C05.vocab", got[0][2].site, k, False, "keyword %r is accepted by the grammar but is not in the vocabulary (builds %s)" % (k, got[0][0]), witness=k)
        if len(got) > 1:
            c.ob("C05.shadow", got[1][2].site, "%s (duplicate)" % k, False, "keyword %r appears in %d alternatives; the later ones are dead" % (k, len(got)))
    # payload order for multi-argument keywords: closure |(f, t)| Ctor(f, t)
    for a in prim:
        if a.maps and a.maps[0]["k"] == "closure":
            f = a.maps[0]
            ps = []
            for p in rx.closure_params(f):
                ps += rx.pat_bindings(p)
            chain, cargs = rx.ctor_chain(rx.closure_body(f))
            okp = cargs is not None and [rx.var_name(x) for x in cargs] == ps
            c.ob("C05.vocab", a.site, "%s argument order" % a.lit, okp, "closure parameters %s are passed to %s as %s" % (ps, chain, [src(x) for x in (cargs or [])]))
    # the node built by the table reaches the caller through the precedence pass, which copies tokens and sub-trees
    # (`init.clone()`, `.to_owned()`): the copy is the node only if Clone is the derived, field-by-field one
    from .. import valuetraits as _vt

    cp_ = _vt.clone_problems(facts)
    c.ob("C05.vocab", "ast", "the node built for a keyword is copied faithfully on its way out (derived Clone on token and tree types)", not cp_, "not derived / hand-written: %s" % cp_ if cp_ else "Clone is derived on %d token and tree types" % len(_vt.AST_TYPES), witness="-fprint0 out" if cp_ else None, nontrivial=False)

    # ------------------------------------------------------------ C05.shadow
    npairs = 0
    lits = [a for a in alts if a.lit is not None]
    for i, ai in enumerate(lits):
        for aj in lits[i + 1 :]:
            if ai.lit == aj.lit:
                continue
            if ai.lit.startswith(aj.lit):
                npairs += 1
                c.ob("C05.shadow", ai.site, "%s before %s" % (ai.lit, aj.lit), True, "the longer literal %r is tried before its prefix %r" % (ai.lit, aj.lit))
                continue
            if not aj.lit.startswith(ai.lit):
                continue
            npairs += 1
            nxt = aj.lit[len(ai.lit)]
            inst = "%s before %s" % (ai.lit, aj.lit)
            if ai.commit is not None and ai.commit == aj.commit:
                c.ob("C05.shadow", ai.site, inst, False, "both literals are alternatives of one committed choice: once %r matches, %r is never tried" % (ai.lit, aj.lit), witness=aj.lit)
                continue
            fr = kw.flatten_rest(g, ai.rest)
            if not fr:
                c.ob("C05.shadow", ai.site, inst, False, "%r has no follow guard: on input %r it succeeds and %r is never tried" % (ai.lit, aj.lit, aj.lit), witness=aj.lit)
                continue
            head = fr[0]
            ok = (not head["cut"]) and not may_succeed_before(g, head["n"], nxt)
            why = "follow of %r is %s (%s); next character of %r is %r" % (ai.lit, peg.show(head["n"]), "under cut: failure is a hard error" if head["cut"] else "backtracks on failure", aj.lit, nxt)
            c.ob("C05.shadow", ai.site, inst, ok, why, witness=aj.lit if not ok else None)
    c.analysed["prefix_pairs"] = npairs

    # ------------------------------------------------------------ C05.boundary
    # what follows a token inside lex: blank* then token|eof — so the boundary must be established by the alternative itself
    tok_fb = b.fn_ir(tokfn)
    # a guard applied at token level to whole categories (e.g. terminated(Test::parse, peek(boundary)))
    for a in prim:
        seq_ir = {"t": "seq", "l": None, "items": [{"p": {"t": "lit", "l": None, "s": a.lit}, "keep": True}] + [{"p": r["n"], "keep": r["keep"]} for r in a.rest]}
        if never_succeeds(g, seq_ir):
            c.ob("C05.boundary", a.site, a.lit, True, "%r is always rejected with an error: nothing can follow it" % a.lit, nontrivial=False)
            continue
        ok = ends_at_boundary(g, seq_ir, bnd)
        wit = None
        if not ok:
            fr = kw.flatten_rest(g, a.rest)
            wit = "%s%s-print" % (a.lit, "".join(" " + (example_arg(g, x["n"]) or "x") for x in fr if x["keep"]))
        c.ob(
            "C05.boundary",
            a.site,
            a.lit,
            ok,
            "after %r%s the next character must be blank, ')' or end of input; the alternative %s" % (a.lit, " and its argument" if a.rest else "", "guarantees it" if ok else "can stop in front of any character, so a longer word is split into two primaries"),
            witness=wit,
        )

        # a primary with several argument words: every word but the last must end at a word boundary as well (`-xattr-match 'a'b`
        # is one malformed word, not the two arguments `a` and `b`): what stands between two arguments proves a blank was there
        fr = kw.flatten_rest(g, a.rest)
        kept = [i_ for i_, x in enumerate(fr) if x["keep"]]
        for n_, (i_, j_) in enumerate(zip(kept, kept[1:])):
            pre = {"t": "seq", "l": None, "items": [{"p": {"t": "lit", "l": None, "s": a.lit}, "keep": True}] + [{"p": x["n"], "keep": x["keep"]} for x in fr[:j_]]}
            ok_w = ends_at_boundary(g, pre, bnd)
            c.ob(
                "C05.boundary",
                a.site,
                "%s: argument %d ends at a word boundary" % (a.lit, n_ + 1),
                ok_w,
                "between argument %d and argument %d of %r stands %s; %s" % (n_ + 1, n_ + 2, a.lit, ", ".join(peg.show(x["n"]) for x in fr[i_ + 1 : j_]) or "nothing", "at least one blank is required there" if ok_w else "the first argument can stop in front of any character (a closing quote), so one malformed word is read as two arguments"),
                witness="%s 'a'b" % a.lit if not ok_w else None,
            )

    # the leading-options pass applies the option parser outside token(): same obligation there
    from . import c06 as _c06

    lead = _c06.leading_pass(b, facts.fn(an.role("parse_inner")))
    lead_ok, lead_det = None, "leading pass not found"
    if lead is not None:
        reps = []
        g.walk(lead, lambda n: reps.append(n) if n["t"] == "rep" else None, follow=False)
        if reps:
            item = unwrap(reps[0]["p"])
            # item = seq[<option [guard]>, ~blank*]: the part before the trailing blank skip must end at a boundary
            head = item["items"][0]["p"] if item["t"] == "seq" and item["items"] else item
            lead_ok = ends_at_boundary(g, head, bnd)
            lead_det = "each leading option is parsed by %s" % peg.show(head)
    c.ob("C05.boundary", an.role("parse_inner"), "leading options end at a word boundary", lead_ok, lead_det, witness="-depth-print" if lead_ok is False else None)

    # ------------------------------------------------------------ C05.whole-arg
    nested = []
    for fn in facts.nontest_fns():
        if fn.module[:1] != ("find_parser",):
            continue
        try:
            fb = b.fn_ir(fn.key)
        except F.AnchorMissing:
            continue
        g.walk(fb, lambda n, k=fn.key: nested.append((k, n)) if n["t"] == "andthen" else None, follow=False)
    for k, n in nested:
        ok = consumes_all(g, n["inner"])
        inner_name = args.arg_sem(g, n["inner"], scope)
        c.ob(
            "C05.whole-arg",
            k,
            "and_then(%s)" % inner_name,
            ok,
            "nested parse of a delimited word by %s %s (winnow's and_then does not require the inner parser to reach the end of the slice)" % (inner_name, "always consumes the whole word or fails" if ok else "may stop early: the unparsed tail of the word is silently dropped"),
            witness=("-perm 777x" if "Perm" in inner_name else None) if not ok else None,
        )
        pad = end_padding(g, n["inner"])
        if pad:
            c.ob("C05.whole-arg", k, "and_then(%s): the word is the argument, nothing more" % inner_name, False, "before the end of the word the nested parse also accepts %s: a word with that tail is taken although it is not in the argument language" % pad, witness="-perm '644 '" if "Perm" in inner_name else None)
    c.analysed["nested_parses"] = len(nested)

    # ------------------------------------------------------------ C05.cut
    for a in prim:
        fr = kw.flatten_rest(g, a.rest)
        if not any(x["keep"] for x in fr):
            continue
        # a leading look-ahead (the keyword must end at a word boundary) consumes nothing and is rightly outside the cut
        while fr and not fr[0]["keep"] and g.open(fr[0]["n"])["t"] == "peek":
            fr = fr[1:]
        lastkept = max(i for i, x in enumerate(fr) if x["keep"])
        ok = all(x["cut"] for x in fr[: lastkept + 1])
        c.ob("C05.cut", a.site, a.lit, ok, "blank and argument after %r are %s" % (a.lit, "under cut_err" if ok else "not all under cut_err: a bad argument can fall through to another alternative"))

    # ------------------------------------------------------------ C05.shape: nothing but parser applications in parser functions
    nshape = 0
    from . import c06 as _c06

    _inlined = set(_c06.inner_summary(b, facts.fn(an.role("parse_inner"))).inlined)
    for key, fn in sorted(facts.fns.items()):
        if fn.test or fn.module[:1] != ("find_parser",) or not F.norm_ty(fn.node["output"]).startswith("PResult<") or key in b.template_fns():
            continue  # (a template is examined through each of its instances)
        if (fn.node.get("generics") or "").strip("<> ") or (fn.impl is not None and (fn.impl.get("generics") or "").strip("<> ")):
            continue  # generic parsers are checked through their instantiations (reachability walk below)
        if key == an.role("parse_inner") or key in _inlined:
            continue  # the inner parse function (and the helpers it is split into) is imperative; its statements are checked one by one by C06.empty / C13.* on the summary, which fails closed on anything it does not understand
        fb = b.fn_ir(key)
        nshape += 1
        extra = [src(x)[:70] for x in fb.get("unknown", [])]
        # pure lets are allowed only when every bound name is used solely to compute the returned value
        lets = [src(x)[:70] for x in fb.get("lets", [])]
        opq = [o.get("src", "")[:50] for o in g.opaque_nodes(fb, follow=False)]
        ok = not extra and not opq
        c.ob("C05.shape", key, "body is a composition of modelled parsers", ok if ok else None, "unrecognised statements %s; unmodelled parser expressions %s; value-level lets %s" % (extra, opq, lets), nontrivial=False)
    reach_opq = [o.get("src", "")[:50] for o in g.opaque_nodes(b.fn_ir(tokfn), follow=True)]
    c.ob("C05.shape", tokfn, "every parser reachable from token() is modelled (generic instantiations included)", not reach_opq, "unmodelled: %s" % reach_opq if reach_opq else "no opaque node in the grammar reachable from token()", nontrivial=False)
    c.floor("parser functions", nshape, 15)
    # ------------------------------------------------------------ C05.arg-lang
    arg_lang(c, facts, b, g, spec, scope, prim)
    c.floor("keyword alternatives", len(prim), 56)
    c.floor("prefix pairs", npairs, 11)
    # nested parses that can *yield a value* (the ones that only raise an error on a delimited word can be written without
    # and_then — a look-ahead followed by the error — and then have nothing to consume)
    def _only_fails(n_):
        while n_["t"] in ("cut", "ctx"):
            n_ = n_["p"]
        return n_["t"] == "fail"

    c.floor("nested parses", len([1 for _, n_ in nested if not _only_fails(n_["inner"])]), 2)  # the format word and the permission word, however often they are written
    # positive control: a nullary literal does not end at a boundary
    c.control("C05.boundary", not ends_at_boundary(g, {"t": "lit", "l": None, "s": "-empty"}, bnd), "fixture literal('-empty') is reported as unbounded")
    c.control("C05.whole-arg", not consumes_all(g, {"t": "set", "l": None, "cs": peg.cs_in("01234567"), "min": 3, "max": None}), "fixture take_while(3.., octal) is reported as partial")


def example_arg(g, n):
    n = unwrap(n)
    s = args.arg_sem(g, n, {})
    if s.startswith("cmp(TimeSpec"):
        return "3"
    if s.startswith("cmp(Size"):
        return "3k"
    if s.startswith("cmp("):
        return "5"
    if s in ("u32", "u64"):
        return "5"
    if s == "Vec<FileType>":
        return "f"
    if "PermCheck" in s:
        return "644"
    if "FormatElement" in s:
        return "'%p'"
    return '"x"'


def arg_lang(c, facts, b, g, spec, scope, prim):
    # collect argument parser refs reachable from the primaries
    refs = {}

    def note(n):
        if n["t"] == "ref":
            refs[(n["fn"], tuple(sorted((n.get("targs") or {}).items())))] = n

    for a in prim:
        for r in a.rest:
            g.walk(r["n"], note)
    # 1. comparison sign tables
    ncmp = 0
    for key, n in sorted(refs.items()):
        fb = g.deref(n)
        cs = args.comparison_shape(g, fb, scope)
        if cs is None or set(cs["table"]) != {"+", "-", ""}:
            continue
        ncmp += 1
        inst = "%s%s" % (n["fn"].split("::")[-1] if not n["fn"].startswith("<") else n["fn"], "<%s>" % ",".join("%s=%s" % kv for kv in key[1]) if key[1] else "")
        c.ob("C05.arg-lang", n["fn"], "sign table %s" % inst, cs["table"] == spec["signs"], "extracted %s; reference %s" % (cs["table"], spec["signs"]))
        c.ob("C05.arg-lang", n["fn"], "bare form last %s" % inst, cs["order"][-1] == "" and len(cs["order"]) == 3, "alternative order %s (a bare number must be tried after the signed forms)" % cs["order"])
        same = {args.arg_sem(g, i, scope) for i in cs["inners"]}
        c.ob("C05.arg-lang", n["fn"], "same operand parser under every sign %s" % inst, len(same) == 1 and all(cs["into"]), "operand parsers %s; value passed through unchanged: %s" % (sorted(same), cs["into"]))
    c.analysed["comparison_instances"] = ncmp

    # the default-unit wrappers hand their TimeSpec over unchanged
    for key, fn in sorted(facts.fns.items()):
        if fn.test or fn.name != "into" or fn.impl is None or "Into<" not in (fn.impl.get("trait") or ""):
            continue
        t = rx.tail_expr(fn.body)
        ok = t is not None and len(fn.body["stmts"]) == 1 and t["k"] == "field" and rx.is_var(t["e"], "self") and t["name"] == "0"
        c.ob("C05.arg-lang", key, "conversion is the identity on the wrapped value", ok, "into() = `%s`" % (src(t) if t is not None else "?"))
    for key, fn in sorted(facts.fns.items()):
        m_ = re.match(r"<(\w+) as From<(\w+)(<.*>)?>>::from$", key)
        if fn.test or not m_ or m_.group(2) not in facts.structs or m_.group(1) not in facts.enums:
            continue
        # the same conversion written as `impl From<Wrapper> for TimeSpec`
        t = rx.tail_expr(fn.body)
        pn = fn.params[0][0] if fn.params else None
        ok = t is not None and len(fn.body["stmts"]) == 1 and t["k"] == "field" and rx.is_var(t["e"], pn) and t["name"] == "0"
        c.ob("C05.arg-lang", key, "conversion is the identity on the wrapped value", ok, "from() = `%s`" % (src(t) if t is not None else "?"))
    # 2. unit tables (Size, TimeSpec), file types
    def unit_rule(tyname, want_table, want_default, label):
        found = None
        for key, n in refs.items():
            if args.type_of_key(n["fn"], {}) == tyname and " as " in n["fn"]:
                found = n
        if found is None:
            c.ob("C05.arg-lang", tyname, "%s parser present" % label, None, "no parser for %s reachable from the keyword grammar" % tyname)
            return
        fb = g.deref(found)
        body = single_body(fb)
        if body is None:
            c.ob("C05.arg-lang", found["fn"], "%s shape" % label, None, "body not a single parser expression")
            return
        guard = None
        while body["t"] in ("verify", "trymap") and unwrap(body["p"])["t"] == "alt":
            guard = body
            body = unwrap(body["p"])
        live = [a for a in flat_alts(body) if not never_succeeds(g, a)]
        unit_alt, default_alt = None, None
        fmod = tuple(facts.fns[found["fn"]].module)
        for a in live:
            a, amod = args.open_alt(g, a, facts)
            if a["t"] == "map" and unwrap(a["p"])["t"] == "seq":
                unit_alt = (a, amod or fmod)
            elif a["t"] == "map":
                default_alt = a
        ok_units = None
        detail = "no unit alternative found"
        if unit_alt is not None:
            vt = args.value_table(g, facts, unit_alt[0], scope, unit_alt[1])
            if vt is not None and vt["numbered"]:
                ok_units = vt["table"] == want_table and vt["chars"] == "".join(sorted(want_table)) and vt["payload_ok"] and vt["one"] and not vt["problems"]
                detail = "unit characters %r, table %s, count passed unchanged: %s%s; reference %s" % (vt["chars"], vt["table"], vt["payload_ok"], ("; " + "; ".join(vt["problems"][:3])) if vt["problems"] else "", want_table)
        c.ob("C05.arg-lang", found["fn"], "%s unit table" % label, ok_units, detail)
        okd = None
        dd = "no default alternative found"
        if default_alt is not None:
            f = default_alt["f"]
            d = rx.path_str(f)
            if want_default == "<param>":
                okd = f["k"] == "path" and len(f["segs"]) == 1 and any(nm == f["segs"][0] for nm, _ in facts.fn(found["fn"]).params)
                dd = "unit-less number is mapped by the caller-supplied default %s" % src(f)
            else:
                okd = d is not None and rx.canon_path(d, scope) == want_default
                dd = "unit-less number is mapped by %s; reference %s" % (src(f), want_default)
        c.ob("C05.arg-lang", found["fn"], "%s default unit" % label, okd, dd)
        c.ob("C05.arg-lang", found["fn"], "%s has exactly unit/default forms" % label, len(live) == 2, "%d alternatives can succeed: %s" % (len(live), [peg.show(x)[:50] for x in live]))

    unit_rule("Size", spec["size_units"], spec["size_default"], "size")
    unit_rule("TimeSpec", spec["time_units"], "<param>", "time")
    # file types
    ft = None
    for key, n in refs.items():
        if args.type_of_key(n["fn"], {}) == "Vec<FileType>":
            ft = n
    if ft is None:
        c.ob("C05.arg-lang", "Vec<FileType>", "type list parser present", None, "not found")
    else:
        body = single_body(g.deref(ft))
        ok = body is not None and body["t"] == "sep" and body["min"] == 1 and body["max"] is None and unwrap(body["sep"])["t"] == "lit" and unwrap(body["sep"])["s"] == ","
        c.ob("C05.arg-lang", ft["fn"], "type list = one or more letters separated by ','", ok, "shape: %s" % (peg.show(body) if body else "?"))
        if ok:
            ib = single_body(g.deref(unwrap(body["p"])))
            live = [unwrap(a) for a in flat_alts(ib) if not never_succeeds(g, a)] if ib else []
            okt = None
            det = "letter alternative not recognised"
            if live and all(x_["t"] == "value" and unwrap(x_["p"])["t"] == "lit" and len(unwrap(x_["p"])["s"]) == 1 and x_.get("v") is not None and rx.path_str(x_["v"]) for x_ in live):
                # one alternative per letter, each with its constant (also what a constant-valued verify_map table becomes)
                tab_ = {}
                dup_ = []
                for x_ in live:
                    ch_ = unwrap(x_["p"])["s"]
                    if ch_ in tab_:
                        dup_.append(ch_)
                    tab_.setdefault(ch_, rx.canon_path(rx.path_str(x_["v"]), scope))
                okt = tab_ == spec["file_types"] and not dup_
                det = "letters %r → %s; reference %s" % ("".join(sorted(tab_)), tab_, spec["file_types"])
            elif len(live) == 1 and live[0]["t"] == "map":
                vt = args.value_table(g, facts, live[0], scope, tuple(facts.fns[unwrap(body["p"])["fn"]].module))
                if vt is not None and not vt["numbered"]:
                    okt = vt["table"] == spec["file_types"] and vt["chars"] == "".join(sorted(spec["file_types"].keys())) and vt["one"] and not vt["problems"]
                    det = "letters %r → %s%s; reference %s" % (vt["chars"], vt["table"], ("; " + "; ".join(vt["problems"][:3])) if vt["problems"] else "", spec["file_types"])
            c.ob("C05.arg-lang", unwrap(body["p"])["fn"], "type letter table", okt, det)


