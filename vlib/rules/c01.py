"""C01 — operator grammar: isomorphism of the extracted token-level PEG with the reference stratified
grammar (spec/grammar.json), left folds, whole-input consumption, LL(1) choice points, operator lexing."""
import json
import os

from .. import facts as F
from .. import peg, rx
from ..anchors import Anchors
from ..facts import src

SPEC = os.path.join(F.VERIF, "spec", "grammar.json")


def unwrap(ir):
    """Drop ctx/cut wrappers: they change neither the accepted language nor the value on success."""
    while ir["t"] in ("ctx", "cut"):
        ir = ir["p"]
    return ir


def flat_alts(ir):
    ir = unwrap(ir)
    if ir["t"] == "alt":
        out = []
        for a in ir["alts"]:
            out += flat_alts(a)
        return out
    return [ir]


class TokAnalysis:
    """FIRST sets over token classes for token-level IR (success-first: tokens on which the parser may succeed)."""

    def __init__(self, g, tokens):
        self.g = g
        self.all = frozenset(tokens)
        self.memo = {}

    def can_succeed(self, ir, depth=0):
        t = ir["t"]
        if t == "fail":
            return False
        if t == "seq":
            return all(self.can_succeed(i["p"], depth + 1) for i in ir["items"])
        if t == "alt":
            return any(self.can_succeed(a, depth + 1) for a in ir["alts"])
        if t in ("cut", "ctx", "map", "value", "fold", "trymap"):
            return self.can_succeed(ir["p"], depth + 1)
        if t == "tokset":
            return bool(ir["toks"])
        return True

    def first(self, ir, depth=0):
        if depth > 40:
            return self.all
        t = ir["t"]
        if not self.can_succeed(ir):
            return frozenset()
        if t == "tokset":
            return (self.all - frozenset(ir["toks"])) if ir.get("neg") else frozenset(ir["toks"])
        if t == "any":
            return self.all
        if t in ("eof", "fail"):
            return frozenset()
        if t == "seq":
            out = frozenset()
            for i in ir["items"]:
                out |= self.first(i["p"], depth + 1)
                if not self.g.nullable(i["p"]):
                    break
            return out
        if t == "alt":
            out = frozenset()
            for a in ir["alts"]:
                out |= self.first(a, depth + 1)
            return out
        if t in ("rep", "sep", "cut", "ctx", "map", "value", "fold", "trymap"):
            return self.first(ir["p"], depth + 1)
        if t == "reptill":
            return self.first(ir["p"], depth + 1) | self.first(ir["stop"], depth + 1)
        if t == "ref":
            key = ir["fn"]
            if key in self.memo:
                return self.memo[key]
            self.memo[key] = frozenset()  # least fixpoint seed (left recursion would show as empty)
            v = self.first(self.g.deref(ir), depth + 1)
            self.memo[key] = v
            return v
        if t == "fnbody":
            out = frozenset()
            for p in self.g.body_seq(ir):
                out |= self.first(p, depth + 1)
                if not self.g.nullable(p):
                    break
            return out
        return self.all


def level_shape(b, g, fb, scope):
    """Recognise `let init = OPERAND.parse_next(input)?; repeat(0.., BODY).fold(|| init.clone(), |acc,val| CTOR(acc,val))`.
    Returns (info, None) or (None, reason)."""
    if fb["t"] != "fnbody" or fb["unknown"] or fb["lets"]:
        return None, "function body has statements outside the recognised shape"
    if len(fb["steps"]) != 1 or fb["tail"] is None:
        return None, "expected one operand step followed by a folded repetition"
    step = fb["steps"][0]
    op0 = unwrap(step["p"])
    if op0["t"] != "ref" or step["pat"]["k"] != "ident":
        return None, "first operand is not a call of a level parser"
    initname = step["pat"]["name"]
    tail = unwrap(fb["tail"])
    if tail["t"] != "fold":
        return None, "repetition is not folded"
    rep = unwrap(tail["p"])
    if rep["t"] != "rep":
        return None, "fold is not over repeat()"
    info = {"operand": op0["fn"], "rep_min": rep["min"], "rep_max": rep["max"], "initname": initname}
    # init closure: move || init.clone()
    ini = tail["init"]
    info["init_ok"] = ini["k"] == "closure" and not ini["params"] and rx.is_var(rx.closure_body(ini), initname)
    # step closure
    st = tail["step"]
    info["step_ctor"] = None
    if st["k"] == "closure" and len(st["params"]) == 2:
        ps = [p.get("name") for p in rx.closure_params(st)]
        chain, args = rx.ctor_chain(rx.closure_body(st))
        if chain and args is not None:
            info["step_ctor"] = [rx.canon_path(x, scope) for x in chain]
            info["step_args"] = [rx.var_name(a) for a in args]
            info["step_params"] = ps
    # body alternatives
    alts = flat_alts(rep["p"])
    info["explicit"] = []
    info["implicit"] = []
    info["other"] = []
    for a in alts:
        a = unwrap(a)
        if a["t"] == "seq" and len(a["items"]) == 2 and not a["items"][0]["keep"] and a["items"][1]["keep"]:
            s0, o1 = unwrap(a["items"][0]["p"]), unwrap(a["items"][1]["p"])
            if s0["t"] == "tokset" and not s0.get("neg") and o1["t"] == "ref":
                info["explicit"].append((tuple(s0["toks"]), o1["fn"]))
                continue
        if a["t"] == "ref":
            info["implicit"].append(a["fn"])
            continue
        info["other"].append(peg.show(a))
    return info, None


def run(c, facts, tier):
    spec = json.load(open(SPEC))
    b = peg.Builder(facts)
    g = peg.Grammar(b)
    an = Anchors(facts, b)
    c.trusted = [
        "winnow 0.6.7 combinator semantics as encoded in vlib/peg.py (ordered choice with reset on Backtrack, cut_err, repeat/repeat_till/fold)",
        "E1 extractor (syn 2 parse of the working tree, own macro_rules expansion)",
        "spec/grammar.json is the reference grammar of find(1)",
    ]
    c.explanation = (
        "Grammar isomorphism: the token-level PEG extracted from precedence.rs is compared, obligation by obligation, with the reference "
        "stratified grammar E→O(','O)* O→A('-o'A)* A→T(('-a')?T)* T→primary|'!'T|'('E')' with left folds; plus LL(1)-disjointness of every choice "
        "point (so ordered choice = CFG derivation), whole-input consumption, and the operator-word lexing in token()/lex(). Holds for token "
        "sequences of any length: the rules are theorems about the extracted term, not samples."
    )
    c.decided = ["precedence levels", "associativity (left folds)", "node per operator", "implicit AND", "'!' binds tightest", "parentheses leave no node", "exact acceptance / whole input", "operator word lexing with follow guard"]
    c.not_decided = ["recognition of primaries and their arguments (C05)"]
    tokens = facts.variants(spec["token_enum"])
    ta = TokAnalysis(g, tokens)
    entry = an.role("prec_entry")
    scope = b.scope(facts.fn(entry).module)
    site0 = entry

    # ---------------------------------------------------------------- C01.whole (entry)
    fb = b.fn_ir(entry)
    start = None
    detail = ""
    ok = None
    if fb["unknown"] or fb["lets"]:
        detail = "entry function has statements outside the recognised shape: %s" % [src(s)[:80] for s in fb["unknown"] + fb["lets"]]
    else:
        seqs = g.body_seq(fb)
        p0 = unwrap(seqs[0]) if seqs else None
        proj_ok = True
        had_proj = False
        while p0 is not None and p0["t"] == "map":
            had_proj = True
            p0 = unwrap(p0["p"])
        # what the entry function returns, evaluated (vlib/irval.py) with the repetition having collected two unknown
        # expressions (and one): it must be the first of them, whichever way the projection is written (a `.map` on the
        # parser, on the Result, or statements after the `?`)
        from .. import probe as P, irval

        rt_node = p0 if p0 is not None and p0["t"] == "reptill" else None
        if rt_node is not None:
            for n_el in (1,):
                els = [P.Opq("expression%d" % i_) for i_ in range(n_el)]

                class EC(irval.Ctx):
                    def rep(self, node):
                        if node["t"] == "reptill":
                            return [list(els), ()]
                        raise P.NoEval("unexpected repetition")

                try:
                    rv_ = irval.run_parser_fn(facts.fn(entry), EC(facts, b, facts.fn(entry).module))
                    rv_ = rv_[1] if isinstance(rv_, tuple) and rv_ and rv_[0] == "ok" else rv_
                    if rv_ is not els[0]:
                        proj_ok = False
                except (P.NoEval, P.Panic):
                    proj_ok = False
        if p0 is not None and p0["t"] == "reptill":
            stop = unwrap(p0["stop"])
            item = unwrap(p0["p"])
            if item["t"] == "ref":
                start = item["fn"]
            if stop["t"] != "eof":
                ok, detail = False, "repeat_till terminator is %s, not eof: success no longer implies the whole token list was consumed" % peg.show(stop)
            elif p0["min"] < 1:
                ok, detail = False, "repeat_till lower bound is %d: an empty token list would be accepted" % p0["min"]
            elif item["t"] != "ref":
                ok, detail = None, "repeated item is not a level parser"
            elif not proj_ok:
                ok, detail = None, "projection after repeat_till is not the collected list"
            else:
                # the value returned: out.first() / last / [0] of the collected vector
                ret = fb["ret"]
                acc_ok = False
                outname = None
                if len(fb["steps"]) == 1:
                    pt = fb["steps"][0]["pat"]
                    while pt["k"] in ("typed", "ref"):
                        pt = pt["pat"]
                    if pt["k"] == "ident" and had_proj:
                        outname = pt["name"]
                    elif pt["k"] == "tuple" and len(pt["elems"]) == 2 and not had_proj:
                        # `let (list, _end) = repeat_till(..).parse_next(input)?`: the first component is the collected list
                        e0 = pt["elems"][0]
                        while e0["k"] in ("typed", "ref"):
                            e0 = e0["pat"]
                        outname = e0.get("name") if e0["k"] == "ident" else None
                if ret is not None and outname is not None:
                    base, chain = rx.method_chain(rx.peel(ret))
                    ms = [m for m, _, _ in chain if m not in ("unwrap", "to_owned", "clone", "?", "cloned", "expect")]
                    if rx.is_var(base, outname) and ms in (["first"], ["last"], ["pop"], ["into_iter", "next"], ["iter", "next"]):
                        acc_ok = True
                    if base["k"] == "index" and rx.is_var(base["e"], outname) and rx.int_const(base["idx"]) == 0:
                        acc_ok = True
                acc_ok = acc_ok or (proj_ok and rt_node is not None)  # evaluated above: the one collected expression is returned
                ok = True if acc_ok else None
                detail = "entry = repeat_till(%d.., %s, eof); result is an element of the (single-element, see C01.single-pass) list" % (p0["min"], start) if acc_ok else "returned value is not recognisably an element of the collected list: %s" % src(ret)
        elif p0 is not None and p0["t"] == "seq":
            its = [unwrap(i["p"]) for i in p0["items"]]
            if len(its) == 2 and its[0]["t"] == "ref" and its[1]["t"] == "eof" and p0["items"][0]["keep"] and not p0["items"][1]["keep"]:
                start = its[0]["fn"]
                ok, detail = True, "entry = terminated(%s, eof)" % start
            else:
                ok, detail = False, "entry sequence does not end in eof: %s" % peg.show(p0)
        elif p0 is not None and p0["t"] == "ref":
            start = p0["fn"]
            ok, detail = False, "entry applies %s without requiring end of input: a prefix of the token list would be returned as the result" % start
        else:
            detail = "entry shape not recognised: %s" % (peg.show(p0) if p0 else "empty")
    c.ob("C01.whole", site0, "success implies eof", ok, detail, witness="-true )" if ok is False else None, facts={"ir": peg.show(fb)})
    if start is None:
        raise F.AnchorMissing("start level of the precedence grammar (entry %s)" % entry)

    # ---------------------------------------------------------------- levels
    levels = []
    cur = start
    seen = set()
    atom = None
    for depth in range(8):
        if cur in seen:
            break
        seen.add(cur)
        info, why = level_shape(b, g, b.fn_ir(cur), scope)
        if info is None:
            atom = cur
            break
        info["fn"] = cur
        levels.append(info)
        cur = info["operand"]
    c.analysed["levels"] = [l["fn"] for l in levels]
    c.analysed["atom"] = atom
    want = spec["levels"]
    c.ob(
        "C01.levels",
        start,
        "number of binary levels",
        len(levels) == len(want),
        "extracted %d binary levels %s, reference has %d (%s)" % (len(levels), [l["fn"].split("::")[-1] for l in levels], len(want), ", ".join(w["sep"] for w in want)),
    )
    opn = spec["op_enum"]
    for i, lv in enumerate(levels):
        site = lv["fn"]
        w = want[i] if i < len(want) else None
        seps = sorted({t for ts, _ in lv["explicit"] for t in ts})
        # binds-tighter order: separator of level i must be the reference one
        c.ob(
            "C01.levels",
            site,
            "separator at depth %d" % i,
            w is not None and seps == [w["sep"]],
            "level %d separates on %s; reference: %s (order ',' < -o < -a: a level's operands are parsed by the next tighter level %s)" % (i, seps, w["sep"] if w else "none", lv["operand"]),
            witness=None,
        )
        # operands identical
        ops = {lv["operand"]} | {o for _, o in lv["explicit"]} | set(lv["implicit"])
        c.ob(
            "C01.levels",
            site,
            "first and repeated operands are the same parser",
            len(ops) == 1,
            "operands used: %s" % sorted(ops),
        )
        c.ob("C01.levels", site, "no unrecognised alternative in the loop", not lv["other"], "unrecognised loop alternatives: %s" % lv["other"])
        c.ob("C01.levels", site, "loop is repeat(0..)", lv["rep_min"] == 0 and lv["rep_max"] is None, "repeat range is %s..%s" % (lv["rep_min"], lv["rep_max"]))
        # node
        ctor = lv.get("step_ctor")
        node_ok = None
        if ctor:
            node_ok = w is not None and ctor[-1] == "%s::%s" % (opn, w["node"]) and ctor[0] == "%s::Operator" % spec["expr_enum"]
        c.ob(
            "C01.node",
            site,
            "%s builds %s" % ("/".join(seps) or "?", w["node"] if w else "?"),
            node_ok,
            "fold step constructs %s; reference node for %s is %s::%s" % (ctor, seps, opn, w["node"] if w else "?"),
        )
        # left fold
        left_ok = None
        if ctor:
            left_ok = bool(lv["init_ok"]) and lv.get("step_args") == lv.get("step_params") and len(lv.get("step_params") or []) == 2
        c.ob(
            "C01.left",
            site,
            "fold(init = first operand, step = Ctor(acc, val))",
            left_ok,
            "init closure returns the first operand: %s; step params %s, constructor args %s (acc must come first: left association)" % (lv["init_ok"], lv.get("step_params"), lv.get("step_args")),
            witness="-true %s -false %s -true groups to the right" % ((w or {}).get("sep"), (w or {}).get("sep")) if left_ok is False else None,
        )
        # implicit and
        if w is not None:
            if w["implicit"]:
                c.ob(
                    "C01.implicit-and",
                    site,
                    "juxtaposition alternative present and equal to the explicit operand",
                    len(lv["implicit"]) == 1 and lv["implicit"][0] == lv["operand"] and len(lv["explicit"]) == 1,
                    "implicit alternatives: %s, explicit: %s" % (lv["implicit"], lv["explicit"]),
                    witness="-true -false" if not lv["implicit"] else None,
                )
            else:
                c.ob("C01.implicit-and", site, "no juxtaposition at this level", not lv["implicit"], "level %s must not accept juxtaposition; found %s" % (w["sep"], lv["implicit"]))

    # ---------------------------------------------------------------- atom
    if atom is None:
        raise F.AnchorMissing("atom level of the precedence grammar")
    afb = b.fn_ir(atom)
    if afb["steps"] or afb["tail"] is None or afb["unknown"] or afb["lets"]:
        c.ob("C01.atom", atom, "atom is a single ordered choice", None, "atom body not in the recognised shape")
        return
    alts = flat_alts(afb["tail"])
    kinds = {"primary": [], "not": [], "parens": [], "dead": [], "other": []}
    prim = spec["primary"]
    for a in alts:
        a0 = unwrap(a)
        if not ta.can_succeed(a0):
            kinds["dead"].append(a0)
            continue
        if (a0["t"] == "map" and unwrap(a0["p"])["t"] == "tokset") or (a0["t"] == "tokset" and a0.get("vmap") is not None):
            kinds["primary"].append(a0)
            continue
        if a0["t"] == "ref":
            tgt = b.fn_ir(a0["fn"])
            body = unwrap(tgt["tail"]) if tgt["tail"] is not None and not tgt["steps"] else None
            if body is not None and not tgt["unknown"] and not tgt["lets"] and ((body["t"] == "map" and unwrap(body["p"])["t"] == "tokset" and spec["not"]["tok"] not in unwrap(body["p"])["toks"]) or (body["t"] == "tokset" and body.get("vmap") is not None)):
                # the primary alternative written as a named parser
                kinds["primary"].append(body)
                continue
            if body is not None and body["t"] == "map":
                inner = unwrap(body["p"])
                if inner["t"] == "seq" and len(inner["items"]) == 2 and unwrap(inner["items"][0]["p"])["t"] == "tokset" and unwrap(inner["items"][0]["p"])["toks"] == [spec["not"]["tok"]]:
                    kinds["not"].append((a0["fn"], body, inner))
                    continue
            if body is not None and body["t"] == "seq" and len(body["items"]) == 3:
                kinds["parens"].append((a0["fn"], body))
                continue
        kinds["other"].append(a0)
    c.ob(
        "C01.atom",
        atom,
        "alternatives are exactly primary / not / parens / failing catch-all",
        len(kinds["primary"]) == 1 and len(kinds["not"]) == 1 and len(kinds["parens"]) == 1 and not kinds["other"],
        "primary×%d not×%d parens×%d never-succeeding×%d unrecognised: %s" % (len(kinds["primary"]), len(kinds["not"]), len(kinds["parens"]), len(kinds["dead"]), [peg.show(x) for x in kinds["other"]]),
    )
    # primary identity table
    for pm in kinds["primary"]:
        ts = pm if pm["t"] == "tokset" else unwrap(pm["p"])
        c.ob(
            "C01.atom",
            atom,
            "primary token classes",
            sorted(ts["toks"]) == sorted(prim.keys()) and not ts.get("neg"),
            "the primary alternative accepts %s; reference primaries: %s" % (sorted(ts["toks"]), sorted(prim.keys())),
        )
        # the expression built for a token of each class, evaluated with an unknown payload (vlib/irval.py): whatever way the
        # table is written (match in a closure, a named function, verify_map), Token::X(v) must become Expression::X(v)
        from .. import probe as P, irval

        table, bad = {}, []
        for tk in ts["toks"]:
            pay = [P.Opq("payload") for _ in facts.variant_fields(spec["token_enum"], tk)]
            tok = ("enum", "%s::%s" % (spec["token_enum"], tk), pay)

            class TC(irval.Ctx):
                def leaf(self, node):
                    return tok

            try:
                v = irval.value(pm, TC(facts, b, facts.fn(atom).module))
                if isinstance(v, tuple) and v and v[0] == "enum" and len(v[2]) == len(pay) and all(x is y for x, y in zip(v[2], pay)):
                    table[tk] = rx.canon_path(v[1], scope)
                else:
                    bad.append("%s → %r" % (tk, v))
            except (P.NoEval, P.Panic) as ex:
                bad.append("%s: %s" % (tk, ex))
        want_tab = {k: "%s::%s" % (spec["expr_enum"], v) for k, v in prim.items()}
        c.ob(
            "C01.atom",
            atom,
            "Token::X(v) → Expression::X(v) identity table",
            table == want_tab and not bad,
            "evaluated %s; reference %s%s" % (table, want_tab, ("; not the payload unchanged: %s" % bad) if bad else ""),
        )
    # not
    for fnk, body, inner in kinds["not"]:
        operand = unwrap(inner["items"][1]["p"])
        c.ob(
            "C01.not",
            fnk,
            "'!' applies to an atom",
            operand["t"] == "ref" and operand["fn"] == atom,
            "operand of '!' is %s; must be the atom parser %s ('!' binds tighter than AND)" % (peg.show(operand), atom),
            witness="! -true -false must be And(Not(true), false)" if not (operand["t"] == "ref" and operand["fn"] == atom) else None,
        )
        f = body["f"]
        ok = None
        got = None
        if f["k"] == "closure" and len(f["params"]) == 1:
            chain, args = rx.ctor_chain(rx.closure_body(f))
            if chain and args is not None:
                got = [rx.canon_path(x, scope) for x in chain]
                pn = rx.closure_params(f)[0].get("name")
                ok = got[0] == spec["expr_enum"] + "::Operator" and got[-1] == "%s::%s" % (opn, spec["not"]["node"]) and len(args) == 1 and rx.is_var(args[0], pn)
        c.ob("C01.node", fnk, "'!' builds Not", ok, "constructor chain %s" % got)
    # parens
    for fnk, body in kinds["parens"]:
        i0, i1, i2 = [unwrap(i["p"]) for i in body["items"]]
        keeps = [i["keep"] for i in body["items"]]
        shape_ok = (
            i0["t"] == "tokset" and i0["toks"] == [spec["parens"]["open"]] and i2["t"] == "tokset" and i2["toks"] == [spec["parens"]["close"]] and keeps == [False, True, False]
        )
        c.ob("C01.parens", fnk, "'(' inner ')' keeping only the inner value", shape_ok, "shape: %s keep=%s" % (peg.show(body), keeps))
        c.ob(
            "C01.parens",
            fnk,
            "inner expression is the loosest level",
            i1["t"] == "ref" and i1["fn"] == start,
            "inside parentheses %s is parsed; must be the start level %s so that every operator may appear inside" % (peg.show(i1), start),
        )
        # no map between the delimited and the function result (no residual node)
        tgt = b.fn_ir(fnk)
        wrappers = []
        n = tgt["tail"]
        while n["t"] in ("ctx", "cut", "map", "value", "trymap"):
            if n["t"] in ("map", "value", "trymap"):
                wrappers.append(n["t"])
            n = n["p"]
        c.ob("C01.parens", fnk, "no residual node", not wrappers, "parenthesised value is wrapped by %s" % wrappers if wrappers else "the inner value is returned unchanged")
    # Precedence variant never constructed in the parser
    ctor_sites = []
    for fn in facts.nontest_fns():
        if fn.module[:1] != ("find_parser",):
            continue
        for n in F.find_all(fn.body, lambda n: n.get("k") == "path" and len(n["segs"]) >= 2 and n["segs"][-1] == "Precedence", skip_pats=True):
            ctor_sites.append(fn.key)
    c.ob("C01.parens", "find_parser", "Operator::Precedence has no constructor site in the parser", not ctor_sites, "constructed in %s" % ctor_sites if ctor_sites else "0 sites")

    # ---------------------------------------------------------------- LL(1) choice points and single pass
    firsts = [ta.first(a) for a in alts]
    clash = []
    for i in range(len(alts)):
        for j in range(i + 1, len(alts)):
            if firsts[i] & firsts[j]:
                clash.append((peg.show(unwrap(alts[i]))[:40], peg.show(unwrap(alts[j]))[:40], sorted(firsts[i] & firsts[j])))
    c.ob("C01.ll1", atom, "atom alternatives have pairwise disjoint FIRST sets", not clash, "overlaps: %s" % clash if clash else "FIRST sets %s" % [sorted(f) for f in firsts])
    first_atom = ta.first(b.fn_ir(atom))
    for lv in levels:
        seps = {t for ts, _ in lv["explicit"] for t in ts}
        c.ob(
            "C01.ll1",
            lv["fn"],
            "separator ∉ FIRST(operand)",
            not (seps & ta.first(b.fn_ir(lv["operand"]))),
            "separator %s, FIRST(operand)=%s" % (sorted(seps), sorted(ta.first(b.fn_ir(lv["operand"])))),
        )
    # single pass: the leftmost descent of the start level reaches `atom`, and the tightest loop retries bare `atom`
    chain_ok = bool(levels) and levels[-1]["operand"] == atom and all(levels[i]["operand"] == levels[i + 1]["fn"] for i in range(len(levels) - 1)) and levels[0]["fn"] == start
    tight_ok = bool(levels) and atom in levels[-1]["implicit"]
    stop = set(tokens) - first_atom
    for lv in levels:
        stop -= {t for ts, _ in lv["explicit"] for t in ts}
    c.ob(
        "C01.single-pass",
        start,
        "FIRST(start) ∩ STOP(start) = ∅",
        chain_ok and tight_ok and not (ta.first(b.fn_ir(start)) & stop),
        "leftmost descent %s → %s; the tightest loop retries bare atom: %s; FIRST(start)=%s, STOP(start)=%s ∪ {eof}. After a successful start-level parse the next token is one on which atom fails, so a second "
        "iteration of the entry repetition fails and the entry returns either the whole input's tree or an error — never a prefix"
        % (start, atom, tight_ok, sorted(ta.first(b.fn_ir(start))), sorted(stop)),
    )
    # no left recursion: each recursive reference is preceded by a consumed token
    lr = []
    for fnk, body, inner in kinds["not"]:
        if g.nullable(inner["items"][0]["p"]):
            lr.append(fnk)
    for fnk, body in kinds["parens"]:
        if g.nullable(body["items"][0]["p"]):
            lr.append(fnk)
    c.ob("C01.ll1", atom, "recursion is guarded by a consumed token", not lr, "left-recursive through %s" % lr if lr else "not→atom and parens→start each consume one token first")

    # ---------------------------------------------------------------- lexing of operator words
    tokfn = an.role("token")
    # the flattened, ordered alternatives of token(): helper functions, nested alts, shared follow guards and per-word or
    # per-group `.value(..)` / `.map(..)` all come out as one entry per leading literal (vlib/kw.py)
    from .. import kw as _kw

    lexmap = {}
    guards = {}
    classes = {}
    tscope = b.scope(facts.fn(tokfn).module)
    for a in _kw.alternatives(g, tokfn):
        outer = None
        for f_ in list(a.values) + list(a.maps):
            if f_ is not None and rx.path_str(f_) and rx.canon_path(rx.path_str(f_), tscope).startswith(spec["token_enum"] + "::"):
                outer = rx.canon_path(rx.path_str(f_), tscope)
        if a.lit is not None and not (outer is not None and outer.split("::")[-1] in facts.variants(spec["token_enum"])) and (a.values or a.maps):
            # the token is computed (`.value(Token::from(Connective::Or))`, `.map(Token::from)` after a table of private
            # values): the value and the maps are evaluated, innermost first (vlib/probe.py)
            from .. import probe as P

            try:
                pr_ = P.Probe(facts, None, facts.fn(tokfn).module)
                val_ = pr_.ev(a.values[0], {}) if a.values and a.values[0] is not None else None
                ok_ = val_ is not None
                for f_ in (a.maps if ok_ else []):
                    val_ = pr_.apply(pr_.ev(f_, {}), [val_])
                if ok_ and isinstance(val_, tuple) and len(val_) == 3 and val_[0] == "enum" and not val_[2]:
                    outer = rx.canon_path(val_[1], tscope)
            except (P.NoEval, P.Panic):
                pass
        if a.lit is not None and len(a.path) == 1 or (a.lit is not None and all(facts.fns[k_].impl is None for k_ in a.path)):
            if a.lit not in lexmap:
                lexmap[a.lit] = outer
                dropped = [r_["n"] for r_ in a.rest if not r_["keep"]]
                guards[a.lit] = dropped[0] if len(dropped) == 1 and len(a.rest) == 1 else None
        else:
            # an alternative written inside the parser of a primary class (impl Parseable for Test/Action/..)
            cls = next((k_ for k_ in a.path if facts.fns[k_].impl is not None), None)
            if outer is not None and cls is not None:
                classes.setdefault(outer, set()).add(cls)
    classes = {k_: (sorted(v_)[0] if len(v_) == 1 else "several parsers: %s" % sorted(v_)) for k_, v_ in classes.items()}
    te = spec["token_enum"]
    for word, tk in spec["lex"].items():
        c.ob(
            "C01.lex-ops",
            tokfn,
            "%r → %s" % (word, tk),
            lexmap.get(word) == "%s::%s" % (te, tk),
            "word %r is lexed to %s; reference %s::%s" % (word, lexmap.get(word), te, tk),
            witness="-true %s -false" % word if lexmap.get(word) != "%s::%s" % (te, tk) else None,
        )
    blank = peg.named_set("multispace")
    for word in spec["guarded"]:
        gd = guards.get(word)
        ok = False
        if gd is not None:
            gs = [g.open(x) for x in flat_alts(g.open(gd))]
            has_blank = any(x["t"] == "set" and x["min"] >= 1 and peg.cs_subset(x["cs"], blank) and peg.cs_subset(blank, x["cs"]) for x in gs)
            has_eof = any(x["t"] == "eof" for x in gs)
            ok = has_blank and has_eof and len(gs) == 2
        c.ob(
            "C01.lex-ops",
            tokfn,
            "%r followed by blank+ or end" % word,
            ok,
            "follow guard of %r: %s; required: alt[blank+, eof] so that the head of a longer word (%sX…) is not taken as the operator" % (word, peg.show(gd) if gd else "none", word),
            witness="%stime 3" % word if not ok else None,
        )
    for tk in spec["primary"]:
        got = classes.get("%s::%s" % (te, tk))
        c.ob(
            "C01.lex-ops",
            tokfn,
            "%s::%s wraps the %s parser" % (te, tk, tk),
            got is not None and (tk in got or {"Global": "GlobalOption", "Positional": "PositionalOption"}.get(tk, tk) in got),
            "Token::%s is produced from %s" % (tk, got),
        )
    # lex-whole
    lexfn = an.role("lex")
    lfb = b.fn_ir(lexfn)
    # two spellings: `core.map(|(tokens, _)| tokens).parse_next(input)` or `let (tokens, _) = core.parse_next(input)?; Ok(tokens)`
    body, lexproj = None, None
    if lfb["tail"] is not None and not lfb["steps"] and not lfb["unknown"]:
        body = unwrap(lfb["tail"])
        n_ = body
        if n_["t"] == "map":
            f_ = n_["f"]
            lexproj = False
            if f_["k"] == "closure" and len(f_["params"]) == 1:
                prm = rx.closure_params(f_)[0]
                lexproj = prm["k"] == "tuple" and len(prm["elems"]) == 2 and prm["elems"][0]["k"] == "ident" and rx.is_var(rx.closure_body(f_), prm["elems"][0]["name"])
        else:
            lexproj = True
    elif lfb["tail"] is None and len(lfb["steps"]) == 1 and not lfb["unknown"] and lfb["ret"] is not None:
        body = unwrap(lfb["steps"][0]["p"])
        bnd = g.bindings(lfb)
        rv = rx.var_name(lfb["ret"])
        lexproj = rv is not None and rv in bnd and unwrap(bnd[rv])["t"] == "reptill"
    ok = None
    detail = "lex body not recognised"
    if body is not None:
        n = body
        while n["t"] in ("map", "ctx", "cut"):
            n = n["p"]
        rt = None
        lead = None
        if n["t"] == "seq" and len(n["items"]) == 2:
            lead = unwrap(n["items"][0]["p"])
            rt = unwrap(n["items"][1]["p"])
        elif n["t"] == "reptill":
            rt = n
        if rt is not None and rt["t"] == "reptill":
            item = unwrap(rt["p"])
            stop_ok = unwrap(rt["stop"])["t"] == "eof"
            item_ok = item["t"] == "seq" and unwrap(item["items"][0]["p"])["t"] == "ref" and unwrap(item["items"][0]["p"])["fn"] == tokfn
            ok = stop_ok and item_ok and rt["min"] >= 1
            detail = "lex = %s; terminator is eof: %s; item is token+blank*: %s" % (peg.show(n), stop_ok, item_ok)
    c.ob("C01.lex-whole", lexfn, "lexing consumes the whole input or fails", ok, detail, witness="-true -bogus" if ok is False else None)
    c.floor("precedence levels + atom alternatives + operator words", len(levels) + len(alts) + len(spec["lex"]), 3 + 4 + 8)

    # ---------------------------------------------------------------- token equality and the public entry point
    tok = facts.enum(spec["token_enum"])
    manual_eq = [i for _, _, i in facts.impls if F.norm_ty(i["self_ty"]) == spec["token_enum"] and i["trait"] and F.norm_ty(i["trait"]).split("::")[-1].split("<")[0] in ("PartialEq", "Eq")]
    c.ob("C01.token-eq", spec["token_enum"], "token equality is the derived structural equality", "PartialEq" in facts.derives(tok) and not manual_eq, "derives %s; hand-written PartialEq impls: %d (one_of(Token::X) compares with ==)" % (facts.derives(tok), len(manual_eq)))
    ct = [fn for k, fn in facts.fns.items() if fn.name == "contains_token" and not fn.test and fn.impl is not None and F.norm_ty(fn.impl["self_ty"]) == spec["token_enum"]]
    okct = False
    if len(ct) == 1:
        t = rx.tail_expr(ct[0].body)
        pn = ct[0].params[0][0] if ct[0].params else None
        okct = t is not None and len(ct[0].body["stmts"]) == 1 and t["k"] == "binary" and t["op"] == "==" and {src(rx.peel(t["lhs"])), src(rx.peel(t["rhs"]))} == {"self", pn}
    c.ob("C01.token-eq", "<Token as ContainsToken<Token>>::contains_token", "one_of(token) matches exactly that token", okct, "contains_token = `%s`" % (src(rx.tail_expr(ct[0].body)) if ct else None))
    from .. import glue

    glue.obligations(c, facts, b, "C01")
    from .. import mir as _mir

    _mir.order_rule(c, facts, "C01.lex-whole", [lexfn, entry], "tokens and sub-trees must keep the order of the words")
    # the folds clone the first operand (`init.clone()`), the entry clones the result: the copy must be the tree
    badc = []
    for tname in (spec["expr_enum"], opn, "Test", "Action"):
        d_ = facts.enums.get(tname)
        if d_ is None:
            continue
        manual = [i for _, _, i in facts.impls if F.norm_ty(i["self_ty"]).split("<")[0] == tname and i["trait"] and F.norm_ty(i["trait"]).split("::")[-1] in ("Clone", "ToOwned")]
        if "Clone" not in facts.derives(d_) or manual:
            badc.append("%s (derives %s, hand-written impls %d)" % (tname, facts.derives(d_), len(manual)))
    c.ob("C01.node", "ast", "cloning a tree yields the same tree (derived Clone)", not badc, "not derived / hand-written: %s" % badc if badc else "Clone is derived on the tree types; the parser's clone()/to_owned() calls copy faithfully", witness="-true , -false" if badc else None, nontrivial=False)
    okproj = lexproj
    c.ob("C01.lex-whole", lexfn, "lex returns the collected tokens unchanged", okproj, "closure after repeat_till is the projection |(tokens, _)| tokens: %s" % okproj)
    if tier == "thorough":
        engine_crosscheck(c, facts, b, g)
    # ---------------------------------------------------------------- positive control
    fx = {"t": "reptill", "l": 0, "min": 1, "max": None, "p": {"t": "ref", "l": 0, "fn": start, "targs": {}, "extra": []}, "stop": {"t": "tokset", "l": 0, "toks": ["RParen"]}}
    c.control("C01.whole", unwrap(fx["stop"])["t"] != "eof", "fixture repeat_till(1.., list, one_of(RParen)) is reported as not ending in eof")


def engine_crosscheck(c, facts, b, g):
    """E1 ↔ E2: per parser function, the multiset of call-form winnow combinators in the IR (own macro expansion and
    name resolution of E1) must equal the multiset of resolved winnow callees in that function's MIR and its closures."""
    import collections
    import re

    from .. import mir

    m = mir.load(True)
    tracked = {"alt", "cut_err", "preceded", "terminated", "delimited", "separated_pair", "repeat", "repeat_till", "separated", "take_while", "take_until", "one_of", "literal", "peek"}
    by_owner = {}
    for p, bd in m.bodies.items():
        key = mir.e1_key(p, facts)
        if key is None:
            continue
        cnt = by_owner.setdefault(key, collections.Counter())
        for cl in bd["calls"]:
            if cl["crate"] == "winnow":
                nm = (cl["resolved"] or cl["callee"]).split("::")[-1]
                nm = re.sub(r"<.*$", "", nm)
                if nm in tracked and re.search(r"winnow::(combinator|token)::", cl["callee"]):
                    cnt[nm] += 1
    n = 0
    for key, fn in sorted(facts.fns.items()):
        if fn.test or fn.module[:1] != ("find_parser",):
            continue
        try:
            fb = b.fn_ir(key)
        except F.AnchorMissing:
            continue
        e1 = collections.Counter()
        seen_ids = set()

        def w(nd):
            if nd.get("comb") in tracked and id(nd) not in seen_ids:
                seen_ids.add(id(nd))
                e1[nd["comb"]] += 1

        g.walk(fb, w, follow=False)
        if fb.get("unknown"):
            # parser applications buried in statement chains (the leading-options pass of the inner parse function)
            from . import c06

            lp = c06.leading_pass(b, fn)
            if lp is not None:
                g.walk(lp, w, follow=False)
        # parsers bound to a local name and used several times are one call in the source
        e2 = by_owner.get(key, collections.Counter())
        if not e1 and not e2:
            continue
        n += 1
        opq = g.opaque_nodes(fb, follow=False)
        ok = e1 == e2
        c.ob(
            "C01.engine-crosscheck",
            key,
            "IR combinators = MIR winnow callees",
            ok if (ok or not opq) else None,
            "E1 %s vs E2 %s%s" % (dict(e1), dict(e2), ("; unmodelled nodes in the IR: %s" % [o.get("src", "")[:40] for o in opq]) if opq else ""),
            nontrivial=False,
        )
    c.floor("functions cross-checked between the two extractors", n, 10)


def psrc_arm(arm):
    return "%s => %s" % (F.psrc(arm["pat"]), src(arm["body"]))
