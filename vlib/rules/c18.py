"""C18 — argument errors name the offending primary and word."""
import itertools
import json
import os
import re

from .. import facts as F
from .. import peg, rx, kw, args as A
from ..anchors import Anchors
from ..facts import src, psrc, find_all, norm_ty
from . import c05

VOC = os.path.join(F.VERIF, "spec", "vocabulary.json")


def error_templates(enum):
    out = {}
    for v in enum["variants"]:
        for a in v["attrs"]:
            m = re.match(r'error\((.*)\)$', a, re.S)
            if m:
                try:
                    out[v["name"]] = json.loads(m.group(1)) if m.group(1).startswith('"') else m.group(1)
                except Exception:
                    out[v["name"]] = m.group(1).strip('"')
    return out


def display_templates(facts, en):
    """{variant: template} of an error enum: the `#[error("..")]` templates, or — for a hand-written `impl Display` — what its
    `fmt` writes for each variant, found by interpreting it with the formatter as a string that is written to (vlib/emit.py).
    Payload fields appear as {0}, {1}, ..; a piece that is neither constant text nor a payload field appears as {?..}.
    -> (templates, problems)"""
    enum = facts.enum(en)
    out = error_templates(enum)
    if len(out) == len(enum["variants"]):
        return out, []
    from .. import emit

    key = next((k_ for k_ in facts.fns if re.match(r"^<%s as (?:std::fmt::|fmt::|core::fmt::)?Display>::fmt$" % re.escape(en), k_)), None)
    if key is None:
        return out, ["%s: variants without #[error] template and no hand-written Display impl" % en]
    fn = facts.fns[key]
    fname = next((n for n, t_ in fn.params if n and n != "self"), None)
    it = emit.Interp(facts)
    probs = []
    try:
        res = it.run_fn(key, bindings={fname: emit.S([])})
    except Exception as e:  # fail closed
        return out, ["%s: Display impl could not be interpreted: %s" % (en, e)]
    names = {v["name"] for v in enum["variants"]}
    for st, rv in res:
        if st.unknown:
            probs.append("%s: construct not understood in Display: %s" % (en, st.unknown[:2]))
            continue
        variants = []
        for subj, lab in st.conds:
            if subj == "self" and isinstance(lab, tuple):
                variants = [x.split("::")[-1] for x in lab]
        txt = st.env.get(fname)
        if not emit.is_str(txt):
            probs.append("%s: the formatter is not only written to" % en)
            continue
        t = ""
        for pc in emit.flat_parts(txt["parts"]):
            if pc[0] == "c":
                t += pc[1]
            elif pc[0] == "h":
                cn = emit.canon(pc[1])
                m_ = re.fullmatch(r"\$%s::[A-Za-z_|]+\.(\d+)" % re.escape(en), cn)
                t += "{%s}" % m_.group(1) if m_ else "{?%s}" % cn
            else:
                t += "{?%s}" % pc[0]
        for vn in variants or sorted(names - set(out)):
            if vn in out and out[vn] != t:
                # several paths for one variant (an optional tail): keep the shortest — every path must satisfy the rules
                if len(t) < len(out[vn]):
                    out[vn] = t
            else:
                out.setdefault(vn, t)
    miss = sorted(names - set(out))
    if miss:
        probs.append("%s: no text found for variants %s" % (en, miss))
    return out, probs


def pat_matches(p, val):
    """val: 'S' (Some) or 'N' (None)"""
    if rx.is_catchall(p):
        return True
    if p["k"] == "tstruct" and p["segs"][-1] == "Some":
        return val == "S"
    if p["k"] in ("path", "ident") and (p.get("segs", [p.get("name")])[-1] == "None"):
        return val == "N"
    return False


def run(c, facts, tier):
    voc = json.load(open(VOC))
    b = peg.Builder(facts)
    g = peg.Grammar(b)
    an = Anchors(facts, b)
    from .. import glue

    glue.obligations(c, facts, b, "C18")
    tokfn = an.role("token")
    scope = b.scope(facts.fn(tokfn).module)
    c.trusted = ["winnow 0.6.7: .context() pushes on the error while it propagates outward and ContextError::context() iterates in push order (innermost first); cut_err stops alternation; and_then restores the position to the start of the word on inner failure", "E1 extractor"]
    c.explanation = (
        "Reachability of the keyword and of the offending word to the message, decided structurally: every argument-taking alternative carries a label equal to its keyword directly inside its category label, "
        "the category labels are exactly the strings the error folder matches on, the argument is under cut (so the error surfaces at the argument with its labels), the word is re-read with the grammar's own word parser "
        "from the input position the parser left, and the dispatch table yields, for every (category, description present/absent) combination, a variant whose message template mentions both keyword and word."
    )
    c.decided = ["keyword and word reach the message for every argument-taking keyword at every position", "unknown word is quoted", "message never empty"]
    c.not_decided = ["wording of the messages"]
    from .. import report as _rep

    _rep.require(c, facts, "c06", "C18.reread", "word parser", "the word parser used to re-read the offending word accepts every word", lambda o: o["rule"] == "C06.quoting", "the offending word is quoted by re-reading it with the grammar's word parser; that this parser returns every bare word unchanged (no verify/map on the bare form) is decided by C06.quoting")
    alts = kw.alternatives(g, tokfn)
    cats = voc["category_labels"]  # test/action/global -> label string
    # the strings SyntaxContext::new matches on
    newfn = facts.fn("SyntaxContext::new")
    matched = matched_labels(newfn, facts, sorted(cats.values()))
    c.ob("C18.label", newfn.key, "category labels matched by the error folder", matched == sorted(cats.values()), "SyntaxContext::new matches on %s; the grammar's category labels are %s" % (matched, sorted(cats.values())))
    # fold semantics: for each category: `Label(s) if *s == CAT => field = Some("")` followed by `Label(s) if expecting_<field>() => field = Some(s)`
    fold_ok = fold_semantics(newfn, facts, cats)
    # the folder reads the labels from the outside in (category, then keyword): winnow hands them out innermost first
    # (ContextError::context() iterates in the order the contexts were pushed while the error travelled outward), so the
    # list must be turned round exactly once on its way into the folder.  Decided by evaluating dispatch() on a context list
    # of a description, a keyword label, a category label and an outer label, up to the call of the folder.
    from .. import probe as P

    disp = facts.fn("ParserError::dispatch")
    order_ok, order_det = None, "dispatch() not evaluable up to the folder"
    bad_cat = []
    for cat_name, cat_label in sorted(cats.items()):
        inner_first = [("enum", "StrContext::Expected", [("enum", "StrContextValue::Description", ["some_description"])]), ("enum", "StrContext::Label", ["-keyword"]), ("enum", "StrContext::Label", [cat_label]), ("enum", "StrContext::Label", ["outermost"])]
        seen_ctx = {}

        class _Stop(Exception):
            pass

        def _capture(args, seen_ctx=seen_ctx):
            # the folder itself is evaluated on whatever dispatch() hands it (a reversed list, or the list as it is and a
            # fold from the right): what counts is the context it derives
            p2 = P.Probe(facts, "SyntaxContext", newfn.module)
            seen_ctx["v"] = p2.invoke(newfn, None, list(args))
            raise _Stop()

        prd = P.Probe(facts, "ParserError", disp.module)
        prd.intercept[newfn.key] = _capture
        ctxerr = P.Opq("ctxerr")

        def _context_hook(pr_, e, env, ctxerr=ctxerr, inner_first=inner_first):
            if pr_.ev(e["recv"], env) is ctxerr and not e["args"]:
                return list(inner_first)
            return NotImplemented

        prd.mhooks["context"] = _context_hook
        try:
            prd.invoke(disp, None, [ctxerr, P.Opq("input")])
            order_ok, order_det = None, "dispatch() returns without calling %s" % newfn.key
            break
        except _Stop:
            got = seen_ctx.get("v")
            flds = {k_: v_ for k_, v_ in got.items() if k_ != "__ty"} if isinstance(got, dict) else {}
            named = [k_ for k_, v_ in flds.items() if v_ == ("some", "-keyword")]
            desc = [k_ for k_, v_ in flds.items() if v_ == ("some", "some_description")]
            wrong = [k_ for k_, v_ in flds.items() if isinstance(v_, tuple) and v_ and v_[0] == "some" and v_[1] not in ("-keyword", "some_description")]
            if len(named) != 1 or len(desc) != 1 or wrong:
                bad_cat.append("%s: %s" % (cat_label, {k_: (v_[1] if isinstance(v_, tuple) else v_) for k_, v_ in flds.items()}))
            order_ok = not bad_cat
        except (P.NoEval, P.Panic) as ex:
            order_ok, order_det = None, "dispatch() not evaluable up to the folder: %s" % ex
            break
    if order_ok is not None:
        order_det = ("for each category label, the contexts [description, keyword label, category label, outer label] as winnow hands them out (innermost first) give a context naming the keyword and the description" if order_ok else "the folder derives %s from the contexts [description, `-keyword`, category, `outermost`] that winnow hands out innermost first: it must read them from the outside in" % "; ".join(bad_cat))
    c.ob("C18.label", disp.key, "the folder reads the labels from the outside in", order_ok, order_det, witness="-amin d  → the message names `syntax`, not `-amin`" if order_ok is False else None)
    # read off the syntax when the folder is the reviewed fold; whatever way it is written (rfold, a loop over slot states),
    # the evaluation above has derived keyword and description from the contexts of each category
    c.ob("C18.label", newfn.key, "the label following a category label becomes that category's keyword", (not fold_ok) or order_ok is True, ("; ".join(fold_ok) + " — but evaluated on the contexts of every category the folder names the keyword and the description") if fold_ok and order_ok is True else ("; ".join(fold_ok) or "for test/action/global: category label resets the field to \"\", the next label fills it"))
    narg = 0
    for a in alts:
        if a.lit is None:
            continue
        ctor = kw.ctor_of_transform(a, scope)
        if ctor is None or ctor.startswith("Token::"):
            continue
        fr = kw.flatten_rest(g, a.rest)
        if not any(x["keep"] for x in fr):
            # a keyword without argument: whatever follows it in the alternative is a guard (the word boundary).  A guard that
            # fails must fail softly — under cut_err the lexer stops in the middle of a longer unknown word (`-emptyx`) and the
            # message quotes its tail (`x`) instead of the word
            hard = [peg.show(x["n"])[:40] for x in fr if x["cut"]]
            c.ob("C18.position", a.site, "%s (no argument): an unknown longer word is reported whole" % a.lit, not hard, "guards after %r fail softly: the other alternatives and the unknown-word fallback see the whole word" % a.lit if not hard else "guard %s after %r is under cut_err: `%sx` stops the lexer behind %r and the message quotes `x`, not `%sx`" % (hard, a.lit, a.lit, a.lit, a.lit), witness="%sx" % a.lit if hard else None, nontrivial=False)
            continue
        narg += 1
        labels = [s_ for kind, s_ in a.labels if kind == "label"]
        cat = {"Test": "test", "Action": "action", "GlobalOption": "global"}.get(ctor.split("::")[0])
        want_cat = cats.get(cat)
        ok = len(labels) >= 2 and labels[0] == a.lit and labels[1] == want_cat
        c.ob(
            "C18.label",
            a.site,
            a.lit,
            ok,
            "labels from the argument outward: %s; required: keyword label %r directly inside category label %r" % (labels, a.lit, want_cat),
            witness="%s <bad argument>  → the message would name %r" % (a.lit, labels[0] if labels else None) if not ok else None,
        )
        # the keyword is recognised only as a whole word: before anything is committed (cut), a non-consuming guard must
        # have seen a blank, a ')' or the end of input.  Otherwise `-names foo` is reported as a bad argument `s` of `-name`
        # instead of the unknown word `-names`.
        from . import c05 as _c05

        bnd = peg.cs_union(peg.named_set("multispace"), peg.cs_in(")"))
        g0 = fr[0] if fr else None
        n0 = g0["n"] if g0 else None
        while n0 is not None and n0["t"] in ("ctx",):
            n0 = n0["p"]
        if n0 is not None and n0["t"] == "ref":
            n0 = g.open(n0)
        whole = g0 is not None and not g0["cut"] and not g0["keep"] and n0["t"] == "peek" and _c05.requires_boundary(g, n0["p"], bnd)
        c.ob(
            "C18.keyword",
            a.site,
            a.lit,
            whole,
            ("after %r a look-ahead requires a blank, ')' or the end of input before the parser commits to this keyword" % a.lit)
            if whole
            else ("after %r the parser commits (cut_err) without having checked that the keyword ends there: a longer word such as %r is reported as an invalid argument %r of %r, not as the unknown word it is" % (a.lit, a.lit + "s", "s", a.lit)),
            witness="%ss foo" % a.lit if not whole else None,
            nontrivial=False,
        )
        fr_c = fr[1:] if whole else fr
        lastkept = max(i for i, x in enumerate(fr_c) if x["keep"])
        cut_ok = all(x["cut"] for x in fr_c[: lastkept + 1])
        c.ob("C18.cut", a.site, a.lit, cut_ok, "blank and argument after %r are under cut_err: the error keeps its labels instead of being reset by the enclosing alt" % a.lit if cut_ok else "argument of %r is not under cut_err: on a bad argument alt() backtracks, the labels are lost and the word is reported as an unknown token" % a.lit, nontrivial=False)
    c.floor("argument-taking keywords", narg, 40)
    # an unknown word is quoted whole because the error that surfaces is the one raised at the START of the word: winnow's
    # alt() reports the error of its LAST alternative when all fail, so the last alternative of token() must be the one that
    # fails on the spot without consuming anything (the `fail` fallback).  An alternative that gets part of the way into the
    # word (`nope` of `nopex`, then the boundary guard) leaves the position in the middle of it.
    from .. import args as _A

    tb = _A.single_body(b.fn_ir(tokfn))
    talts = [x for x in (_A.flat_alts(tb) if tb is not None else [])]
    last = _A.unwrap(talts[-1]) if talts else None
    for _ in range(12):
        if last is None:
            break
        if last["t"] in ("ctx", "cut", "map", "value"):
            last = _A.unwrap(last["p"])
        elif last["t"] == "alt":
            last = _A.unwrap(_A.flat_alts(last)[-1])
        elif last["t"] == "seq" and last["items"] and all(_A.unwrap(i_["p"])["t"] in ("peek", "eof", "notp") or (_A.unwrap(i_["p"])["t"] == "alt" and all(_A.unwrap(x_)["t"] in ("peek", "eof", "notp") for x_ in _A.flat_alts(_A.unwrap(i_["p"])))) for i_ in last["items"][:-1]):
            # look-ahead guards in front consume nothing: what follows them still starts at the start of the word
            last = _A.unwrap(last["items"][-1]["p"])
        elif last["t"] == "ref" and not last.get("extra"):
            sb_ = _A.single_body(g.deref(last))
            if sb_ is None:
                break
            last = _A.unwrap(sb_)
        else:
            break
    last_ok = last is not None and last["t"] == "fail"
    c.ob("C18.position", tokfn, "the unknown-word fallback is the last alternative of the token parser", last_ok, "last of %d alternatives of %s: %s — alt() surfaces the error of its last alternative; only one that fails at the start of the word leaves the whole word to be quoted" % (len(talts), tokfn, peg.show(talts[-1])[:60] if talts else None), witness="nopex  → quoted as `x`" if not last_ok else None)
    # C18.position: a hard error inside an argument leaves the input at the start of the offending word
    npos = 0
    for a in alts:
        if a.lit is None:
            continue
        ctor = kw.ctor_of_transform(a, scope)
        if ctor is None or ctor.startswith("Token::"):
            continue
        for x in kw.flatten_rest(g, a.rest):
            if not x["keep"]:
                continue
            bad = hard_errors_after_consumption(g, x["n"])
            npos += 1
            c.ob(
                "C18.position",
                a.site,
                "%s argument" % a.lit,
                not bad,
                "every hard error in the argument parser is raised before anything of the word is consumed, or inside and_then (which rewinds to the start of the word)" if not bad else "hard error raised after part of the word was consumed and outside and_then: %s — the re-read word is the remainder (or empty), not the offending word" % bad[:2],
                witness="%s <invalid word>" % a.lit if bad else None,
                nontrivial=False,
            )
    c.floor("arguments checked for error position", npos, 40)
    # C18.no-collision: labels below the keyword level never equal a category label
    inner_labels = set()
    for a in alts:
        for r in a.rest:
            def w(n):
                if n["t"] == "ctx" and n["kind"] == "label":
                    inner_labels.add(n["s"])
            g.walk(r["n"], w)
    coll = inner_labels & set(cats.values())
    c.ob("C18.no-collision", tokfn, "argument sub-parsers carry no category label", not coll, "labels inside arguments: %s; colliding with categories: %s" % (sorted(inner_labels), sorted(coll)))
    # C18.reread
    disp = facts.fn(an.role("dispatch"))
    # dispatch is evaluated on one representative of every class of (derived context, re-read outcome): the context folder is
    # replaced by the probe state, the context error and the input are unknowns, `parse_next(input)` yields Ok("WORD") or Err
    from .. import probe as P

    word_parser = "<String as Parseable>::parse"
    newkey = facts.fn("SyntaxContext::new").key

    def run_dispatch(state, word_ok):
        pr = P.Probe(facts, None, disp.module)
        pr.lenient = True
        inp = P.Opq("input")
        rereads = []
        pr.intercept[newkey] = lambda args: dict(state, __ty="SyntaxContext")

        def parse_next(pr_, e, env_):
            args = [pr_.ev(a_, env_) for a_ in e["args"]]
            recv = pr_.ev(e["recv"], env_) if len(args) == 1 and args[0] is inp else None
            if len(args) == 1 and args[0] is inp:
                r = None
                if isinstance(recv, tuple) and recv and recv[0] == "fnref_path":
                    r = b._resolve_fn_path(recv[1], {"__module": recv[2], "__tsubst": {}})
                rereads.append(r[0] if r else src(e["recv"]))
                return ("ok", "WORD") if word_ok else ("err", P.Opq("error"))
            return NotImplemented

        pr.mhooks["parse_next"] = parse_next
        args = [inp if ty.startswith("&mut&") else P.Opq(nme or "arg") for nme, ty in disp.params]
        out = pr.invoke(disp, None, args)
        # the syntax error, possibly inside the wrapper variant
        wrap = set(facts.variants("ParserError"))
        while isinstance(out, tuple) and out and out[0] == "enum" and out[1].split("::")[-1] in wrap and out[1].split("::")[0] in ("ParserError", "Self") and len(out[2]) == 1:
            out = out[2][0]
        return out, rereads

    okr = False
    det = "no re-read of the next word found in %s" % disp.key
    reread_err = None
    try:
        st0 = {"test": None, "action": None, "global": None, "description": None}
        o_ok, rr = run_dispatch(st0, True)
        o_err, rr2 = run_dispatch(st0, False)
        if rr and rr == rr2:
            w_ok = o_ok[2] if isinstance(o_ok, tuple) and o_ok[0] == "enum" else None
            w_err = o_err[2] if isinstance(o_err, tuple) and o_err[0] == "enum" else None
            okr = rr == [word_parser] and w_ok == ["WORD"] and w_err == [""]
            det = "next word read by %s from the input; unknown word reported as %s, as %s when nothing can be read" % (rr, w_ok, w_err)
    except P.NoEval as ex:
        reread_err = str(ex)
        okr = None
        det = "dispatch is outside the evaluated subset: %s" % ex
    c.ob("C18.reread", disp.key, "the word is re-read with the grammar's word parser, empty when missing", okr, det)
    pub = facts.fn(an.role("parse_pub"))
    innerk = an.role("parse_inner")
    calls_inner = find_all(pub.body, lambda n: n.get("k") == "call" and n["f"]["k"] == "path" and n["f"]["segs"][-1] == innerk.split("::")[-1])
    calls_disp = find_all(pub.body, lambda n: n.get("k") == "call" and n["f"]["k"] == "path" and n["f"]["segs"][-1] == disp.name)
    same = False
    if calls_inner and calls_disp:
        a0 = rx.var_name(calls_inner[0]["args"][0]) if calls_inner[0]["args"] else None
        a1 = rx.var_name(calls_disp[0]["args"][-1]) if calls_disp[0]["args"] else None
        same = a0 is not None and a0 == a1 and calls_inner[0]["args"][0]["k"] == "ref" and calls_inner[0]["args"][0]["mut"]
    c.ob("C18.reread", pub.key, "dispatch reads from the input position the parser left", same, "the same `&mut input` binding is passed to the inner parser and to dispatch: %s" % same)
    # C18.total
    tmpl, tprobs = display_templates(facts, "SyntaxError")
    if tprobs:
        c.ob("C18.total", "SyntaxError", "message of every variant is known", None, "; ".join(tprobs))
    c.ob("C18.total", disp.key, "dispatch is decided for every (test, action, global, description) class", reread_err is None, "evaluated by cases on the derived context" if reread_err is None else reread_err)
    if reread_err is None:
        kws = {"test": "-kwt", "action": "-kwa", "global": "-kwg"}
        for cat in ("test", "action", "global"):
            for desc in ("S", "N"):
                state = {"test": None, "action": None, "global": None, "description": ("some", "why") if desc == "S" else None}
                state[cat] = ("some", kws[cat])
                variant, t, ok, got = None, "", None, None
                try:
                    res = [run_dispatch(state, w_)[0] for w_ in (True, False)]
                    got = res
                    if all(isinstance(r_, tuple) and r_ and r_[0] == "enum" for r_ in res) and res[0][1] == res[1][1]:
                        variant = res[0][1].split("::")[-1]
                        t = tmpl.get(variant, "")
                        ok = "{0}" in t and "{1}" in t and res[0][2][:2] == [kws[cat], "WORD"] and res[1][2][:2] == [kws[cat], ""]
                    else:
                        ok = False
                except P.NoEval as ex:
                    got = str(ex)
                c.ob(
                    "C18.total",
                    disp.key,
                    "(%s, description %s)" % (cat, "present" if desc == "S" else "absent"),
                    ok,
                    "selected variant %s with message %r; it %s" % (variant, t, "mentions keyword {0} and word {1}, and is given the keyword and the re-read word in these places" if ok else "does not carry both the keyword and the word: %s" % (got,)),
                    witness={"test": "-name", "action": "-print -fls", "global": "-threads"}[cat] + ("" if desc == "N" else " <bad>") if not ok else None,
                )
        # no category: the unknown word is quoted
        okn, variant = None, None
        try:
            res = [run_dispatch({"test": None, "action": None, "global": None, "description": d_}, True)[0] for d_ in (None, ("some", "why"))]
            okn = all(isinstance(r_, tuple) and r_ and r_[0] == "enum" and r_[2] == ["WORD"] and "{0}" in tmpl.get(r_[1].split("::")[-1], "") for r_ in res)
            variant = [r_[1].split("::")[-1] if isinstance(r_, tuple) else r_ for r_ in res]
        except P.NoEval as ex:
            variant = str(ex)
        c.ob("C18.total", disp.key, "(no category) quotes the word", okn, "variant %s, message %r" % (variant, [tmpl.get(v_) for v_ in variant] if isinstance(variant, list) else None))
    # C18.nonempty
    for en in ("SyntaxError", "ParserError", "GrammarError"):
        for v, t in display_templates(facts, en)[0].items():
            const = re.sub(r"\{[^}]*\}", "", t).strip()
            c.ob("C18.nonempty", en, v, len(const) >= 3, "template %r has constant text %r" % (t, const), nontrivial=False)
    wrap = display_templates(facts, "ParserError")[0]
    c.ob("C18.nonempty", "ParserError", "wrapper shows the inner message", all("{0}" in t for t in wrap.values()) and len(wrap) == len(facts.variants("ParserError")), "wrappers %s" % wrap, nontrivial=False)
    c.control("C18.total", not pat_matches({"k": "tstruct", "segs": ["Some"], "elems": []}, "N"), "pattern matcher distinguishes Some from None")


def hard_errors_after_consumption(g, ir, consumed=False, depth=0, seen=None):
    """List of hard-error nodes (cut_err around a parser that may fail) reachable after a non-nullable parser has consumed
    input, outside the inner parser of an and_then."""
    seen = seen if seen is not None else set()
    t = ir["t"]
    out = []
    if depth > 40:
        return out
    if t == "cut":
        if consumed:
            out.append(peg.show(ir)[:60])
        # inside the cut the same rule applies to nested cuts further right
        out += hard_errors_after_consumption(g, ir["p"], consumed, depth + 1, seen)
        return out
    if t == "andthen":
        out += hard_errors_after_consumption(g, ir["outer"], consumed, depth + 1, seen)
        return out  # inner failures rewind to the start of the outer match
    if t == "seq":
        cons = consumed
        prev = None
        for i in ir["items"]:
            q = i["p"]
            while q["t"] == "ctx":
                q = q["p"]
            inner = q["p"] if q["t"] == "cut" else None
            while inner is not None and inner["t"] in ("ctx", "cut"):
                inner = inner["p"]
            if prev is not None and prev["t"] == "peek" and inner is not None and inner["t"] == "fail":
                # `preceded(peek(X), cut_err(fail))` raises where X starts — the position `X.and_then(cut_err(fail))` reports
                prev = i["p"]
                continue
            out += hard_errors_after_consumption(g, i["p"], cons, depth + 1, seen)
            if i["p"]["t"] not in ("peek", "notp") and not g.nullable(i["p"]):
                cons = True  # (a look-ahead consumes nothing, whatever it looks at)
            prev = i["p"]
        return out
    if t == "alt":
        for a_ in ir["alts"]:
            out += hard_errors_after_consumption(g, a_, consumed, depth + 1, seen)
        return out
    if t in ("ctx", "map", "value", "trymap", "verify", "fold", "rep", "peek"):
        return hard_errors_after_consumption(g, ir["p"], consumed, depth + 1, seen)
    if t in ("reptill", "sep"):
        out += hard_errors_after_consumption(g, ir["p"], consumed, depth + 1, seen)
        other = ir["stop"] if t == "reptill" else ir["sep"]
        out += hard_errors_after_consumption(g, other, True, depth + 1, seen)
        return out
    if t == "ref":
        key = (ir["fn"], tuple(sorted((ir.get("targs") or {}).items())), consumed)
        if key in seen:
            return out
        seen.add(key)
        return hard_errors_after_consumption(g, g.deref(ir), consumed, depth + 1, seen)
    if t == "fnbody":
        cons = consumed
        for p_ in g.body_seq(ir):
            out += hard_errors_after_consumption(g, p_, cons, depth + 1, seen)
            if not g.nullable(p_):
                cons = True
        # parsers applied in statements the builder did not understand: assumed to run after everything the steps consumed
        for p_ in ir.get("late") or []:
            out += hard_errors_after_consumption(g, p_, cons, depth + 1, seen)
        return out
    return out


def matched_labels(newfn, facts, voc_labels):
    """The label strings the folder reacts to when nothing is awaited: candidates are every string constant of the module
    and the grammar's category labels; decided by evaluating the folder on the one-entry list [Label(c)]."""
    from .. import probe as P

    cands = set(voc_labels)
    for fn in facts.fns.values():
        if tuple(fn.module) == tuple(newfn.module) and not fn.test:
            cands |= {n["v"] for n in find_all(fn.body, lambda n: n.get("k") == "lit" and n.get("t") == "str")}
    for k_, it in facts.consts.items():
        e = it.get("e")
        if tuple(k_.split("::")[:len(newfn.module)]) == tuple(newfn.module) and e and e.get("k") == "lit" and e.get("t") == "str":
            cands.add(e["v"])
    selfty = F.norm_ty(newfn.impl["self_ty"]) if newfn.impl is not None else "SyntaxContext"
    pr = P.Probe(facts, selfty, newfn.module)
    out = []
    for c_ in sorted(cands):
        try:
            base = pr.invoke(newfn, None, [[]])
            got = pr.invoke(newfn, None, [[("enum", "StrContext::Label", [c_])]])
        except P.NoEval:
            return ["<not evaluated>"]
        if got != base:
            out.append(c_)
    return out


def fold_semantics(newfn, facts, cats=None):
    """The accumulator is updated once per context entry, in order; per category: `Label(s) if s == CAT` resets the field to
    Some(""), and `Label(s) if <field is Some("")>` fills it with s.  Guards are *evaluated* (helper methods inlined) on the
    probe states None / Some("") / Some("x"), so any spelling of "the field awaits its name" is recognised."""
    probs = []
    selfty = F.norm_ty(newfn.impl["self_ty"]) if newfn.impl is not None else "SyntaxContext"
    pname = newfn.params[0][0] if newfn.params else None
    # the traversal: raw.iter().fold(init, |acc, x| ..) or `for x in raw { .. }`
    folds = find_all(newfn.body, lambda n: n.get("k") == "mcall" and n["m"] == "fold")
    fors = find_all(newfn.body, lambda n: n.get("k") == "for")
    accname, elem = None, None
    if len(folds) == 1 and not fors:
        base, chain = rx.method_chain(folds[0]["recv"])
        ms = [m_ for m_, _, _ in chain]
        if not (rx.is_var(base, pname) and ms in (["iter"], ["into_iter"])):
            probs.append("the fold does not visit every context entry in order: %s.%s" % (src(base), ".".join(ms)))
        clo = folds[0]["args"][1] if len(folds[0]["args"]) == 2 else None
        if clo is not None and clo["k"] == "closure" and len(clo["params"]) == 2:
            accname, elem = [(rx.pat_bindings(p_) or [None])[0] for p_ in rx.closure_params(clo)]
            t = rx.tail_expr(clo["body"])
            if not (t is not None and rx.is_var(t, accname)):
                probs.append("the fold step does not return the accumulator")
        else:
            probs.append("fold step is not a two-parameter closure")
    elif len(fors) == 1 and not folds:
        base, chain = rx.method_chain(rx.peel(fors[0]["iter"]))
        ms = [m_ for m_, _, _ in chain]
        if not (rx.is_var(base, pname) and ms in ([], ["iter"], ["into_iter"])):
            probs.append("the loop does not visit every context entry in order: %s" % src(fors[0]["iter"]))
        elem = (rx.pat_bindings(fors[0]["pat"]) or [None])[0]
        t = rx.tail_expr(newfn.body)
        accname = rx.var_name(t) if t is not None else None
        if accname is None:
            probs.append("the function does not return the accumulator")
    else:
        probs.append("expected exactly one traversal (fold or for) of the context list, found %d" % (len(folds) + len(fors)))
    if probs:
        return probs
    # the step function (one context entry applied to the accumulator), evaluated on one representative of every class of
    # (accumulator, entry): fields None / awaiting (Some("")) / filled, entry = each category label / another label /
    # a description / another expectation — whatever way the step is written (vlib/probe.py)
    from .. import probe as P

    pr = P.Probe(facts, selfty, newfn.module)
    flds = ("test", "action", "global")
    cats = cats or {"test": "test", "action": "action", "global": "global_option"}
    sd = facts.structs.get(selfty)
    if sd is None or not all(any(fl["name"] == f_ for fl in sd["fields"]) for f_ in flds + ("description",)):
        return ["%s does not have the fields test/action/global/description" % selfty]

    def step(state, entry):
        st = dict(state, __ty=selfty)
        if folds:
            out = pr.apply(pr.ev(folds[0]["args"][1], {}), [st, entry])
        else:
            env = {accname: st}
            pre = []
            for s_ in rx.stmts_of(newfn.body):
                if s_["k"] == "let" and s_["pat"].get("k") == "ident" and s_["pat"]["name"] != accname and s_.get("init") is not None:
                    try:
                        env[s_["pat"]["name"]] = pr.ev(s_["init"], env)
                    except P.NoEval:
                        pass
            b = pr.pmatch(fors[0]["pat"], entry, env)
            pr.block(fors[0]["body"], P.dict_view(env, b))
            out = env[accname]
        if not isinstance(out, dict):
            raise P.NoEval("the step does not yield the accumulator")
        return {k_: v for k_, v in out.items() if k_ != "__ty"}

    lab = lambda s_: ("enum", "StrContext::Label", [s_])
    vals = (None, ("some", ""), ("some", "-old"))
    entries = [(lab(c_), "label %r" % c_) for c_ in cats.values()] + [(lab("-zzz"), "another label"), (("enum", "StrContext::Expected", [("enum", "StrContextValue::Description", ["why"])]), "a description"), (("enum", "StrContext::Expected", [("enum", "StrContextValue::StringLiteral", ["lit"])]), "another expectation")]
    show = lambda v: "None" if v is None else "Some(%r)" % v[1]
    n = 0
    try:
        for tv, av, gv, dv in itertools.product(vals, vals, vals, (None, ("some", "old"))):
            state = {"test": tv, "action": av, "global": gv, "description": dv}
            awaiting = [f_ for f_ in flds if state[f_] == ("some", "")]
            if len(awaiting) > 1:
                continue  # unreachable: a category label is directly followed by its keyword label (the per-keyword obligations)
            for entry, what in entries:
                want = dict(state)
                if awaiting:
                    if what != "another label":
                        continue  # unreachable for the same reason
                    want[awaiting[0]] = ("some", "-zzz")
                elif what.startswith("label "):
                    f_ = next(f for f, c_ in cats.items() if entry[2][0] == c_)
                    want[f_] = ("some", "")
                elif what == "a description":
                    want["description"] = ("some", "why")
                got = step(state, entry)
                n += 1
                if got != want:
                    d = ["%s: %s, expected %s" % (k_, show(got.get(k_)), show(want[k_])) for k_ in want if got.get(k_) != want[k_]]
                    probs.append("with %s, %s gives %s" % (", ".join("%s=%s" % (k_, show(v)) for k_, v in state.items()), what, "; ".join(d)))
                    if len(probs) >= 3:
                        return probs
    except P.NoEval as ex:
        return ["the step of the error folder is outside the evaluated subset: %s" % ex]
    if n < 100:
        probs.append("only %d (state, entry) classes evaluated" % n)
    return probs
