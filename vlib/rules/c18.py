"""C18 — argument errors name the offending primary and word."""
import itertools
import json
import os
import re

from .. import facts as F
from .. import peg, rx, kw, args as A
from ..anchors import Anchors
from ..facts import src, psrc, find_all, norm_ty
from . import c05

VOC = os.path.join(F.VERIF, "spec", "vocabulary.json")


def error_templates(enum):
    out = {}
    for v in enum["variants"]:
        for a in v["attrs"]:
            m = re.match(r'error\((.*)\)$', a, re.S)
            if m:
                try:
                    out[v["name"]] = json.loads(m.group(1)) if m.group(1).startswith('"') else m.group(1)
                except Exception:
                    out[v["name"]] = m.group(1).strip('"')
    return out


def pat_matches(p, val):
    """val: 'S' (Some) or 'N' (None)"""
    if rx.is_catchall(p):
        return True
    if p["k"] == "tstruct" and p["segs"][-1] == "Some":
        return val == "S"
    if p["k"] in ("path", "ident") and (p.get("segs", [p.get("name")])[-1] == "None"):
        return val == "N"
    return False


def run(c, facts, tier):
    voc = json.load(open(VOC))
    b = peg.Builder(facts)
    g = peg.Grammar(b)
    an = Anchors(facts, b)
    from .. import glue

    glue.obligations(c, facts, b, "C18")
    tokfn = an.role("token")
    scope = b.scope(facts.fn(tokfn).module)
    c.trusted = ["winnow 0.6.7: .context() pushes on the error while it propagates outward; cut_err stops alternation; and_then restores the position to the start of the word on inner failure", "E1 extractor"]
    c.explanation = (
        "Reachability of the keyword and of the offending word to the message, decided structurally: every argument-taking alternative carries a label equal to its keyword directly inside its category label, "
        "the category labels are exactly the strings the error folder matches on, the argument is under cut (so the error surfaces at the argument with its labels), the word is re-read with the grammar's own word parser "
        "from the input position the parser left, and the dispatch table yields, for every (category, description present/absent) combination, a variant whose message template mentions both keyword and word."
    )
    c.decided = ["keyword and word reach the message for every argument-taking keyword at every position", "unknown word is quoted", "message never empty"]
    c.not_decided = ["wording of the messages"]
    from .. import report as _rep

    _rep.require(c, facts, "c06", "C18.reread", "word parser", "the word parser used to re-read the offending word accepts every word", lambda o: o["rule"] == "C06.quoting", "the offending word is quoted by re-reading it with the grammar's word parser; that this parser returns every bare word unchanged (no verify/map on the bare form) is decided by C06.quoting")
    alts = kw.alternatives(g, tokfn)
    cats = voc["category_labels"]  # test/action/global -> label string
    # the strings SyntaxContext::new matches on
    newfn = facts.fn("SyntaxContext::new")
    matched = sorted({n["rhs"]["v"] for n in find_all(newfn.body, lambda n: n.get("k") == "binary" and n["op"] == "==" and n["rhs"].get("k") == "lit" and n["rhs"].get("t") == "str")})
    c.ob("C18.label", newfn.key, "category labels matched by the error folder", matched == sorted(cats.values()), "SyntaxContext::new matches on %s; the grammar's category labels are %s" % (matched, sorted(cats.values())))
    # fold semantics: for each category: `Label(s) if *s == CAT => field = Some("")` followed by `Label(s) if expecting_<field>() => field = Some(s)`
    fold_ok = fold_semantics(newfn, facts)
    c.ob("C18.label", newfn.key, "the label following a category label becomes that category's keyword", not fold_ok, "; ".join(fold_ok) or "for test/action/global: category label resets the field to \"\", the next label fills it")
    narg = 0
    for a in alts:
        if a.lit is None:
            continue
        ctor = kw.ctor_of_transform(a, scope)
        if ctor is None or ctor.startswith("Token::"):
            continue
        fr = kw.flatten_rest(g, a.rest)
        if not any(x["keep"] for x in fr):
            continue
        narg += 1
        labels = [s_ for kind, s_ in a.labels if kind == "label"]
        cat = {"Test": "test", "Action": "action", "GlobalOption": "global"}.get(ctor.split("::")[0])
        want_cat = cats.get(cat)
        ok = len(labels) >= 2 and labels[0] == a.lit and labels[1] == want_cat
        c.ob(
            "C18.label",
            a.site,
            a.lit,
            ok,
            "labels from the argument outward: %s; required: keyword label %r directly inside category label %r" % (labels, a.lit, want_cat),
            witness="%s <bad argument>  → the message would name %r" % (a.lit, labels[0] if labels else None) if not ok else None,
        )
        # the keyword is recognised only as a whole word: before anything is committed (cut), a non-consuming guard must
        # have seen a blank, a ')' or the end of input.  Otherwise `-names foo` is reported as a bad argument `s` of `-name`
        # instead of the unknown word `-names`.
        from . import c05 as _c05

        bnd = peg.cs_union(peg.named_set("multispace"), peg.cs_in(")"))
        g0 = fr[0] if fr else None
        n0 = g0["n"] if g0 else None
        while n0 is not None and n0["t"] in ("ctx",):
            n0 = n0["p"]
        if n0 is not None and n0["t"] == "ref":
            n0 = g.open(n0)
        whole = g0 is not None and not g0["cut"] and not g0["keep"] and n0["t"] == "peek" and _c05.requires_boundary(g, n0["p"], bnd)
        c.ob(
            "C18.keyword",
            a.site,
            a.lit,
            whole,
            ("after %r a look-ahead requires a blank, ')' or the end of input before the parser commits to this keyword" % a.lit)
            if whole
            else ("after %r the parser commits (cut_err) without having checked that the keyword ends there: a longer word such as %r is reported as an invalid argument %r of %r, not as the unknown word it is" % (a.lit, a.lit + "s", "s", a.lit)),
            witness="%ss foo" % a.lit if not whole else None,
            nontrivial=False,
        )
        fr_c = fr[1:] if whole else fr
        lastkept = max(i for i, x in enumerate(fr_c) if x["keep"])
        cut_ok = all(x["cut"] for x in fr_c[: lastkept + 1])
        c.ob("C18.cut", a.site, a.lit, cut_ok, "blank and argument after %r are under cut_err: the error keeps its labels instead of being reset by the enclosing alt" % a.lit if cut_ok else "argument of %r is not under cut_err: on a bad argument alt() backtracks, the labels are lost and the word is reported as an unknown token" % a.lit, nontrivial=False)
    c.floor("argument-taking keywords", narg, 40)
    # C18.position: a hard error inside an argument leaves the input at the start of the offending word
    npos = 0
    for a in alts:
        if a.lit is None:
            continue
        ctor = kw.ctor_of_transform(a, scope)
        if ctor is None or ctor.startswith("Token::"):
            continue
        for x in kw.flatten_rest(g, a.rest):
            if not x["keep"]:
                continue
            bad = hard_errors_after_consumption(g, x["n"])
            npos += 1
            c.ob(
                "C18.position",
                a.site,
                "%s argument" % a.lit,
                not bad,
                "every hard error in the argument parser is raised before anything of the word is consumed, or inside and_then (which rewinds to the start of the word)" if not bad else "hard error raised after part of the word was consumed and outside and_then: %s — the re-read word is the remainder (or empty), not the offending word" % bad[:2],
                witness="%s <invalid word>" % a.lit if bad else None,
                nontrivial=False,
            )
    c.floor("arguments checked for error position", npos, 40)
    # C18.no-collision: labels below the keyword level never equal a category label
    inner_labels = set()
    for a in alts:
        for r in a.rest:
            def w(n):
                if n["t"] == "ctx" and n["kind"] == "label":
                    inner_labels.add(n["s"])
            g.walk(r["n"], w)
    coll = inner_labels & set(cats.values())
    c.ob("C18.no-collision", tokfn, "argument sub-parsers carry no category label", not coll, "labels inside arguments: %s; colliding with categories: %s" % (sorted(inner_labels), sorted(coll)))
    # C18.reread
    disp = facts.fn(an.role("dispatch"))
    inp = None
    for nme, ty in disp.params:
        if ty.startswith("&mut&"):
            inp = nme
    reread = None
    for st in disp.body["stmts"]:
        if st["k"] == "let" and st["init"] is not None:
            base, chain = rx.method_chain(st["init"])
            ms = [(m, a_) for m, a_, _ in chain]
            if ms and ms[0][0] == "parse_next" and len(ms[0][1]) == 1 and rx.is_var(ms[0][1][0], inp):
                reread = (st, base, ms)
    okr = False
    det = "no re-read of the next word found in %s" % disp.key
    if reread:
        st, base, ms = reread
        env = {"__module": disp.module, "__tsubst": {}}
        r = b._resolve_fn_path(base, env) if base["k"] == "path" else None
        word_parser = "<String as Parseable>::parse"
        default = ms[1] if len(ms) > 1 else None
        dflt_ok = default is not None and default[0] in ("unwrap_or", "unwrap_or_default", "unwrap_or_else") and (default[0] == "unwrap_or_default" or any(n.get("v") == "" for n in find_all(default[1], lambda n: n.get("k") == "lit" and n.get("t") == "str")) or "String::new" in src(default[1]))
        okr = r is not None and r[0] == word_parser and dflt_ok
        det = "next word read by %s from `%s`, default %s" % (r[0] if r else src(base), inp, src(default[1]) if default else None)
    c.ob("C18.reread", disp.key, "the word is re-read with the grammar's word parser, empty when missing", okr, det)
    pub = facts.fn(an.role("parse_pub"))
    innerk = an.role("parse_inner")
    calls_inner = find_all(pub.body, lambda n: n.get("k") == "call" and n["f"]["k"] == "path" and n["f"]["segs"][-1] == innerk.split("::")[-1])
    calls_disp = find_all(pub.body, lambda n: n.get("k") == "call" and n["f"]["k"] == "path" and n["f"]["segs"][-1] == disp.name)
    same = False
    if calls_inner and calls_disp:
        a0 = rx.var_name(calls_inner[0]["args"][0]) if calls_inner[0]["args"] else None
        a1 = rx.var_name(calls_disp[0]["args"][-1]) if calls_disp[0]["args"] else None
        same = a0 is not None and a0 == a1 and calls_inner[0]["args"][0]["k"] == "ref" and calls_inner[0]["args"][0]["mut"]
    c.ob("C18.reread", pub.key, "dispatch reads from the input position the parser left", same, "the same `&mut input` binding is passed to the inner parser and to dispatch: %s" % same)
    # C18.total
    se = facts.enum("SyntaxError")
    tmpl = error_templates(se)
    ms_ = find_all(disp.body, lambda n: n.get("k") == "match")
    table_ok = len(ms_) == 1 and ms_[0]["scrut"]["k"] == "tuple" and len(ms_[0]["scrut"]["elems"]) == 4
    fields = [src(x).split(".")[-1] for x in ms_[0]["scrut"]["elems"]] if table_ok else []
    c.ob("C18.total", disp.key, "dispatch is one match over (test, action, global, description)", table_ok and fields == ["test", "action", "global", "description"], "scrutinee fields %s" % fields)
    if table_ok:
        arms = ms_[0]["arms"]
        for cat_i, cat in enumerate(("test", "action", "global")):
            for desc in ("S", "N"):
                vals = ["N", "N", "N", desc]
                vals[cat_i] = "S"
                chosen = None
                for arm in arms:
                    p = arm["pat"]
                    if p["k"] == "tuple" and len(p["elems"]) == 4 and all(pat_matches(e, v) for e, v in zip(p["elems"], vals)):
                        chosen = arm
                        break
                    if rx.is_catchall(p):
                        chosen = arm
                        break
                variant = None
                kw_bound = False
                if chosen is not None:
                    chain, cargs = rx.ctor_chain(chosen["body"])
                    variant = chain[-1].split("::")[-1] if chain else None
                    # the keyword binding of this category and the re-read word are passed
                    if chosen["pat"]["k"] == "tuple":
                        binds = rx.pat_bindings(chosen["pat"]["elems"][cat_i])
                        argn = [rx.var_name(x) for x in (cargs or [])]
                        kw_bound = bool(binds) and binds[0] in argn and (rx.pat_bindings(reread[0]["pat"])[0] if reread else None) in argn
                t = tmpl.get(variant, "")
                ok = variant is not None and "{0}" in t and "{1}" in t and kw_bound
                c.ob(
                    "C18.total",
                    disp.key,
                    "(%s, description %s)" % (cat, "present" if desc == "S" else "absent"),
                    ok,
                    "selected variant %s with message %r; it %s" % (variant, t, "mentions keyword {0} and word {1}" if ok else "does not carry both the keyword and the word"),
                    witness={"test": "-name", "action": "-print -fls", "global": "-threads"}[cat] + ("" if desc == "N" else " <bad>") if not ok else None,
                )
        # no category: the unknown word is quoted
        vals = ["N", "N", "N", "S"]
        chosen = None
        for arm in arms:
            p = arm["pat"]
            if rx.is_catchall(p) or (p["k"] == "tuple" and all(pat_matches(e, v) for e, v in zip(p["elems"], vals))):
                chosen = arm
                break
        chain, cargs = rx.ctor_chain(chosen["body"]) if chosen else (None, None)
        variant = chain[-1].split("::")[-1] if chain else None
        okn = variant is not None and "{0}" in tmpl.get(variant, "") and reread is not None and [rx.var_name(x) for x in (cargs or [])] == [rx.pat_bindings(reread[0]["pat"])[0]]
        c.ob("C18.total", disp.key, "(no category) quotes the word", okn, "variant %s, message %r" % (variant, tmpl.get(variant)))
    # C18.nonempty
    for en in ("SyntaxError", "ParserError", "GrammarError"):
        for v, t in error_templates(facts.enum(en)).items():
            const = re.sub(r"\{[^}]*\}", "", t).strip()
            c.ob("C18.nonempty", en, v, len(const) >= 3, "template %r has constant text %r" % (t, const), nontrivial=False)
    wrap = error_templates(facts.enum("ParserError"))
    c.ob("C18.nonempty", "ParserError", "wrapper shows the inner message", all("{0}" in t for t in wrap.values()) and len(wrap) == len(facts.variants("ParserError")), "wrappers %s" % wrap, nontrivial=False)
    c.control("C18.total", not pat_matches({"k": "tstruct", "segs": ["Some"], "elems": []}, "N"), "pattern matcher distinguishes Some from None")


def hard_errors_after_consumption(g, ir, consumed=False, depth=0, seen=None):
    """List of hard-error nodes (cut_err around a parser that may fail) reachable after a non-nullable parser has consumed
    input, outside the inner parser of an and_then."""
    seen = seen if seen is not None else set()
    t = ir["t"]
    out = []
    if depth > 40:
        return out
    if t == "cut":
        if consumed:
            out.append(peg.show(ir)[:60])
        # inside the cut the same rule applies to nested cuts further right
        out += hard_errors_after_consumption(g, ir["p"], consumed, depth + 1, seen)
        return out
    if t == "andthen":
        out += hard_errors_after_consumption(g, ir["outer"], consumed, depth + 1, seen)
        return out  # inner failures rewind to the start of the outer match
    if t == "seq":
        cons = consumed
        for i in ir["items"]:
            out += hard_errors_after_consumption(g, i["p"], cons, depth + 1, seen)
            if not g.nullable(i["p"]):
                cons = True
        return out
    if t == "alt":
        for a_ in ir["alts"]:
            out += hard_errors_after_consumption(g, a_, consumed, depth + 1, seen)
        return out
    if t in ("ctx", "map", "value", "trymap", "verify", "fold", "rep", "peek"):
        return hard_errors_after_consumption(g, ir["p"], consumed, depth + 1, seen)
    if t in ("reptill", "sep"):
        out += hard_errors_after_consumption(g, ir["p"], consumed, depth + 1, seen)
        other = ir["stop"] if t == "reptill" else ir["sep"]
        out += hard_errors_after_consumption(g, other, True, depth + 1, seen)
        return out
    if t == "ref":
        key = (ir["fn"], tuple(sorted((ir.get("targs") or {}).items())), consumed)
        if key in seen:
            return out
        seen.add(key)
        return hard_errors_after_consumption(g, g.deref(ir), consumed, depth + 1, seen)
    if t == "fnbody":
        cons = consumed
        for p_ in g.body_seq(ir):
            out += hard_errors_after_consumption(g, p_, cons, depth + 1, seen)
            if not g.nullable(p_):
                cons = True
        return out
    return out


class _NoEval(Exception):
    pass


def _opt_eval(e, env, facts, selfty, depth=0):
    """Evaluate a boolean / Option<String> / string expression over concrete probe values. env: name -> value, where a value
    is None | ("some", str) for options, a str for strings, a bool; fields of the accumulator are looked up as 'acc.<f>'."""
    if depth > 8:
        raise _NoEval("depth")
    e = rx.peel(e)
    k = e["k"]
    ev = lambda x: _opt_eval(x, env, facts, selfty, depth + 1)
    if k == "paren":
        return ev(e["e"])
    if k == "lit":
        if e.get("t") in ("str", "bool"):
            return e["v"]
        raise _NoEval("literal")
    if k == "path":
        nm = "::".join(e["segs"])
        if nm in env:
            return env[nm]
        if nm == "None":
            return None
        raise _NoEval("name %s" % nm)
    if k == "field":
        base = rx.peel(e["e"])
        if base.get("k") == "path" and len(base["segs"]) == 1:
            key = "%s.%s" % (base["segs"][0], e["name"])
            if key in env:
                return env[key]
        raise _NoEval("field %s" % src(e))
    if k == "unary" and e["op"] == "!":
        return not ev(e["e"])
    if k == "binary":
        if e["op"] == "&&":
            return ev(e["lhs"]) and ev(e["rhs"])
        if e["op"] == "||":
            return ev(e["lhs"]) or ev(e["rhs"])
        if e["op"] in ("==", "!="):
            r = ev(e["lhs"]) == ev(e["rhs"])
            return r if e["op"] == "==" else not r
        raise _NoEval("operator")
    if k == "call" and e["f"]["k"] == "path":
        segs = e["f"]["segs"]
        if segs == ["Some"] and len(e["args"]) == 1:
            return ("some", ev(e["args"][0]))
        if segs[-2:] in (["String", "new"], ["String", "default"]) and not e["args"]:
            return ""
        if segs[-2:] == ["String", "from"] and len(e["args"]) == 1:
            return ev(e["args"][0])
        # associated function of the same type: inline
        if len(segs) == 2 and segs[0] in ("Self", selfty):
            fn = facts.fns.get("%s::%s" % (selfty, segs[1]))
            if fn is not None and fn.node.get("self") is None and len(fn.params) == len(e["args"]):
                env2 = {n_: ev(a) for (n_, _), a in zip(fn.params, e["args"])}
                t = rx.tail_expr(fn.body)
                if t is not None and len(fn.body["stmts"]) == 1:
                    return _opt_eval(t, env2, facts, selfty, depth + 1)
        raise _NoEval("call %s" % src(e)[:40])
    if k == "mcall":
        m = e["m"]
        recv = rx.peel(e["recv"])
        # method of the accumulator's own type: inline with self := receiver's fields
        if recv.get("k") == "path" and len(recv["segs"]) == 1 and ("%s::%s" % (selfty, m)) in facts.fns and not any(recv["segs"][0] == n_ for n_ in env):
            fn = facts.fns["%s::%s" % (selfty, m)]
            t = rx.tail_expr(fn.body)
            if t is not None and len(fn.body["stmts"]) == 1 and fn.node.get("self") is not None:
                env2 = {("self." + k_.split(".", 1)[1]): v for k_, v in env.items() if k_.startswith(recv["segs"][0] + ".")}
                for (n_, _), a in zip([p_ for p_ in fn.params if p_[0] != "self"], e["args"]):
                    env2[n_] = ev(a)
                return _opt_eval(t, env2, facts, selfty, depth + 1)
        v = ev(e["recv"])
        if m in ("as_ref", "as_deref", "as_str", "clone", "to_owned", "to_string", "as_mut", "borrow") and not e["args"]:
            return v
        if m == "is_empty" and isinstance(v, str):
            return v == ""
        if m == "is_some":
            return v is not None
        if m == "is_none":
            return v is None
        if m in ("is_some_and", "map_or", "is_none_or") and e["args"]:
            clo = e["args"][-1]
            if clo["k"] != "closure" or len(clo["params"]) != 1:
                raise _NoEval("closure")
            if v is None:
                return {"is_some_and": False, "is_none_or": True}.get(m) if m != "map_or" else ev(e["args"][0])
            pn = rx.closure_params(clo)[0].get("name")
            return _opt_eval(clo["body"], dict(env, **{pn: v[1]}), facts, selfty, depth + 1)
        if m == "unwrap_or_default" and v is None:
            return ""
        raise _NoEval("method %s" % m)
    if k == "macro" and e["name"] == "matches":
        v = ev(e["e"])
        return _pat_match(e["pat"], v, env, facts, selfty, e.get("guard"), depth)
    raise _NoEval(k)


def _pat_match(p, v, env, facts, selfty, guard, depth):
    while p["k"] in ("ref", "typed"):
        p = p["pat"]
    if p["k"] == "or":
        return any(_pat_match(c_, v, env, facts, selfty, guard, depth) for c_ in p["cases"])
    if p["k"] == "wild":
        ok, bind = True, {}
    elif p["k"] == "ident" and p["name"] == "None":
        ok, bind = v is None, {}
    elif p["k"] == "path" and p["segs"] == ["None"]:
        ok, bind = v is None, {}
    elif p["k"] == "ident":
        ok, bind = True, {p["name"]: v}
    elif p["k"] == "tstruct" and p["segs"] == ["Some"] and len(p["elems"]) == 1:
        if v is None:
            return False
        q = p["elems"][0]
        while q["k"] in ("ref", "typed"):
            q = q["pat"]
        if q["k"] == "lit":
            ok, bind = v[1] == q["v"], {}
        elif q["k"] == "ident":
            ok, bind = True, {q["name"]: v[1]}
        elif q["k"] == "wild":
            ok, bind = True, {}
        else:
            raise _NoEval("pattern")
    elif p["k"] == "lit":
        ok, bind = v == p["v"], {}
    else:
        raise _NoEval("pattern %s" % p["k"])
    if ok and guard is not None:
        return bool(_opt_eval(guard, dict(env, **bind), facts, selfty, depth + 1))
    return ok


def fold_semantics(newfn, facts):
    """The accumulator is updated once per context entry, in order; per category: `Label(s) if s == CAT` resets the field to
    Some(""), and `Label(s) if <field is Some("")>` fills it with s.  Guards are *evaluated* (helper methods inlined) on the
    probe states None / Some("") / Some("x"), so any spelling of "the field awaits its name" is recognised."""
    probs = []
    selfty = F.norm_ty(newfn.impl["self_ty"]) if newfn.impl is not None else "SyntaxContext"
    pname = newfn.params[0][0] if newfn.params else None
    # the traversal: raw.iter().fold(init, |acc, x| ..) or `for x in raw { .. }`
    folds = find_all(newfn.body, lambda n: n.get("k") == "mcall" and n["m"] == "fold")
    fors = find_all(newfn.body, lambda n: n.get("k") == "for")
    accname, elem = None, None
    if len(folds) == 1 and not fors:
        base, chain = rx.method_chain(folds[0]["recv"])
        ms = [m_ for m_, _, _ in chain]
        if not (rx.is_var(base, pname) and ms in (["iter"], ["into_iter"])):
            probs.append("the fold does not visit every context entry in order: %s.%s" % (src(base), ".".join(ms)))
        clo = folds[0]["args"][1] if len(folds[0]["args"]) == 2 else None
        if clo is not None and clo["k"] == "closure" and len(clo["params"]) == 2:
            accname, elem = [(rx.pat_bindings(p_) or [None])[0] for p_ in rx.closure_params(clo)]
            t = rx.tail_expr(clo["body"])
            if not (t is not None and rx.is_var(t, accname)):
                probs.append("the fold step does not return the accumulator")
        else:
            probs.append("fold step is not a two-parameter closure")
    elif len(fors) == 1 and not folds:
        base, chain = rx.method_chain(rx.peel(fors[0]["iter"]))
        ms = [m_ for m_, _, _ in chain]
        if not (rx.is_var(base, pname) and ms in ([], ["iter"], ["into_iter"])):
            probs.append("the loop does not visit every context entry in order: %s" % src(fors[0]["iter"]))
        elem = (rx.pat_bindings(fors[0]["pat"]) or [None])[0]
        t = rx.tail_expr(newfn.body)
        accname = rx.var_name(t) if t is not None else None
        if accname is None:
            probs.append("the function does not return the accumulator")
    else:
        probs.append("expected exactly one traversal (fold or for) of the context list, found %d" % (len(folds) + len(fors)))
    ms = find_all(newfn.body, lambda n: n.get("k") == "match")
    if not ms:
        return probs + ["no match in %s" % newfn.key]
    mt = ms[0]
    if elem is not None and not rx.is_var(mt["scrut"], elem):
        probs.append("the match is not on the visited entry")
    arms = mt["arms"]
    flds = ("test", "action", "global")
    seq = []
    for arm in arms:
        gd = arm["guard"]
        if gd is None:
            continue
        labvar = (rx.pat_bindings(arm["pat"]) or [None])[0]
        body = rx.peel(arm["body"])
        fld = body["lhs"]["name"] if body["k"] == "assign" and body["lhs"]["k"] == "field" and rx.is_var(body["lhs"]["e"], accname) else None
        # what does the guard test?  (a) the label equals a constant   (b) a field is Some("")
        kind = None
        try:
            hits = [cat for cat in ("test", "action", "global_option", "zzz") if _opt_eval(gd, dict({"%s.%s" % (accname, f_): None for f_ in flds}, **{labvar: cat}), facts, selfty) is True]
            if len(hits) == 1 and hits[0] != "zzz":
                kind = ("label", hits[0])
        except _NoEval:
            pass
        if kind is None:
            for f_ in flds:
                try:
                    tt = []
                    for val in (None, ("some", ""), ("some", "x")):
                        env = {"%s.%s" % (accname, g_): (val if g_ == f_ else None) for g_ in flds}
                        env[labvar] = "zzz"
                        tt.append(_opt_eval(gd, env, facts, selfty))
                    if tt == [False, True, False]:
                        kind = ("awaits", f_)
                        break
                except _NoEval:
                    continue
        rhsv = None
        if body["k"] == "assign":
            try:
                rhsv = _opt_eval(body["rhs"], {labvar: "LBL"}, facts, selfty)
            except _NoEval:
                rhsv = "?"
        seq.append((kind, fld, rhsv))
    for cat, fld in (("test", "test"), ("action", "action"), ("global_option", "global")):
        i = next((k_ for k_, s_ in enumerate(seq) if s_[0] == ("label", cat)), None)
        if i is None:
            probs.append("no arm for label %r" % cat)
            continue
        if seq[i][1] != fld or seq[i][2] != ("some", ""):
            probs.append("label %r sets %s = %s" % (cat, seq[i][1], seq[i][2]))
        j = next((k_ for k_, s_ in enumerate(seq) if s_[0] == ("awaits", fld)), None)
        if j is None or seq[j][1] != fld or seq[j][2] != ("some", "LBL"):
            probs.append("no arm filling %s from the next label (an arm guarded by '%s is Some(\"\")' assigning Some(label))" % (fld, fld))
    return probs
