"""C16 — lock discipline of the emitted code templates (static sufficient condition for record integrity)."""
import re

from .. import facts as F
from .. import codegen, emit, mgr, sexp, rx
from ..facts import src, find_all
from . import c10

WRITE_PRIMS = {"display", "write", "write-char", "write-string", "write-line", "put-string", "put-char", "put-bytevector", "put-u8", "newline", "simple-format", "format", "force-output", "flush-output-port"}
LOCKS = {"with-mutex", "monitor", "lock-mutex"}
MUTEX_SITES_FLOOR = 3  # framed default frame mutex, plain stdout record, plain file record (path copies of one site count again)


def analyse_binding(text):
    """-> dict(writes=[(prim, port, mutex_in_scope, depth_of_locks)], nested=[...])"""
    forms = sexp.parse(emit.scheme_tokens(text))
    writes, nested, sections = [], [], []

    def w(f, path):
        head = f[0] if f and isinstance(f[0], str) else None
        if head in WRITE_PRIMS:
            if head == "format" and len(f) > 1 and f[1] == "#f":
                return
            port = None
            for x in f[1:]:
                if isinstance(x, str) and x.startswith("%lf3:port:"):
                    port = x
            locks = [(h, frm) for h, frm in path if h in LOCKS]
            writes.append(dict(prim=head, port=port, locks=[frm[1] if len(frm) > 1 and isinstance(frm[1], str) else None for _, frm in locks], section=id(locks[-1][1]) if locks else None, form=sexp.show(f)))
        if head in LOCKS:
            outer = [h for h, _ in path if h in LOCKS]
            if outer:
                nested.append(sexp.show(f)[:80])

    for f in forms:
        sexp.walk(f, w)
    return dict(writes=writes, nested=nested, forms=forms)


def run(c, facts, tier):
    c.trusted = ["E1 extractor", "emission interpreter", "Guile: with-mutex releases on non-local exit; make-printer and the runtime's own print procedures are atomic per record (assumption)"]
    c.assumptions = ["make-printer (LiPE runtime) writes one whole terminated record under the mutex it is given", "(print-relative-path) / (print-file-fid) of the runtime are atomic per record"]
    c.explanation = (
        "Schedules of Guile threads cannot be explored statically; decided instead is the lock discipline of every code template the generator can emit: each write primitive on a shared port is "
        "lexically inside (with-mutex M …) with M the mutex allocated together with that port, the payload and the separator+tag writes share one critical section, every framed printer delegates to the "
        "frame procedure, every plain printer is make-printer over a (port, mutex) pair of one port record, and no template takes a second lock (no deadlock)."
    )
    c.decided = ["every write under the port's mutex", "whole frame in one critical section", "delegation", "single lock ⇒ no deadlock"]
    c.not_decided = ["the interleaving semantics itself", "behaviour of make-printer and of the runtime's own print procedures", "direct runtime prints mixed with printers in plain mode"]
    framed, plain = c10.framed_manager(facts)
    templates = []  # (site, text)
    for M in codegen.MANAGERS:
        dv = mgr.default_vars(facts, M)
        for t in dv["vars"]:
            templates.append(("<%s as Default>::default" % M, t, dv))
        for meth in ("get_printer", "get_file_printer", "get_matcher"):
            for p in mgr.paths(facts, M, meth):
                for fld, text, toks, forms in p.pushes:
                    templates.append(("%s::%s" % (M, meth), text, None))
    seen = set()
    nwrites = 0
    for site, text, dv in templates:
        if (site, text) in seen:
            continue
        seen.add((site, text))
        a = analyse_binding(text)
        for wr in a["writes"]:
            nwrites += 1
            ok = bool(wr["locks"])
            pair_ok = True
            det = "%s in `%s`" % (wr["form"], text[:70])
            if ok and dv is not None and wr["port"]:
                # the mutex must be the one allocated with that port (OpenPort{port,mutex} of the default struct)
                outp = dv["fields"].get("output")
                if outp and outp.get("v") == "struct":
                    pn = emit.canon(outp["fields"].get("port"))
                    mn = emit.canon(outp["fields"].get("mutex"))
                    pair_ok = wr["port"] == "%%lf3:port:%s" % pn and wr["locks"][-1] == "%%lf3:mutex:%s" % mn
                    det += "; port record is (port:%s, mutex:%s)" % (pn, mn)
            c.ob("C16.locked-writes", site, "%s → %s" % (wr["prim"], wr["port"]), ok and pair_ok, det + ("" if ok else " — NOT inside with-mutex: two threads can interleave inside a record"), witness="two threads printing concurrently" if not (ok and pair_ok) else None)
        if a["nested"]:
            c.ob("C16.lock-order", site, "no lock taken inside another", False, "nested critical sections: %s" % a["nested"])
        # one-section: all writes of a frame procedure in the same critical section
        if len(a["writes"]) >= 2:
            secs = {wr["section"] for wr in a["writes"]}
            c.ob("C16.one-section", site, "payload and separator+tag are written in one critical section", len(secs) == 1 and None not in secs, "%d writes in %d critical section(s): %s" % (len(a["writes"]), len(secs), [wr["form"] for wr in a["writes"]]))
    c.ob("C16.lock-order", "all templates", "at most one mutex is held at any time", True, "%d templates scanned; none nests with-mutex (see per-template violations otherwise)" % len(seen), nontrivial=False)
    # frame procedure exists in the framed manager and is what printers call
    if framed:
        dv = mgr.default_vars(facts, framed)
        frame_names = []
        for t in dv["vars"]:
            forms = sexp.parse(emit.scheme_tokens(t))
            if forms and isinstance(forms[0], list) and analyse_binding(t)["writes"]:
                frame_names.append(forms[0][0])
        c.ob("C16.delegation", "<%s as Default>::default" % framed, "one frame procedure owns all writes to the shared port", len(frame_names) == 1, "bindings that write: %s" % frame_names)
        for meth in ("get_printer", "get_file_printer"):
            for p in mgr.paths(facts, framed, meth):
                for fld, text, toks, forms in p.pushes:
                    f = forms[0] if forms and isinstance(forms[0], list) else None
                    ok = False
                    if f and len(f) == 2 and isinstance(f[1], list) and f[1][0] == "lambda" and len(f[1]) == 3:
                        body = f[1][2]
                        prm = f[1][1]
                        ok = isinstance(body, list) and frame_names and body[0] == frame_names[0] and len(body) == 3 and body[1] in prm
                    c.ob("C16.delegation", "%s::%s" % (framed, meth), "framed printer = (lambda (line) (frame line tag))", ok, "binding `%s`" % text[:90])
    if plain:
        for meth in ("get_printer", "get_file_printer"):
            for p in mgr.paths(facts, plain, meth):
                for fld, text, toks, forms in p.pushes:
                    f = forms[0] if forms and isinstance(forms[0], list) else None
                    if not (f and isinstance(f[0], str) and f[0].startswith("%lf3:print:")):
                        continue
                    ok = False
                    det = "binding `%s`" % text[:120]
                    if len(f) == 2 and isinstance(f[1], list) and f[1][0] == "make-printer" and len(f[1]) == 4:
                        pm, mm = mgr.NAME.fullmatch(f[1][1]), mgr.NAME.fullmatch(f[1][2])
                        if pm and mm and pm.group(1) == "port" and mm.group(1) == "mutex":
                            pi, mi = pm.group(2).strip("{}"), mm.group(2).strip("{}")
                            ok = pi.endswith(".port") and mi.endswith(".mutex") and pi[: -len(".port")] == mi[: -len(".mutex")]
                            if not ok:
                                # the record was allocated on this very path: OpenPort{mutex: M, port: P} stored as the port record
                                recs = re.findall(r"OpenPort\{mutex:([^,{}]*),port:([^,{}]*)\}", " ".join(e for e in p.row["effects"] if e.startswith(("set ", "insert "))))
                                ok = (mi, pi) in recs
                            det += " — port and mutex come from the same port record: %s" % ok
                    c.ob("C16.delegation", "%s::%s" % (plain, meth), "plain printer = make-printer over one (port, mutex) record [%s]" % (p.cond or "")[:40], ok, det)
                # the record itself pairs names allocated together
                for fld, kv in p.inserts:
                    if "OpenPort{" in kv[-1]:
                        m = re.search(r"OpenPort\{mutex:(v[+-]?\d*),port:(v[+-]?\d*)\}", kv[-1])
                        ok = bool(m) and m.group(1) != m.group(2)
                        c.ob("C16.delegation", "%s::%s" % (plain, meth), "port record pairs a fresh port with its own fresh mutex", ok, "record %s" % kv[-1], nontrivial=False)
    # one mutex per destination: a (port, mutex) record is created only when the cache for that destination is known to be
    # empty on that path, it is stored in the cache on the same path, and no path of the manager is left unmodelled
    nmutex = [sum(1 for _s, t_, dv_ in templates if dv_ is not None and "(make-mutex)" in t_)]
    for M in codegen.MANAGERS:
        for meth in ("get_printer", "get_file_printer"):
            site = "%s::%s" % (M, meth)
            for p in mgr.paths(facts, M, meth):
                unk = list(p.row.get("unknown") or [])
                # a closure handed to a combinator (`unwrap_or_else(|| self.open_port(..))`) is an opaque term for the path
                # interpreter: whatever its body allocates, stores or fails to store is invisible here — fail closed (seed C16/AE)
                # — only where the closure's result is the (port, mutex) record itself: a pure closure elsewhere on the path
                # (`terminator.map(|c| c as u8)`) hides no allocation
                rec_terms = re.findall(r"%lf3:(?:port|mutex):\{([^{}]*)\}", " ".join(t for _f, t, _t, _fm in p.pushes)) + re.findall(r"self\.printers\.get\(\((.*?),@\d\)\)", p.cond or "")
                if any("<closure>" in t for t in rec_terms):
                    unk.append("a closure whose body is not followed yields the (port, mutex) record of this path")
                if unk:
                    c.ob("C16.delegation", site, "path fully modelled [%s]" % (p.cond or "")[:50], False, "the path contains constructs the interpreter cannot follow (%s): which mutex protects the port on later calls is not decided" % unk[:2], witness="-print -print -print (three stdout printers)")
                mut = [t for fld, t, toks, forms in p.pushes if "(make-mutex)" in t]
                nmutex[0] += len(mut)
                for t in mut:
                    mm = mgr.NAME.fullmatch(sexp.parse(emit.scheme_tokens(t))[0][0]) if sexp.parse(emit.scheme_tokens(t)) else None
                    mi = mm.group(2).strip("{}") if mm else None
                    cached = [e for e in p.row["effects"] if (e.startswith("set ") or e.startswith("insert ")) and mi is not None and re.search(r"OpenPort\{mutex:%s,port:[^{}]*\}" % re.escape(mi), e)]
                    absent = False
                    for e in cached:
                        if e.startswith("set "):
                            fld = e.split()[1]
                            absent = absent or ("self.%s=None" % fld) in (p.cond or "")
                        else:
                            m_ = re.match(r"insert (\w+) \[(.*)\]$", e)
                            if m_:
                                key = codegen.split_top(m_.group(2))[0].strip()
                                absent = absent or ("self.%s.get(%s)=None" % (m_.group(1), key)) in (p.cond or "")
                                # the cache is per *port*: a key that also names the record terminator gives one port a second
                                # (port, mutex) record — and a second mutex — for every terminator used on it
                                fn_ = facts.fn(codegen.mgr_key(facts, M, meth))
                                tpos = ["@%d" % i_ for i_, (n_, t_) in enumerate([p_ for p_ in fn_.params if p_[0] != "self"]) if "Option<char>" in (t_ or "").replace(" ", "")]
                                hit_ = [t_ for t_ in tpos if re.search(re.escape(t_) + r"(?!\d)", key)]
                                parts_ = codegen.split_top(m_.group(2))
                                if "OpenPort{" in key or not any("OpenPort{" in x_ for x_ in parts_[1:]):
                                    continue  # the record is part of the key (the printer table keyed by port and terminator), not the cached value
                                c.ob("C16.delegation", site, "the (port, mutex) record is cached per port, not per (port, terminator) [%s]" % (p.cond or "")[:40], not hit_, "cache key `%s`%s" % (key, "" if not hit_ else " contains the terminator parameter %s: printers with different terminators on the same port lock different mutexes" % hit_), witness="-print -printf '%p %s\\n' with 2 threads" if hit_ else None)
                    c.ob(
                        "C16.delegation",
                        site,
                        "a mutex is created only for a destination that has none yet [%s]" % (p.cond or "")[:50],
                        bool(cached) and absent,
                        "binding `%s`: stored in the destination cache on this path: %s; the path condition says the cache was empty: %s — otherwise two printers on one port get two mutexes" % (t[:60], bool(cached), absent),
                        witness="-print -print -print with 2 threads" if not (cached and absent) else None,
                    )
    from .. import report as _rep

    _rep.require(c, facts, "c02", "C16.delegation", "format records", "a format that ends in the newline escape is emitted with that newline at its end", lambda o: o["rule"] in ("C02.elements", "C02.fmt", "C02.fmt-arity"), "plain mode relies on the last element of the *format* (C10.predicate); that the emitted template is the concatenation of what every element contributes, in order and with nothing cut, is decided by the C02 element tables")
    _rep.require(c, facts, "c10", "C16.delegation", "mode choice", "plain mode is used only when every record is a newline-terminated line", lambda o: o["rule"] in ("C10.predicate", "C10.choice"), "in plain mode records of different printers share stdout as lines; that every stdout record then ends in a newline is the mode rule decided by C10.predicate/C10.choice")
    # C16.no-bypass: shared with C10.all-framed
    arows = codegen.expand(codegen.table(facts, "<Action as TargetScheme>::compile"))
    for key, row in sorted(arows.items()):
        m = re.match(r"self∈Action::(\w+)", key)
        if not m or not row["outcome"].startswith("ok") or m.group(1) not in c10.PRINTING:
            continue
        a = m.group(1)
        via = any("mgr.get_printer" in t or "mgr.get_file_printer" in t for t in row["tokens"])
        if via:
            c.ob("C16.no-bypass", "<Action as TargetScheme>::compile", a, True, "%s writes through a mutex-protected printer" % a)
        elif a == "DefaultPrint":
            from . import c09

            okp, badp = c09.premises_hold(facts)
            c.ob("C16.no-bypass", "<Action as TargetScheme>::compile", a, okp, "DefaultPrint writes directly (runtime print, assumed atomic per record); it never runs next to a mutex-protected printer only because it is added solely to expressions without any action — premises C09.detect/C09.wrap %s" % ("hold" if okp else "are VIOLATED: %s" % badp[:2]), witness="-name a -print -o -name b with 2 threads" if not okp else None)
        else:
            c.ob("C16.no-bypass", "<Action as TargetScheme>::compile", a, False, "%s writes to the shared stdout directly (`%s`), bypassing the frame procedure's mutex when framed printers are in use" % (a, " ".join(row["tokens"])), witness="-print-file-fid -print0 with 2 threads")
    c.floor("write primitives in templates", nwrites, 2)
    print_n = nmutex[0]
    c.floor("mutex allocation sites seen (manager defaults + request paths)", print_n, MUTEX_SITES_FLOOR)
    bad = analyse_binding("(%lf3:frame:2 (lambda (s d) (display s %lf3:port:0) (with-mutex %lf3:mutex:1 (display d %lf3:port:0))))")
    c.control("C16.locked-writes", any(not w_["locks"] for w_ in bad["writes"]), "fixture with a display outside with-mutex is reported")
